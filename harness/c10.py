"""C10 — a sample dimension never mixes samples; unsupported shape combinations raise.

Lean side : TTModel/C10_Shapes.lean (shapes, sample-shape inference, the shape-dependent reduction of
            JointDistributionModel.log_prob as a plan over index->value tensors); theorems in
            TTProofs/Props/C10.lean (joint_sums_within_sample, plan_total, ...).
Tie       : exact black-box correspondence of the reduction plan: stub components returning sentinel tensors
            (distinct powers of two, exact in float64) are put into the REAL JointDistributionModel; the bit
            pattern of every output entry tells exactly which input entries were added to it; this must equal
            the model's plan (or both must fail) for every shape triple enumerated.
Search    : the property's own oracle — per-slice evaluation — on the REAL implementation: for every callable
            class / transform registered in c10_cases.py, every subset of parameters carrying the sample shape,
            sample shapes [S] and [S,K]: row s of the batched answer must equal the answer on slice s; an
            unsupported combination must raise.
"""
from __future__ import annotations

import itertools
import json
import math
import sys
import time
from pathlib import Path

from common import REPO, VERIF, Check, use_repo

use_repo()
import torch  # noqa: E402

torch.set_num_threads(2)
torch.set_default_dtype(torch.float64)  # as torchtree's own entry points do; all inputs here are float64

import c10_cases as CS  # noqa: E402

RTOL = 1e-9
NPOOL = 25  # pool index of sample (s,k) is 5*s+k: independent of S,K so slice answers are shared by all shapes


# ----------------------------------------------------------------------------- per-slice oracle
def pool_index(ss, s):
    return s[0] if len(ss) == 1 else 5 * s[0] + s[1]


def sample_indices(ss):
    return list(itertools.product(*[range(k) for k in ss]))


class Values:
    """one base value and NPOOL alternative values for every parameter of a case"""

    def __init__(self, case, seed):
        g = torch.Generator().manual_seed(seed)
        self.seed = seed
        self.base = {k: p.gen(g) for k, p in case.params.items()}
        self.pool = {k: [p.gen(g) for _ in range(NPOOL)] for k, p in case.params.items()}

    def batched(self, B, ss):
        v = {}
        for k, b in self.base.items():
            if k in B:
                v[k] = torch.stack([self.pool[k][pool_index(ss, s)] for s in sample_indices(ss)]).reshape(
                    tuple(ss) + tuple(b.shape))
            else:
                v[k] = b.clone()
        return v

    def slice(self, B, i):
        return {k: (self.pool[k][i] if k in B else b).clone() for k, b in self.base.items()}


def call(f, v):
    try:
        out = f(v)
        if not isinstance(out, torch.Tensor):
            return "raise", f"returned {type(out).__name__}"
        return "ok", out.detach().clone()
    except Exception as e:  # the implementation refusing a shape combination is acceptable
        return "raise", f"{type(e).__name__}: {str(e)[:100]}"


_TOL = [RTOL]  # relative tolerance in force (a case evaluated in single precision carries its own `rtol`)


class _tolerance:
    def __init__(self, case):
        self.t = getattr(case, "rtol", None) or RTOL

    def __enter__(self):
        self.old = _TOL[0]
        _TOL[0] = self.t

    def __exit__(self, *a):
        _TOL[0] = self.old


def close(a, b):
    a, b = a.reshape(-1).to(torch.float64), b.reshape(-1).to(torch.float64)
    if a.shape != b.shape:
        return False
    fin = torch.isfinite(a) & torch.isfinite(b)
    if not torch.equal(torch.isfinite(a), torch.isfinite(b)):
        return False
    if not torch.equal(a[~fin].isnan(), b[~fin].isnan()) or not torch.equal(a[~fin & ~a.isnan()], b[~fin & ~b.isnan()]):
        return False
    a, b = a[fin], b[fin]
    scale = torch.maximum(torch.maximum(a.abs(), b.abs()), torch.ones_like(a))
    return bool(((a - b).abs() <= _TOL[0] * scale).all())


def judge(ss, out, slices):
    """out: batched answer; slices: {sample index tuple: per-slice answer}. -> (verdict, detail)
    verdicts: ok | independent (nothing depends on the batched parameters; unbatched answer returned) |
              value (some row differs from its slice) | shape (no per-sample rows in the answer)"""
    ss = tuple(ss)
    n = len(ss)
    # a slice that is singular on its own (None) says nothing about its row: only the other rows are compared
    slices = {s: v for s, v in slices.items() if v is not None}
    if not slices:
        return "all-singular", None
    any_slice = next(iter(slices.values()))
    per_sample = tuple(out.shape[:n]) == ss and out.numel() == math.prod(ss) * any_slice.numel()
    if per_sample:
        for s, ref in slices.items():
            if not close(out[s], ref):
                return "value", {"sample": list(s), "batched_row": out[s].reshape(-1)[:6].tolist(),
                                 "slice_value": ref.reshape(-1)[:6].tolist(), "out_shape": list(out.shape)}
        return "ok", None
    if all(close(out, ref) for ref in slices.values()):
        return "independent", None
    # a number came back that is not organised per sample: could still be right if it broadcasts
    try:
        tgt = ss + tuple(any_slice.shape)
        exp = out.expand(tgt) if out.dim() <= len(tgt) else None
    except Exception:
        exp = None
    if exp is not None and all(close(exp[s], ref) for s, ref in slices.items()):
        return "ok", None
    return "shape", {"out_shape": list(out.shape), "expected_shape": list(ss) + list(any_slice.shape),
                     "batched": out.reshape(-1)[:6].tolist(),
                     "slice0": any_slice.reshape(-1)[:6].tolist()}


class Oracle:
    """evaluates one case for (batched subset, sample shape) against its slices, caching slice answers"""

    def __init__(self, case, seed, f=None, fs=None):
        """f: the call under test (batched values); fs: what a slice must give (default: the same call; for a
        joint distribution the sum of its components evaluated on the slice)"""
        self.case = case
        self.vals = Values(case, seed)
        self.f = f or case.build
        self.fs = fs or getattr(case, "spec", None) or self.f
        self.cache = {}

    def slice_out(self, B, i):
        key = (B, i)
        if key not in self.cache:
            self.cache[key] = call(self.fs, self.vals.slice(B, i))
        return self.cache[key]

    def claimed_shapes(self, v):
        """what the object itself (or each component of a joint) reports as its sample shape"""
        case = self.case
        try:
            if getattr(case, "claims", None) is not None:
                return case.claims(v)
            if case.mk is not None:
                return [(case.name, tuple(case.mk(v).sample_shape))]
        except Exception as e:
            return [(case.name, f"raise {type(e).__name__}")]
        return None

    def run(self, B, ss, singular_ok=False):
        """singular_ok: a slice that raises or is not finite when evaluated alone (a special value such as a zero
        growth rate) is left out; the OTHER rows must still equal their slices"""
        B = frozenset(B)
        st, out = call(self.f, self.vals.batched(B, ss))
        sl = {}
        for s in sample_indices(ss):
            st_s, o = self.slice_out(B, pool_index(ss, s))
            if singular_ok and (st_s != "ok" or not bool(torch.isfinite(o).all())):
                sl[s] = None
                continue
            if st_s != "ok":
                return "slice-raises", o
            sl[s] = o
        if st == "raise":
            return "raises", out
        with _tolerance(self.case):
            return judge(ss, out, sl)


def subsets(names, thorough, rng):
    names = sorted(names)
    if not names:
        return []
    full = [frozenset(c) for r in range(1, len(names) + 1) for c in itertools.combinations(names, r)]
    if len(full) <= 7 or (thorough and len(full) <= 255):
        return full
    if thorough:  # more than 8 parameters (mixtures): structured subsets + random ones, 200 in all
        keep = [frozenset(names)] + [frozenset([a]) for a in names] + [frozenset(names) - {a} for a in names]
        keep += [frozenset(c) for c in itertools.combinations(names, 2)]
        seen = set(keep)
        rest = [b for b in full if b not in seen]
        rng.shuffle(rest)
        return (keep + rest)[:200]
    # quick: all, every single parameter, every pair (at most 10 of them), a few complements of a single
    pick = [frozenset(names)] + [frozenset([a]) for a in names]
    pairs = [frozenset(c) for c in itertools.combinations(names, 2)]
    if len(pairs) > 10:
        rng.shuffle(pairs)
        pairs = sorted(pairs[:10], key=sorted)
    comps = [frozenset(names) - {a} for a in names]
    rng.shuffle(comps)
    for b in pairs + comps[:3]:
        if b not in pick:
            pick.append(b)
    return pick


def shapes_for(case, thorough, rng):
    one = [(s,) for s in range(1, 6)]
    two = [(s, k) for s in range(1, 6) for k in range(1, 6)]
    if thorough:
        return one + two
    special = sorted({d for d in case.dims.values() if 1 <= d <= 5})
    pick = {(1,), (2,)} | {(d,) for d in special}
    pick.add((rng.randint(2, 5),))
    two_pick = {(2, 3), (rng.randint(1, 5), rng.randint(1, 5))}
    for d in special[:3]:
        two_pick.add((d, d))
        two_pick.add((rng.randint(2, 5), d))
        two_pick.add((d, rng.randint(2, 5)))
    two_pick = sorted(two_pick)
    joint = getattr(case, "components", None) is not None
    if case.slow or joint:
        rng.shuffle(two_pick)
        two_pick = two_pick[: (3 if joint else 4)]
    if joint:
        pick = sorted(pick)
        rng.shuffle(pick)
        pick = [(2,)] + [p for p in pick if p != (2,)][:2]
    return sorted(pick) + two_pick


def coincidence(case, ss):
    hits = sorted(k for k, d in case.dims.items() if d in ss)
    return ",".join(hits)


def base_name(name):
    """class name without its configuration: 'GMRF[tree]' -> 'GMRF', 'HKY.p_t' stays"""
    out, depth = "", 0
    for ch in name:
        if ch == "[":
            depth += 1
        elif ch == "]":
            depth -= 1
        elif depth == 0:
            out += ch
    return out


def sig_base(case):
    comps = getattr(case, "components", None)
    if comps:
        return "Joint:" + "+".join(sorted({base_name(c) for c in comps}))
    return base_name(case.name)


def abstract_B(base, B):
    """Distribution wraps any torch distribution: its parameters are called 'parameter' in signatures"""
    if base == "Distribution":
        return frozenset("x" if k == "x" else "parameter" for k in B)
    return frozenset(B)


def sig_of(base, B, kind):
    return f"{base}|batched={'+'.join(sorted(B)) or 'none'}|{kind}"


def tolist(t):
    return {"shape": list(t.shape), "data": t.reshape(-1).tolist(), "dtype": str(t.dtype).replace("torch.", "")}


def fromlist(d):
    return torch.tensor(d["data"], dtype=getattr(torch, d["dtype"])).reshape(d["shape"])


SPECIAL_INDEX = 1  # pool index holding the special value: sample 1 of [S], sample (0, 1) of [S, K]


def explore_specials(ck: Check, case, found, budget=None):
    """ONE sample of the batch holds a boundary / special value of one parameter (exact 0 or 1, a tie between event
    times, equal neighbouring values, a value on a threshold of the code), the other samples are ordinary: a
    whole-batch data-dependent branch (`torch.any(x == 0)`, `nonzero()`, `isinf` rescue paths) must not change the
    other rows. Row vs slice as usual; the special sample itself is skipped when it is singular on its own."""
    name = case.name
    allnames = sorted(case.params)
    for k in allnames:
        for label, fn in case.params[k].specials:
            orc = Oracle(case, ck.rng.getrandbits(40))
            g = torch.Generator().manual_seed(ck.rng.getrandbits(40))
            try:
                orc.vals.pool[k][SPECIAL_INDEX] = fn(g).reshape(case.params[k].shape)
            except Exception as e:
                ck.notes.append(f"special {label} of {name}.{k} could not be generated: {type(e).__name__}")
                continue
            others = [a for a in allnames if a != k]
            subs = [frozenset([k]), frozenset(allnames)]
            if others:
                subs.append(frozenset([k, ck.rng.choice(others)]))
            if ck.thorough() and len(others) > 1:
                subs.append(frozenset([k, ck.rng.choice(others), ck.rng.choice(others)]))
            subs = [b for i, b in enumerate(subs) if b not in subs[:i] and case.valid(b)]
            shapes = [(2,), (3,), (2, 2), (2, 3), (3, 2)] if ck.thorough() else [(2,), ck.rng.choice([(3,), (2, 2), (2, 3)])]
            for B in subs:
                for ss in shapes:
                    if budget is not None and time.time() > budget:
                        return
                    verdict, detail = orc.run(B, ss, singular_ok=True)
                    ck.case(key=("special", name, k, label, tuple(sorted(B)), ss),
                            nontrivial=verdict not in ("slice-raises", "all-singular"),
                            sample={"case": name, "special": f"{k}={label} in sample {SPECIAL_INDEX}", "batched": sorted(B),
                                    "sample_shape": list(ss), "verdict": verdict} if verdict == "ok" and len(B) > 1 else None,
                            bucket=f"special/{verdict}/{label}")
                    pc = ck.extra.setdefault("per_class_special", {}).setdefault(name, {})
                    pc[verdict] = pc.get(verdict, 0) + 1
                    if verdict in ("value", "shape") and blame_component(case, orc, B, ss)[0] is not None:
                        continue  # a component reporting a wrong sample shape: found (and attributed) by explore_case
                    if verdict in ("value", "shape"):
                        key = (sig_base(case), frozenset(B), f"special:{k}={label}")
                        size = (len(ss), math.prod(ss))
                        prev = found.get(key)
                        if prev is None or size < prev[0]:
                            found[key] = (size, name, replay_dict(
                                name, orc, B, ss, verdict, detail,
                                {"special": {"parameter": k, "value": label, "pool_index": SPECIAL_INDEX},
                                 "singular_ok": True}), ss)


def replay_dict(case_name, orc, B, ss, verdict, detail, extra=None):
    B = frozenset(B)
    idx = sorted({pool_index(ss, s) for s in sample_indices(ss)})
    r = {
        "kind": "per-slice",
        "case": case_name,
        "batched": sorted(B),
        "sample_shape": list(ss),
        "verdict": verdict,
        "detail": detail,
        "base": {k: tolist(v) for k, v in orc.vals.base.items()},
        "pool": {k: {str(i): tolist(orc.vals.pool[k][i]) for i in idx} for k in B},
        "replay_cmd": "./check C10 --replay <this file>",
    }
    if getattr(orc.case, "components", None):
        r["components"] = orc.case.components
    if extra:
        r.update(extra)
    return r


# ----------------------------------------------------------------------------- run
def blame_component(case, orc, B, ss):
    """JointDistributionModel decides how to reduce a component from the sample shape the component reports: a
    component that carries the sample rows but reports another shape is the culprit of a wrong joint value.
    -> ((component name, reported shape) | None, batched names of that component | B)"""
    if getattr(case, "components", None) is None:
        return None, B
    for pos, (cname, claimed) in enumerate(orc.claimed_shapes(orc.vals.batched(B, ss)) or []):
        mine = frozenset(k.split(".", 1)[1] for k in B if k.startswith(f"{pos}."))
        if mine and claimed != tuple(ss):
            return (cname, claimed), mine
    return None, B


def explore_case(ck: Check, case, found, f=None, name=None, budget=None):
    name = name or case.name
    orc = Oracle(case, ck.rng.getrandbits(40), f)
    allnames = list(case.params)
    subs = subsets(allnames, ck.thorough(), ck.rng)
    if getattr(case, "spec", None) is not None:
        if not ck.thorough() and len(case.components) > 1:
            # mixtures: everything, each component alone entirely, a few single parameters and pairs
            comp_sets = [frozenset(k for k in allnames if k.startswith(f"{i}.")) for i in range(len(case.components))]
            rest = [b for b in subs if b not in comp_sets and len(b) < len(allnames)]
            ck.rng.shuffle(rest)
            subs = [frozenset(allnames)] + [b for b in comp_sets if b] + rest[:6]
        subs = [frozenset()] + subs  # the joint of unbatched components must be the sum of the components too
    for B in subs:
        if not case.valid(B):
            continue
        for ss in shapes_for(case, ck.thorough(), ck.rng):
            if budget is not None and time.time() > budget:
                return
            verdict, detail = orc.run(B, ss)
            orig_B = B
            co = coincidence(case, ss)
            ck.case(
                key=(name, tuple(sorted(B)), ss),
                nontrivial=verdict not in ("slice-raises",),
                sample={"case": name, "batched": sorted(B), "sample_shape": list(ss), "verdict": verdict}
                if verdict == "ok" and len(B) < len(allnames) and len(ss) == 2 else None,
                bucket=f"{verdict}/{'some' if len(B) < len(allnames) else 'all'}/{len(ss)}d"
                       f"{'/S=dim' if co else ''}",
            )
            ck.extra.setdefault("per_class", {}).setdefault(name, {}).setdefault(verdict, 0)
            ck.extra["per_class"][name][verdict] += 1
            culprit = None
            if verdict in ("value", "shape"):
                culprit, B = blame_component(case, orc, B, ss)
            if culprit is not None:
                cname, claimed = culprit
                cb = base_name(cname)
                key = (f"sample_shape:{cb}", abstract_B(cb, B) if cb == "Distribution" else frozenset(),
                       "wrong-sample-shape")
                prev = found.get(key)
                size = (len(ss), math.prod(ss))
                if prev is None or size < prev[0]:
                    found[key] = (size, name, replay_dict(name, orc, orig_B, ss, "sample_shape",
                                                          {"component": cname, "reported_sample_shape": list(claimed) if isinstance(claimed, tuple) else claimed,
                                                           "actual_sample_shape": list(ss), "joint_verdict": verdict, "joint_detail": detail},
                                                          {"S_equals": co}), ss)
            elif verdict in ("value", "shape"):
                key = (sig_base(case), frozenset(B), "mixes" if verdict == "value" else "no-sample-rows")
                prev = found.get(key)
                size = (len(ss), math.prod(ss))
                if prev is None or size < prev[0]:
                    found[key] = (size, name, replay_dict(name, orc, B, ss, verdict, detail,
                                                          {"S_equals": co}), ss)


def joint_cases(ck, cases):
    """JointDistributionModel over one component (every class that can be a component), then over random
    mixtures of 2-3 components"""
    cap = CS.joint_capable(cases)
    seen, out = set(), []
    for c in cap:
        b = base_name(c.name)
        if not ck.thorough() and b in seen and ck.rng.random() < 0.8:
            continue
        seen.add(b)
        out.append(CS.joint_case([c]))
    light = [c for c in cap if not c.slow]
    for _ in range(60 if ck.thorough() else 12):
        k = ck.rng.choice((2, 2, 3))
        comps = [ck.rng.choice(cap if ck.rng.random() < 0.15 else light) for _ in range(k)]
        out.append(CS.joint_case(comps))
    return out


def mixed_batch_joints(ck: Check, found):
    """systematic in every tier: JointDistributionModel of ONE batched component (value [S, d] or [S, K, d]) and ONE
    unbatched component whose element-wise value has N entries, N = 1..5 so that N equals S (or K) — where an
    unbatched vector can be mistaken for per-sample values. Both orders. Oracle (the joint's spec):
    joint[s] = lp_batched[s].sum() + lp_unbatched.sum(), or an error."""
    by = {c.name: c for c in CS.mixed_batch_components()}
    batched = [("Distribution[Normal,d=1]", ("x",)), ("Distribution[Normal,d=3]", ("x",)),
               ("Distribution[Gamma[d],d=2]", ("x",)), ("Distribution[Normal,d=2]", ("loc",)),
               ("TransformedParameter[exp,d=2].call", ("x",))]
    if ck.thorough():
        batched += [(f"Distribution[Normal,d={d}]", ("x",)) for d in (2, 4, 5)]
    one = [(s,) for s in range(2, 6)]
    for N in range(1, 6):
        unb = [f"Distribution[Normal,d={N}]", f"Distribution[Normal[d],d={N}]",
               f"TransformedParameter[exp{'' if N == 3 else ',d=' + str(N)}].call"]
        two = [(N, k) for k in (2, 3)] + [(k, N) for k in (2, 3)] + [(N, N)]
        two = [ss for ss in dict.fromkeys(two) if min(ss) >= 1]
        if not ck.thorough():
            two = two[:: 2] if N % 2 else two[1:: 2]
        for uname in unb:
            for bname, bpars in batched:
                for order in (0, 1):
                    comps = [by[bname], by[uname]] if order == 0 else [by[uname], by[bname]]
                    case = CS.joint_case(comps)
                    pos = 0 if order == 0 else 1
                    B = frozenset(f"{pos}.{k}" for k in bpars)
                    orc = Oracle(case, ck.rng.getrandbits(40))
                    for ss in one + two:
                        verdict, detail = orc.run(B, ss)
                        ck.case(key=("mixed-batch", case.name, tuple(sorted(B)), ss),
                                nontrivial=verdict != "slice-raises",
                                sample={"case": case.name, "batched": sorted(B), "sample_shape": list(ss),
                                        "unbatched_entries": N, "verdict": verdict} if N in ss and order == 1 and len(ss) == 1 else None,
                                bucket=f"mixed-batch/{verdict}/{'N=S' if N in ss else 'N!=S'}/{len(ss)}d")
                        if verdict in ("value", "shape"):
                            culprit, Bc = blame_component(case, orc, B, ss)
                            if culprit is not None:
                                cb = base_name(culprit[0])
                                key = (f"sample_shape:{cb}", abstract_B(cb, Bc) if cb == "Distribution" else frozenset(),
                                       "wrong-sample-shape")
                                repd = replay_dict(case.name, orc, B, ss, "sample_shape",
                                                   {"component": culprit[0], "reported_sample_shape": list(culprit[1]),
                                                    "actual_sample_shape": list(ss), "joint_verdict": verdict,
                                                    "joint_detail": detail})
                            else:
                                key = ("Joint:batched+unbatched", frozenset([f"unbatched-entries={'S' if N == ss[0] else 'K' if N in ss else 'other'}"]),
                                       "mixes" if verdict == "value" else "no-sample-rows")
                                repd = replay_dict(case.name, orc, B, ss, verdict, detail, {"unbatched_entries": N})
                            size = (len(ss), math.prod(ss), N)
                            prev = found.get(key)
                            if prev is None or size < prev[0]:
                                found[key] = (size, case.name, repd, ss)


def run(ck: Check):
    ck.rule = (
        "one case = one (callable class or transform, subset of its parameters carrying the sample shape, sample "
        "shape) evaluated on the REAL implementation and compared row by row with the evaluation on each slice; "
        "distinct = distinct (class, subset, shape); non-trivial = every slice evaluates (so the comparison or the "
        "raise is meaningful)"
    )
    ck.assumptions += [
        "torch broadcasting / indexing semantics are trusted (modelled only as far as the joint reduction needs)",
        f"rows are compared to relative {RTOL:g} (same float operations, batched kernels may differ in the last bits)",
        "a combination where the batched call raises is acceptable; one where a slice itself cannot be evaluated is "
        "not counted",
    ]
    ck.trusted += ["torch broadcasting, indexing, cat/expand/view/sum semantics", "torch.distributions densities"]
    ok, broken = ck.lean_side({}, ["TTProofs.Props.C10", "drv_c10"], "TTProofs/Props/C10.lean")

    drv = None
    try:
        drv = ck.driver("drv_c10")
        plan_correspondence(ck, drv)
        shape_inference_correspondence(ck, drv)
    except Exception as e:  # the driver may be unbuildable when the Lean side is broken
        ck.notes.append(f"model correspondence not run: {type(e).__name__}: {e}")
        if drv is None:
            ok = False
    finally:
        if drv:
            drv.close()

    found = {}
    # corpus first: minimised past failures (found before the fixes F22, F31-F35) must stay repaired
    import contextlib
    import io

    for f in sorted((VERIF / "corpus" / "C10").glob("*.json")):
        obj = json.loads(f.read_text())
        try:
            with contextlib.redirect_stdout(io.StringIO()) as buf:
                rc = replay(str(f))
        except Exception as e:
            rc, buf = 2, io.StringIO(f"{type(e).__name__}: {e}")
        known = any(k == obj.get("signature") for k, _ in ck.known)
        ck.case(key=("corpus", f.name), bucket=f"corpus/{'fails' if rc == 1 else 'ok' if rc == 0 else 'error'}")
        if rc == 1 and not known:
            ck.violation(obj["signature"], f"corpus case {f.name} fails again: {obj.get('what', '')[:160]}",
                         {k: v for k, v in obj.items() if k not in ("property", "signature", "what", "failing_input_found")})
        elif rc == 2:
            ck.notes.append(f"corpus case {f.name} could not be replayed: {buf.getvalue()[-200:]}")
    t_end = ck.t0 + (65 if not ck.thorough() else 780)
    cases = CS.all_cases(ck.thorough())
    jcases = joint_cases(ck, cases)
    # fair share of the time budget: 60% for the classes, the rest for joints; one case may use at most 2.5x its share
    t_mid = time.time() + 0.6 * max(t_end - time.time(), 1.0)
    for phase_end, group in ((t_mid, cases), (t_end, jcases)):
        for i, case in enumerate(group):
            now = time.time()
            share = 2.5 * max(phase_end - now, 0.0) / (len(group) - i)
            explore_case(ck, case, found, budget=min(phase_end, now + max(share, 0.5)))
            if group is cases or (ck.thorough() and len(case.components) == 1):
                explore_specials(ck, case, found, budget=min(phase_end, now + max(share, 0.5)))
    ck.extra["time_budget_exhausted"] = time.time() > t_end
    explore_objectives(ck, found)
    mixed_batch_joints(ck, found)
    explore_likelihood_terms(ck, found)
    # magnitude contrast between the samples of one batch under the rescued / rescaled pruning pass (16 taxa,
    # single and double precision): one sample with very short or very long branches, the others ordinary
    t_mc = time.time() + (10 if not ck.thorough() else 90)
    for case in CS.magnitude_contrast_cases(ck.thorough()):
        explore_specials(ck, case, found, budget=t_mc)
    explore_routes(ck, found)
    ck.extra["tensor_constructors_without_dtype_or_device_in_anchored_files"] = scan_constructors_without_dtype()
    t_extra = time.time() + (25 if not ck.thorough() else 120)
    explore_regimes(ck, cases, found, t_extra)
    explore_live_updates(ck, cases, found, t_extra)
    ck.extra["classes_covered"] = sorted({c.name for c in cases})

    report(ck, found)
    # a broken proof / plan correspondence must be reported even when the only failing inputs found are ones
    # listed as known findings (they do not explain the break)
    if not ck.violations and (not ok or ck.mismatches):
        ck.violation("c10:unproved", "C10 theorems or the plan correspondence no longer check",
                     {"broken_obligations": broken, "mismatches": ck.mismatches[:5]}, found_input=False)


def key_signature(key, rep):
    base, B, kind = key
    if rep["verdict"] == "sample_shape":
        return base if not B else sig_of(base, B, kind).rsplit("|", 1)[0]
    if rep["verdict"] == "objective":
        return f"{base}|{'+'.join(sorted(B))}|{kind}" if B else f"{base}|{kind}"
    return sig_of(base, B, kind)


def report(ck, found):
    """one violation per (class, minimal failing subset of batched parameters): a failing subset that contains
    a smaller failing subset of the same class is the same defect seen again. A finding listed as KNOWN never
    hides another one: only findings that will themselves be reported may stand for a duplicate."""
    keys = sorted(found, key=lambda k: (k[0], len(k[1]), sorted(k[1]), k[2]))
    known_sigs = {k for k, _t in ck.known}
    live = [k for k in keys if key_signature(k, found[k][2]) not in known_sigs]
    # classes that fail on their own: a joint containing one of them is not reported separately (a component that
    # only reports a wrong sample shape does not count: joint failures it causes are already filed under it)
    bad = {b for b, _B, _k in live if not b.startswith(("Joint:", "sample_shape:"))}
    for base, B, kind in keys:
        if base.startswith("Joint:") and any(c in bad or c.split(".")[0] in bad for c in base[6:].split("+")):
            continue
        if any(b2 == base and B2 < B for b2, B2, _k in live):
            continue
        if any(b2 == base and B2 == B and k2 < kind for b2, B2, k2 in live):
            continue
        if base.startswith("Joint:") and any(
                b2 == base[6:] and {k.split(".", 1)[-1] for k in B} == set(B2) for b2, B2, _k in live):
            continue  # the component alone already fails on the same subset
        _size, name, rep, ss = found[(base, B, kind)]
        if rep["verdict"] == "sample_shape":
            d = rep["detail"]
            what = (f"{d['component']} reports sample shape {d['reported_sample_shape']} while its value has one row "
                    f"per sample; JointDistributionModel then reduces across samples")
        elif rep["verdict"] == "objective":
            what = rep["detail"]["what"]
        elif rep["verdict"] in ("regime", "route"):
            d = rep["detail"]
            what = d.get("what") if isinstance(d, dict) and d.get("what") else f"{kind}: {json.dumps(d, default=str)[:200]}"
        else:
            what = ("row differs from its slice" if rep["verdict"] == "value"
                    else "a number is returned that has no per-sample rows and differs from the slices")
            if rep.get("special"):
                sp = rep["special"]
                what = (f"with {sp['parameter']} = {sp['value']} in sample {sp['pool_index']} only, a "
                        f"sample's {what}")
        sig = key_signature((base, B, kind), rep)
        ck.violation(sig, f"{name}: batched {rep['batched'] or 'nothing'} with sample shape {list(ss)}: {what}", rep)


# ----------------------------------------------------------------------------- replay
def _norm_name(name):
    import re

    return re.sub(r",?n=\d+", "", name).replace("[]", "")


def find_case(name, components=None, base=None):
    """look a case up by name; names written before the taxon count became part of the name (`,n=4`) still resolve:
    among the candidates the one whose parameter shapes equal those stored in the replay is taken"""
    cases = CS.all_cases(True) + CS.mixed_batch_components() + CS.json_cases() + CS.minimum_size_cases() + [
        CS.soft_skygrid_distribution_case()] + CS.likelihood_term_cases() + CS.magnitude_contrast_cases()

    def one(nm, shapes=None):
        exact = [c for c in cases if c.name == nm]
        cand = exact or [c for c in cases if _norm_name(c.name) == _norm_name(nm)]
        if shapes:
            fit = [c for c in cand if all(k in c.params and tuple(c.params[k].shape) == tuple(sh) for k, sh in shapes.items())]
            cand = fit or cand
        return cand[0] if cand else None

    whole = [c for c in cases if c.name == name]
    if whole:
        return whole[0]
    if components:
        comps = []
        for i, nm in enumerate(components):
            shapes = None
            if base:
                shapes = {k.split(".", 1)[1]: v["shape"] for k, v in base.items() if k.startswith(f"{i}.")}
            c = one(nm, shapes)
            if c is None:
                return None
            comps.append(c)
        return CS.joint_case(comps)
    return one(name, {k: v["shape"] for k, v in base.items()} if base else None)


def replay(path: str) -> int:
    obj = json.loads(Path(path).read_text())
    if obj.get("kind") == "objective":
        return replay_objective(obj)
    if obj.get("kind") != "per-slice":
        print("replay names broken obligations only:", obj.get("broken_obligations"))
        return 1
    case = find_case(obj["case"], obj.get("components"), obj.get("base"))
    if case is None:
        print("unknown case", obj["case"])
        return 2
    B = frozenset(obj["batched"])
    ss = tuple(obj["sample_shape"])
    base = {k: fromlist(v) for k, v in obj["base"].items()}
    pool = {k: {int(i): fromlist(t) for i, t in d.items()} for k, d in obj["pool"].items()}
    v = {}
    for k, b in base.items():
        if k in B:
            v[k] = torch.stack([pool[k][pool_index(ss, s)] for s in sample_indices(ss)]).reshape(ss + tuple(b.shape))
        else:
            v[k] = b
    if obj.get("regime") or obj.get("twin"):
        return replay_regime(case, obj, v, base, pool, B, ss)
    fs = getattr(case, "spec", None) or case.build
    st, out = call(case.build, v)
    print(f"{case.name}: batched {sorted(B)} sample shape {list(ss)} -> {st}",
          list(out.shape) if st == "ok" else out)
    if st != "ok":
        print("the implementation raises: acceptable")
        return 0
    sl = {}
    for s in sample_indices(ss):
        vs = {k: (pool[k][pool_index(ss, s)] if k in B else b) for k, b in base.items()}
        st_s, o = call(fs, vs)
        if obj.get("singular_ok") and (st_s != "ok" or not bool(torch.isfinite(o).all())):
            print(f"  sample {list(s)}: singular on its own ({o if st_s != 'ok' else o.reshape(-1)[:4].tolist()}): row not compared")
            sl[s] = None
            continue
        if st_s != "ok":
            print("slice", s, "raises:", o)
            return 2
        sl[s] = o
        row = out[s].reshape(-1)[:4].tolist() if tuple(out.shape[:len(ss)]) == ss else "(no row)"
        print(f"  sample {list(s)}: slice answer {o.reshape(-1)[:4].tolist()}  batched row {row}")
    with _tolerance(case):
        verdict, detail = judge(ss, out, sl)
    print("verdict:", verdict, detail or "")
    bad_claim = False
    if obj.get("verdict") == "sample_shape" and math.prod(ss) > 1:
        try:
            claims = case.claims(v) if getattr(case, "claims", None) else [(case.name, tuple(case.mk(v).sample_shape))]
        except Exception as e:
            claims = [(case.name, f"raise {type(e).__name__}")]
        want = obj["detail"].get("component")
        for cname, cl in claims:
            if want in (None, cname):
                print(f"{cname} reports sample shape {list(cl) if isinstance(cl, tuple) else cl}; its parameters carry {list(ss)}")
                bad_claim = bad_claim or (isinstance(cl, tuple) and cl != ss and bool(B))
    return 1 if verdict in ("value", "shape") or bad_claim else 0


# ----------------------------------------------------------------------------- variational objectives
def _objective_models(qkind, d, Z):
    """fresh q, p around one parameter z; q's sampling methods are replaced by a tape that stores Z"""
    from collections import OrderedDict

    from torchtree import Parameter
    from torchtree.distributions.distributions import Distribution
    from torchtree.distributions.joint_distribution import JointDistributionModel
    from torchtree.distributions.multivariate_normal import MultivariateNormal

    z = Parameter("z", Z.reshape(-1, d)[0].clone())
    loc = torch.linspace(-0.4, 0.6, d)
    scale = torch.linspace(0.7, 1.3, d)

    def normal(id_, x, lo, sc):
        return Distribution(id_, torch.distributions.Normal, x,
                            OrderedDict(loc=Parameter(id_ + ".loc", lo), scale=Parameter(id_ + ".scale", sc)))

    if qkind == "Distribution":
        q = normal("q", z, loc, scale)
    elif qkind == "Joint":
        q = JointDistributionModel("q", [normal("q0", z, loc, scale)])
    else:
        q = MultivariateNormal("q", z, Parameter("q.loc", loc), scale_tril=Parameter("q.tril", torch.diag(scale)))
    p = JointDistributionModel("p", [
        normal("prior", z, torch.tensor([0.3]), torch.tensor([1.7])),
        Distribution("lik", torch.distributions.Laplace, z,
                     OrderedDict(loc=Parameter("lik.loc", torch.tensor([0.1])),
                                 scale=Parameter("lik.scale", torch.tensor([0.9]))))])

    def tape(sample_shape=torch.Size()):
        z.tensor = Z.reshape(tuple(sample_shape) + (d,)).clone()

    q.rsample = tape
    q.sample = tape
    return q, p, z


def _objective_value(kind, flags, qkind, d, Z, ss):
    from torchtree.variational.kl import ELBO, KLpq, KLpqImportance

    q, p, _z = _objective_models(qkind, d, Z)
    samples = torch.Size(ss)
    if kind == "ELBO":
        obj = ELBO("o", q, p, samples, entropy=flags.get("entropy", False), score=flags.get("score", False))
    elif kind == "KLpq":
        obj = KLpq("o", q, p, samples)
    else:
        obj = KLpqImportance("o", q, p, samples)
    return obj()


def _objective_spec(kind, flags, qkind, d, Z, ss):
    """the objective written from per-slice values: p_s, q_s are p and q evaluated on sample s alone"""
    ps, qs = [], []
    for zs in Z.reshape(-1, d):
        q, p, z = _objective_models(qkind, d, zs)
        z.tensor = zs.clone()
        ps.append(p().sum())
        qs.append(q().sum())
    ps = torch.stack(ps).reshape(ss)
    qs = torch.stack(qs).reshape(ss)
    lw = ps - qs
    if kind == "ELBO":
        if flags.get("score"):
            return [(lw * qs).mean()]
        if len(ss) == 2:
            return [(torch.logsumexp(lw, -1) - math.log(ss[-1])).mean()]
        if flags.get("entropy"):
            q, _p, _z = _objective_models(qkind, d, Z.reshape(-1, d)[0])
            return [ps.mean() + q.entropy().sum()]
        return [lw.mean()]
    w = torch.softmax(lw.reshape(-1), 0).reshape(ss)
    if kind == "KLpq":
        flat = (w * lw).sum()
        if len(ss) == 1:
            return [flat]
        rows = torch.softmax(lw, -1)
        # a 2-d sample shape has no documented meaning for KLpq: all S*K draws normalised together, or the
        # mean over the outer axis of the per-row estimates, are both accepted (anything else must raise)
        return [flat, (rows * lw).sum(-1).mean(), (rows * lw).sum()]
    return [-(w * qs).sum()]


OBJECTIVES = [
    ("ELBO", {}), ("ELBO", {"entropy": True}), ("ELBO", {"score": True}), ("KLpq", {}), ("KLpqImportance", {}),
]


def explore_objectives(ck: Check, found):
    g = torch.Generator().manual_seed(ck.rng.getrandbits(40))
    for kind, flags in OBJECTIVES:
        for qkind in ("Distribution", "Joint", "MultivariateNormal"):
            for d in (1, 3):
                shapes = [(s,) for s in range(1, 6)]
                if not flags and kind in ("ELBO", "KLpq"):
                    two = [(s, k) for s in range(1, 6) for k in range(1, 6)]
                    if not ck.thorough():
                        two = [(2, 2), (3, 3), (d, d), (2, 3), (3, 1), (1, 3), (d, 2), (2, d),
                               (ck.rng.randint(1, 5), ck.rng.randint(1, 5))]
                    shapes += sorted(set(two))
                for ss in shapes:
                    Z = -1.5 + 3.0 * torch.rand(tuple(ss) + (d,), generator=g, dtype=torch.float64)
                    name = kind + "".join(f"[{k}]" for k in flags)
                    st, out = call(lambda _v: _objective_value(kind, flags, qkind, d, Z, ss), None)
                    try:
                        specs = _objective_spec(kind, flags, qkind, d, Z, ss)
                    except Exception as e:
                        ck.case(key=("obj", name, qkind, d, ss), nontrivial=False, bucket="objective/slice-raises")
                        ck.notes.append(f"objective spec raised for {name} q={qkind}: {type(e).__name__}: {e}")
                        continue
                    if st == "raise":
                        verdict = "raises"
                    elif any(out.numel() == 1 and close(out, sp) for sp in specs):
                        verdict = "ok"
                    else:
                        verdict = "objective"
                    ck.case(key=("obj", name, qkind, d, ss), bucket=f"objective/{verdict}/{len(ss)}d",
                            sample={"objective": name, "q": qkind, "event": d, "samples": list(ss), "verdict": verdict}
                            if verdict == "ok" and len(ss) == 2 else None)
                    pc = ck.extra.setdefault("per_class", {}).setdefault(f"{name} q={qkind}", {})
                    pc[verdict] = pc.get(verdict, 0) + 1
                    if verdict == "objective":
                        key = (name, frozenset([f"q={qkind}"]), f"samples-{len(ss)}d")
                        if kind == "KLpq" and len(ss) == 2:
                            key = (name, frozenset(), "samples-2d")  # whatever q is (F17)
                        size = (len(ss), math.prod(ss), d)
                        prev = found.get(key)
                        if prev is None or size < prev[0]:
                            detail = {"what": f"returns {out.reshape(-1)[:4].tolist()} (shape {list(out.shape)}) but "
                                              f"the same draws evaluated sample by sample give {[float(x) for x in specs]}",
                                      "returned": out.reshape(-1)[:8].tolist(), "per_slice": [float(x) for x in specs]}
                            found[key] = (size, f"{name} with q={qkind} (event size {d})",
                                          {"kind": "objective", "objective": kind, "flags": flags, "q": qkind, "event": d,
                                           "sample_shape": list(ss), "Z": tolist(Z), "verdict": "objective",
                                           "batched": [f"q={qkind}"], "detail": detail,
                                           "replay_cmd": "./check C10 --replay <this file>"}, ss)


def replay_objective(obj) -> int:
    Z = fromlist(obj["Z"])
    ss = tuple(obj["sample_shape"])
    st, out = call(lambda _v: _objective_value(obj["objective"], obj["flags"], obj["q"], obj["event"], Z, ss), None)
    print(f"{obj['objective']}{obj['flags']} q={obj['q']} samples={list(ss)} ->", st,
          out.reshape(-1).tolist() if st == "ok" else out)
    if st != "ok":
        print("the implementation raises: acceptable")
        return 0
    specs = _objective_spec(obj["objective"], obj["flags"], obj["q"], obj["event"], Z, ss)
    print("per-slice value(s) of the same draws:", [float(x) for x in specs])
    bad = not any(out.numel() == 1 and close(out, sp) for sp in specs)
    print("verdict:", "VIOLATES" if bad else "ok")
    return 1 if bad else 0


# ----------------------------------------------------------------------------- Lean model <-> implementation
def _shapes(maxlen, dims=(1, 2, 3)):
    out = [()]
    for n in range(1, maxlen + 1):
        out += list(itertools.product(dims, repeat=n))
    return out


def fmt_shape(s):
    return ",".join(str(d) for d in s) if len(s) else "-"


def parse_shape(w):
    return () if w == "-" else tuple(int(x) for x in w.split(","))


def _stub_class():
    from torchtree.core.model import CallableModel

    class Stub(CallableModel):
        """a component returning a fixed tensor and reporting a fixed sample shape"""

        def __init__(self, id_, value, claimed):
            super().__init__(id_)
            self.value = value
            self.claimed = torch.Size(claimed)

        def _call(self, *args, **kwargs):
            return self.value

        def _sample_shape(self):
            return self.claimed

        def handle_parameter_changed(self, variable, index, event):
            pass

        def handle_model_changed(self, model, obj, index):
            pass

        @classmethod
        def from_json(cls, data, dic):
            raise NotImplementedError

    return Stub


def impl_joint(comps):
    """comps: [(L, C)] -> ('ok', shape, values) with component c holding 2^(offset_c + flat index), or ('raise', msg)"""
    from torchtree.distributions.joint_distribution import JointDistributionModel

    Stub = _stub_class()
    models, off = [], 0
    for i, (L, C) in enumerate(comps):
        n = math.prod(L)
        v = (2.0 ** torch.arange(off, off + n, dtype=torch.float64)).reshape(L)
        off += n
        models.append(Stub(f"s{i}", v, C))
    assert off <= 52
    try:
        out = JointDistributionModel("j", models)()
        return "ok", tuple(out.shape), out.reshape(-1).tolist()
    except Exception as e:
        return "raise", f"{type(e).__name__}: {str(e)[:80]}", None


def model_joint(drv, comps):
    rep = drv.ask("joint auto " + " ".join(f"{fmt_shape(L)}/{fmt_shape(C)}" for L, C in comps))
    if rep.startswith("error:"):
        return "raise", rep, None
    if not rep.startswith("shape "):
        return "bad", rep, None
    _, sh, _, sup = (rep.split(" ") + [""])[:4]
    offs, off = [], 0
    for L, _C in comps:
        offs.append(off)
        off += math.prod(L)
    vals = []
    for grp in sup.split(";"):
        v = 0.0
        for ent in grp.split("+"):
            if ent:
                c, f = ent.split(".")
                v += 2.0 ** (offs[int(c)] + int(f))
        vals.append(v)
    return "ok", parse_shape(sh), vals


def plan_correspondence(ck: Check, drv):
    """the REAL JointDistributionModel on stub components with power-of-two entries vs the Lean plan:
    same error/non-error, same output shape, and bit-identical sums (= the same entries were added)"""
    rng = ck.rng
    shapes3 = _shapes(3)
    refs = [s for s in _shapes(2)]
    todo = []
    for L in shapes3:
        for C in shapes3:
            todo.append([(L, C)])
    two = []
    for L in shapes3:
        for C in shapes3:
            for J2 in refs:
                two.append([(L, C), (J2, J2)])
                two.append([(J2 + (2,), J2), (L, C)])
    if not ck.thorough():
        rng.shuffle(two)
        two = two[:2500]
    todo += two
    # three components: batched with events, batched without, one-element
    for _ in range(3000 if ck.thorough() else 400):
        J = rng.choice(refs)
        comps = []
        for _k in range(3):
            r = rng.random()
            if r < 0.5:
                E = rng.choice(_shapes(2))
                comps.append((J + E, J))
            elif r < 0.7:
                comps.append(((1,), rng.choice(shapes3)))
            else:
                comps.append((rng.choice(shapes3), rng.choice(shapes3)))
        if sum(math.prod(L) for L, _ in comps) <= 52:
            todo.append(comps)
    n_err = n_ok = 0
    for comps in todo:
        if sum(math.prod(L) for L, _ in comps) > 52:
            continue
        a = impl_joint(comps)
        b = model_joint(drv, comps)
        key = ("plan",) + tuple(comps)
        same = a[0] == b[0] and (a[0] == "raise" or (a[1] == b[1] and a[2] == b[2]))
        ck.case(key=key, bucket=f"plan/{a[0]}/{len(comps)}comp",
                sample={"components": [{"lp.shape": list(L), "sample_shape": list(C)} for L, C in comps],
                        "implementation": a[:2], "model": b[:2]} if a[0] == "ok" and len(comps) == 2 and n_ok % 97 == 0 else None)
        n_ok += a[0] == "ok"
        n_err += a[0] == "raise"
        if not same:
            ck.mismatch("joint reduction plan differs from the model",
                        {"components": [[list(L), list(C)] for L, C in comps], "implementation": a, "model": b})
    ck.extra["plan_correspondence"] = {"triples": len(todo), "ok": n_ok, "raise": n_err}
    # classification of every single-component triple: the model's finite description of what can mix
    desc = {}
    for L in shapes3:
        for n in range(len(L) + 1):
            for C in shapes3:
                rep = drv.ask(f"classify {fmt_shape(L)} {fmt_shape(C)} {fmt_shape(C)} {n}")
                desc[rep.split()[0]] = desc.get(rep.split()[0], 0) + 1
    ck.extra["classification_counts_single_component"] = desc


def shape_inference_correspondence(ck: Check, drv):
    from collections import OrderedDict

    from torchtree import Parameter
    from torchtree.core.container import Container
    from torchtree.distributions.distributions import Distribution
    from torchtree.evolution.coalescent import ConstantCoalescentModel, FakeTreeModel

    Stub = _stub_class()
    rng = ck.rng
    sh = _shapes(3)
    nonempty = [s for s in sh if s]
    # Container._sample_shape
    for _ in range(600 if ck.thorough() else 150):
        ps = [rng.choice(nonempty) for _ in range(rng.randint(0, 3))]
        ms = [rng.choice(sh) for _ in range(rng.randint(0, 3))]
        objs = [Parameter(f"p{i}", torch.zeros(s)) for i, s in enumerate(ps)] + [
            Stub(f"m{i}", torch.zeros(()), s) for i, s in enumerate(ms)]
        try:
            got = tuple(Container(None, objs).sample_shape)
        except Exception as e:
            got = f"raise {type(e).__name__}"
        rep = drv.ask(f"container {';'.join(map(fmt_shape, ps)) or 'none'} {';'.join(map(fmt_shape, ms)) or 'none'}")
        ck.case(key=("container", tuple(ps), tuple(ms)), bucket="inference/container")
        if rep == "bad-op" or got != parse_shape(rep):
            ck.mismatch("Container._sample_shape differs from the model", {"params": ps, "models": ms, "impl": got, "model": rep})
    # max(..., key=len) as the coalescent models use it
    for a in sh:
        for b in sh:
            m = ConstantCoalescentModel(None, Parameter("theta", torch.ones(b + (1,))),
                                        FakeTreeModel(Parameter("h", torch.ones(a + (5,)))))
            got = tuple(m.sample_shape)
            rep = drv.ask(f"longest {fmt_shape(a)};{fmt_shape(b)}")
            ck.case(key=("longest", a, b), bucket="inference/longest")
            if rep == "bad-op" or got != parse_shape(rep):
                ck.mismatch("max(key=len) sample shape differs from the model", {"shapes": [a, b], "impl": got, "model": rep})
    # Distribution._sample_shape: Normal (no event axis) and Dirichlet (one event axis)
    td = torch.distributions
    for x in sh:
        for p in nonempty:
            for kind in ("Normal", "Dirichlet"):
                if kind == "Normal":
                    d = Distribution(None, td.Normal, Parameter("x", torch.zeros(x)),
                                     OrderedDict(loc=Parameter("loc", torch.zeros(p)), scale=Parameter("scale", torch.ones(1))))
                    batch, ev = p, 0
                else:
                    d = Distribution(None, td.Dirichlet, Parameter("x", torch.zeros(x)),
                                     OrderedDict(concentration=Parameter("c", torch.ones(p))))
                    batch, ev = p[:-1], 1
                try:
                    got = tuple(d.sample_shape)
                except Exception as e:
                    got = f"raise {type(e).__name__}"
                rep = drv.ask(f"dist {fmt_shape(x)} {fmt_shape(batch)} {ev}")
                ck.case(key=("dist", kind, x, p), bucket="inference/distribution")
                if rep == "bad-op" or got != parse_shape(rep):
                    ck.mismatch("Distribution._sample_shape differs from the model",
                                {"distribution": kind, "x": x, "parameter": p, "impl": got, "model": rep})


# ----------------------------------------------------------------------------- fourth wave: how the object is reached
def _record(found, key, size, name, rep, ss):
    prev = found.get(key)
    if prev is None or size < prev[0]:
        found[key] = (size, name, rep, ss)


def explore_light(ck: Check, case, found, bucket):
    """row vs slice for: all parameters batched, each parameter alone, shapes [2] [3] [2,3] (+ specials)"""
    orc = Oracle(case, ck.rng.getrandbits(40))
    names = sorted(case.params)
    subs = [frozenset(names)] + [frozenset([k]) for k in names]
    subs = [b for i, b in enumerate(subs) if b not in subs[:i] and case.valid(b)]
    for B in subs:
        for ss in ((2,), (3,), (2, 3)):
            verdict, detail = orc.run(B, ss)
            ck.case(key=(bucket, case.name, tuple(sorted(B)), ss), nontrivial=verdict != "slice-raises",
                    bucket=f"{bucket}/{verdict}")
            pc = ck.extra.setdefault("per_class", {}).setdefault(case.name, {})
            pc[verdict] = pc.get(verdict, 0) + 1
            if verdict in ("value", "shape"):
                _record(found, (sig_base(case), B, "mixes" if verdict == "value" else "no-sample-rows"),
                        (len(ss), math.prod(ss)), case.name, replay_dict(case.name, orc, B, ss, verdict, detail), ss)
    explore_specials(ck, case, found)
    return orc


def explore_routes(ck: Check, found):
    """models built through process_object on complete JSON documents (inline batched parameters, optional keys,
    lists/numbers for fixed parameters, sub-objects by reference, short and full type names) must behave like the
    constructor-built twin, bit for bit, and pass row-vs-slice; plus the minimum-size instances"""
    for case in CS.json_cases():
        orc = explore_light(ck, case, found, "route")
        twin = getattr(case, "twin", None)
        if twin is None:
            continue
        names = frozenset(case.params)
        for B, ss in ((frozenset(), (2,)), (names, (2,)), (names, (2, 3)), (frozenset([sorted(names)[0]]), (3,))):
            v = orc.vals.batched(B, ss)
            a, b = call(case.build, v), call(twin.build, v)
            same = a[0] == b[0] and (a[0] != "ok" or (a[1].shape == b[1].shape and a[1].dtype == b[1].dtype
                                                       and torch.equal(a[1], b[1])))
            ck.case(key=("route-twin", case.name, tuple(sorted(B)), ss), bucket=f"route-twin/{'same' if same else 'differs'}")
            if not same:
                detail = {"json": a[1].reshape(-1)[:4].tolist() if a[0] == "ok" else a[1],
                          "constructor": b[1].reshape(-1)[:4].tolist() if b[0] == "ok" else b[1]}
                _record(found, (sig_base(case), B, "json-route-differs-from-constructor"), (len(ss), math.prod(ss)),
                        case.name, replay_dict(case.name, orc, B, ss, "route", detail, {"twin": twin.name}), ss)
    for case in CS.minimum_size_cases() + [CS.soft_skygrid_distribution_case()]:
        explore_light(ck, case, found, "minimum-size")
    # observation (builder-c08): the distribution-level class with temperature=None reads the sampling times of
    # row 0 for every row. Recorded, not a violation: sampling times are data, identical in every row on every route
    # the library offers (TimeTreeModel expands ONE `sampling_times` vector; the model class never passes
    # temperature=None to this class), so rows with different tip times can only be hand-built.
    try:
        from torchtree.evolution.coalescent import PiecewiseConstantCoalescentGrid, SoftPiecewiseConstantCoalescentGrid

        tips = torch.tensor([[0.0, 0.5, 1.0, 1.5], [0.0, 0.25, 0.75, 1.0]], dtype=torch.float64)
        inner = torch.tensor([[2.0, 2.6, 3.4], [1.8, 2.9, 3.1]], dtype=torch.float64)
        theta = torch.tensor([1.5, 0.7, 2.2, 1.1], dtype=torch.float64)
        grid = torch.tensor([1.0, 2.0, 3.0], dtype=torch.float64)
        nh = torch.cat((tips, inner), -1)
        obs = {}
        for nm, mk in (("soft(temperature=None)", lambda: SoftPiecewiseConstantCoalescentGrid(theta, grid, None)),
                       ("hard", lambda: PiecewiseConstantCoalescentGrid(theta, grid))):
            both = mk().log_prob(nh)
            rows = [mk().log_prob(nh[i]) for i in range(2)]
            obs[nm] = {"row_equals_slice": [bool(close(both[i], rows[i])) for i in range(2)]}
        obs["classification"] = ("rows with DIFFERENT sampling times are hand-built data, not a batched parameter: "
                                 "recorded as an observation, not counted as a C10 violation")
        ck.extra["soft_skygrid_row_specific_sampling_times"] = obs
    except Exception as e:
        ck.extra["soft_skygrid_row_specific_sampling_times"] = f"not evaluated: {type(e).__name__}: {e}"


def explore_likelihood_terms(ck: Check, found):
    """every Distribution wrapper used as a likelihood term, systematically down to the degenerate end of the index
    arithmetic in `_sample_shape`: fixed data x of every rank from exactly ONE event (no data axis) upward, univariate
    families (then x is 0-dimensional) and event-shaped ones (Dirichlet, MultivariateNormal), parameters carrying [S] /
    [S,K] (all of them, or one). Asserted: the reported sample_shape is the batch the parameters carry, log_prob row vs
    slice, the term alone in a JointDistributionModel, and next to a properly batched term (a prior whose x is the
    batched parameter): joint[s] = term[s].sum() + prior[s].sum(), or an error."""
    shapes = [(2,), (3,), (4,), (2, 3), (4, 4)] if not ck.thorough() else \
        [(s,) for s in range(1, 6)] + [(2, 3), (3, 2), (4, 4), (3, 3), (4, 2), (2, 4), (1, 3)]
    for case in CS.likelihood_term_cases():
        orc = Oracle(case, ck.rng.getrandbits(40))
        names = sorted(case.params)
        subs = [frozenset(names)] + [frozenset([k]) for k in names]
        subs = [b for i, b in enumerate(subs) if b not in subs[:i]]
        for B in subs:
            for ss in shapes:
                verdict, detail = orc.run(B, ss)
                claimed = None
                if verdict == "ok" and case.mk is not None and math.prod(ss) > 1:
                    try:
                        claimed = tuple(case.mk(orc.vals.batched(B, ss)).sample_shape)
                    except Exception as e:
                        claimed = f"raise {type(e).__name__}"
                wrong_claim = claimed is not None and claimed != tuple(ss)
                ck.case(key=("likelihood-term", case.name, tuple(sorted(B)), ss), nontrivial=verdict != "slice-raises",
                        sample={"case": case.name, "batched": sorted(B), "sample_shape": list(ss), "verdict": verdict,
                                "reported_sample_shape": list(claimed) if isinstance(claimed, tuple) else claimed}
                        if verdict == "ok" and claimed is not None and "one-event" in case.name and len(ss) == 2 else None,
                        bucket=f"likelihood-term/{'wrong-sample-shape' if wrong_claim else verdict}/"
                               f"{'one-event' if 'one-event' in case.name else 'data'}")
                pc = ck.extra.setdefault("per_class", {}).setdefault(case.name, {})
                pc[verdict] = pc.get(verdict, 0) + 1
                size = (len(ss), math.prod(ss))
                if wrong_claim:  # (a joint returning a wrong number is the preferred witness: this one sorts after it)
                    _record(found, ("sample_shape:Distribution", frozenset(["parameter"]), "wrong-sample-shape"), size + (1,), case.name,
                            replay_dict(case.name, orc, B, ss, "sample_shape",
                                        {"component": case.name, "reported_sample_shape": list(claimed) if isinstance(claimed, tuple) else claimed,
                                         "actual_sample_shape": list(ss), "joint_verdict": "not-in-a-joint", "joint_detail": None}), ss)
                if verdict in ("value", "shape"):
                    culprit = None
                    try:  # the joint cases here share one parameter set: the term is component 0
                        cname, cl = case.claims(orc.vals.batched(B, ss))[0]
                        if cl != tuple(ss):
                            culprit = (cname, cl)
                    except Exception:
                        pass
                    if culprit is not None and culprit[0].startswith("LikelihoodTerm"):
                        _record(found, ("sample_shape:Distribution", frozenset(["parameter"]), "wrong-sample-shape"), size, case.name,
                                replay_dict(case.name, orc, B, ss, "sample_shape",
                                            {"component": culprit[0], "reported_sample_shape": list(culprit[1]),
                                             "actual_sample_shape": list(ss), "joint_verdict": verdict, "joint_detail": detail}), ss)
                    else:
                        _record(found, (sig_base(case) if getattr(case, "components", None) is None else "Joint:LikelihoodTerm",
                                        frozenset(B), "mixes" if verdict == "value" else "no-sample-rows"), size, case.name,
                                replay_dict(case.name, orc, B, ss, verdict, detail), ss)


class _default_dtype:
    def __init__(self, dt):
        self.dt = dt

    def __enter__(self):
        self.old = torch.get_default_dtype()
        torch.set_default_dtype(self.dt)

    def __exit__(self, *a):
        torch.set_default_dtype(self.old)


def _bitwise(a, b):
    return a[0] == b[0] and (a[0] != "ok" or (a[1].shape == b[1].shape and a[1].dtype == b[1].dtype
                                               and torch.equal(a[1], b[1], ) or (a[1].shape == b[1].shape and
                                               torch.equal(torch.nan_to_num(a[1], nan=-7.0), torch.nan_to_num(b[1], nan=-7.0)))))


def explore_regimes(ck: Check, cases, found, budget):
    """the batched evaluation reached in other ways: under torch.no_grad(), with leaves requiring grad, evaluated
    twice, with default dtype float32 and float64 inputs, with float32 inputs — same rows (bitwise across grad modes and
    repeats; row vs slice inside each dtype regime; float64 inputs keep float64 accuracy whatever the default dtype);
    and every tensor handed in is bit-identical afterwards."""
    stats = ck.extra.setdefault("regimes", {})

    def bump(k):
        stats[k] = stats.get(k, 0) + 1

    for case in cases:
        if time.time() > budget:
            stats["stopped_by_budget"] = True
            return
        names = frozenset(case.params)
        if not names or not case.valid(names):
            continue
        orc = Oracle(case, ck.rng.getrandbits(40))
        ss = (2,)
        v0 = orc.vals.batched(names, ss)
        keep = {k: t.clone() for k, t in v0.items()}
        base = call(case.build, v0)
        if base[0] != "ok":
            bump("baseline-raises")
            continue
        ck.case(key=("regimes", case.name), bucket="regimes/cases")

        def flag(kind, detail, ss=ss, B=names):
            _record(found, (sig_base(case), frozenset(B), kind), (1, 2), case.name,
                    replay_dict(case.name, orc, B, ss, "regime", detail, {"regime": kind}), ss)

        # 4. immutability of what was handed in
        changed = [k for k in v0 if not torch.equal(v0[k], keep[k])]
        if changed:
            bump("input-mutated")
            flag("input-mutated", {"what": f"the tensors passed for {changed} were modified in place by the evaluation"})
        # 5. repeatability (fresh objects, same process)
        again = call(case.build, orc.vals.batched(names, ss))
        if not _bitwise(base, again):
            bump("repeat-differs")
            flag("repeat-differs", {"what": "a second identical evaluation in the same process returns another value",
                                    "first": base[1].reshape(-1)[:4].tolist(),
                                    "second": again[1].reshape(-1)[:4].tolist() if again[0] == "ok" else again[1]})
        # 3. grad modes
        with torch.no_grad():
            ng = call(case.build, orc.vals.batched(names, ss))
        if ng[0] == "raise":
            bump("no_grad-raises")
        elif not _bitwise(base, ng):
            bump("no_grad-differs")
            flag("no_grad-differs", {"what": "value under torch.no_grad() differs from the value with autograd enabled",
                                     "autograd": base[1].reshape(-1)[:4].tolist(), "no_grad": ng[1].reshape(-1)[:4].tolist()})
        vg = {k: (t.clone().requires_grad_(True) if t.is_floating_point() else t) for k, t in orc.vals.batched(names, ss).items()}
        rg = call(case.build, vg)
        if rg[0] == "raise":
            bump("requires_grad-raises")
            stats.setdefault("requires_grad_raises_in", []).append(f"{case.name}: {rg[1][:80]}")
        elif not _bitwise(base, rg):
            bump("requires_grad-differs")
            flag("requires_grad-differs", {"what": "value with leaves requiring grad differs from the plain value",
                                           "plain": base[1].reshape(-1)[:4].tolist(), "requires_grad": rg[1].reshape(-1)[:4].tolist()})
        # 2. dtype regimes: (a) default float32, float64 inputs
        with _default_dtype(torch.float32):
            a = call(case.build, orc.vals.batched(names, ss))
            sl = [call(case.build, orc.vals.slice(names, pool_index(ss, s))) for s in sample_indices(ss)]
        if a[0] == "raise":
            bump("default32/raises")
        else:
            bump(f"default32/result-{str(a[1].dtype).replace('torch.', '')}")
            if a[1].dtype != torch.float64:
                stats.setdefault("default32_float64_inputs_give_other_dtype", []).append(f"{case.name}: {a[1].dtype}")
            if all(x[0] == "ok" for x in sl):
                verdict, detail = judge(ss, a[1], {s: x[1] for s, x in zip(sample_indices(ss), sl)})
                if verdict in ("value", "shape"):
                    bump("default32/row-differs")
                    flag("default-float32|row-differs-from-slice", detail)
            if a[1].dtype == torch.float64 and a[1].shape == base[1].shape:
                fin = torch.isfinite(base[1]) & torch.isfinite(a[1])
                err = ((a[1] - base[1]).abs()[fin] / torch.clamp(base[1].abs()[fin], min=1.0))
                if err.numel() and float(err.max()) > 1e-10:
                    bump("default32/float64-inputs-lose-accuracy")
                    stats.setdefault("default32_accuracy_loss_in", []).append(f"{case.name}: rel {float(err.max()):.2e}")
        # (b) float32 inputs under default float64
        v32 = {k: (t.to(torch.float32) if t.dtype == torch.float64 else t) for k, t in orc.vals.batched(names, ss).items()}
        b = call(case.build, v32)
        if b[0] == "raise":
            bump("inputs32/raises")
        else:
            bump(f"inputs32/result-{str(b[1].dtype).replace('torch.', '')}")
            sl = []
            for s in sample_indices(ss):
                vs = {k: (t.to(torch.float32) if t.dtype == torch.float64 else t)
                      for k, t in orc.vals.slice(names, pool_index(ss, s)).items()}
                sl.append(call(case.build, vs))
            if all(x[0] == "ok" for x in sl) and tuple(b[1].shape[:1]) == ss:
                bad = None
                for s, x in zip(sample_indices(ss), sl):
                    r, q = b[1][s].reshape(-1).double(), x[1].reshape(-1).double()
                    if r.shape != q.shape:
                        bad = {"sample": list(s), "row_shape": list(r.shape), "slice_shape": list(q.shape)}
                        break
                    fin = torch.isfinite(r) & torch.isfinite(q)
                    tol = 2e-3 * torch.clamp(torch.maximum(r.abs(), q.abs()), min=1.0)
                    if not bool(((r - q).abs()[fin] <= tol[fin]).all()):
                        bad = {"sample": list(s), "batched_row": r[:4].tolist(), "slice_value": q[:4].tolist()}
                        break
                if bad:
                    bump("inputs32/row-differs")
                    flag("float32-inputs|row-differs-from-slice", bad)


def explore_live_updates(ck: Check, cases, found, budget):
    """an object first evaluated with unbatched parameters, then given batched tensors through the public
    `parameter.tensor = ...` interface (and back): it must return what a freshly built object returns — nothing
    remembered from the earlier shape (caches keyed by shape, tensors created at construction time)."""
    stats = ck.extra.setdefault("live_updates", {})
    for case in cases:
        if time.time() > budget:
            stats["stopped_by_budget"] = True
            return
        if case.mk is None or getattr(case, "components", None) is not None:
            continue
        names = sorted(case.params)
        orc = Oracle(case, ck.rng.getrandbits(40))
        try:
            obj = case.mk(orc.vals.slice(frozenset(), 0))
            ps = {}
            for p in obj.parameters():
                ps.setdefault(str(p.id), p)
            if not all(k in ps and tuple(ps[k].shape) == tuple(orc.vals.base[k].shape) for k in names):
                stats["skipped-no-parameter-handle"] = stats.get("skipped-no-parameter-handle", 0) + 1
                continue
            first = obj()
        except Exception as e:
            stats["skipped-" + type(e).__name__] = stats.get("skipped-" + type(e).__name__, 0) + 1
            continue
        for B in [frozenset(names)] + [frozenset([k]) for k in names[:3]]:
            if not case.valid(B):
                continue
            ss = (2,) if len(B) > 1 else (3,)
            vb = orc.vals.batched(B, ss)
            fresh = call(case.build, vb)
            try:
                for k in sorted(B):
                    ps[k].tensor = vb[k].clone()
                live = ("ok", obj().detach().clone())
            except Exception as e:
                live = ("raise", f"{type(e).__name__}: {str(e)[:80]}")
            try:  # and back to the unbatched values
                for k in sorted(B):
                    ps[k].tensor = orc.vals.base[k].clone()
                back = ("ok", obj().detach().clone())
            except Exception as e:
                back = ("raise", f"{type(e).__name__}: {str(e)[:80]}")
            ok1 = fresh[0] == "raise" or (live[0] == "ok" and live[1].shape == fresh[1].shape and close(live[1], fresh[1]))
            ok2 = back[0] == "ok" and back[1].shape == first.shape and close(back[1], first.detach())
            ck.case(key=("live", case.name, tuple(sorted(B))), bucket=f"live-update/{'ok' if ok1 and ok2 else 'differs'}")
            if not (ok1 and ok2):
                detail = {"what": ("after parameter.tensor = <batched> the live object " if not ok1 else
                                   "after going back to the unbatched tensors the live object ") +
                                  "does not return what a freshly built object returns",
                          "fresh": fresh[1].reshape(-1)[:4].tolist() if fresh[0] == "ok" else fresh[1],
                          "live": live[1].reshape(-1)[:4].tolist() if live[0] == "ok" else live[1],
                          "back": back[1].reshape(-1)[:4].tolist() if back[0] == "ok" else back[1],
                          "first": first.reshape(-1)[:4].tolist()}
                _record(found, (sig_base(case), frozenset(B), "live-update-differs-from-fresh"), (1, math.prod(ss)),
                        case.name, replay_dict(case.name, orc, B, ss, "regime", detail, {"regime": "live-update"}), ss)


ANCHORS = ["torchtree/distributions/joint_distribution.py", "torchtree/distributions/distributions.py",
           "torchtree/evolution/tree_likelihood.py", "torchtree/evolution/coalescent.py", "torchtree/evolution/bdsk.py",
           "torchtree/evolution/substitution_model/abstract.py", "torchtree/evolution/site_model.py",
           "torchtree/core/container.py", "torchtree/core/model.py"]


def scan_constructors_without_dtype():
    """tensor constructors in the anchored files that name neither dtype nor device (their result depends on the
    process-wide default dtype): listed in the evidence"""
    import ast

    makers = {"zeros", "ones", "full", "tensor", "arange", "linspace", "eye", "empty", "rand", "randn", "zeros_like",
              "ones_like", "full_like"}
    out = []
    for rel in ANCHORS:
        f = REPO / rel
        try:
            tree = ast.parse(f.read_text())
        except Exception as e:
            out.append(f"{rel}: not parsed ({type(e).__name__})")
            continue
        for node in ast.walk(tree):
            if isinstance(node, ast.Call) and isinstance(node.func, ast.Attribute) and node.func.attr in makers \
                    and isinstance(node.func.value, ast.Name) and node.func.value.id == "torch":
                kws = {k.arg for k in node.keywords}
                if node.func.attr.endswith("_like"):
                    continue  # inherits dtype and device from its argument
                if "dtype" not in kws and "device" not in kws and None not in kws:
                    out.append(f"{rel}:{node.lineno} torch.{node.func.attr}(...)")
    return out


# ----------------------------------------------------------------------------- fourth wave: how the object is reached
def _record(found, key, size, name, rep, ss):
    prev = found.get(key)
    if prev is None or size < prev[0]:
        found[key] = (size, name, rep, ss)


def explore_light(ck: Check, case, found, bucket):
    """row vs slice for: all parameters batched, each parameter alone, shapes [2] [3] [2,3] (+ specials)"""
    orc = Oracle(case, ck.rng.getrandbits(40))
    names = sorted(case.params)
    subs = [frozenset(names)] + [frozenset([k]) for k in names]
    subs = [b for i, b in enumerate(subs) if b not in subs[:i] and case.valid(b)]
    for B in subs:
        for ss in ((2,), (3,), (2, 3)):
            verdict, detail = orc.run(B, ss)
            ck.case(key=(bucket, case.name, tuple(sorted(B)), ss), nontrivial=verdict != "slice-raises",
                    bucket=f"{bucket}/{verdict}")
            pc = ck.extra.setdefault("per_class", {}).setdefault(case.name, {})
            pc[verdict] = pc.get(verdict, 0) + 1
            if verdict in ("value", "shape"):
                _record(found, (sig_base(case), B, "mixes" if verdict == "value" else "no-sample-rows"),
                        (len(ss), math.prod(ss)), case.name, replay_dict(case.name, orc, B, ss, verdict, detail), ss)
    explore_specials(ck, case, found)
    return orc


def explore_routes(ck: Check, found):
    """models built through process_object on complete JSON documents (inline batched parameters, optional keys,
    lists/numbers for fixed parameters, sub-objects by reference, short and full type names) must behave like the
    constructor-built twin, bit for bit, and pass row-vs-slice; plus the minimum-size instances"""
    for case in CS.json_cases():
        orc = explore_light(ck, case, found, "route")
        twin = getattr(case, "twin", None)
        if twin is None:
            continue
        names = frozenset(case.params)
        for B, ss in ((frozenset(), (2,)), (names, (2,)), (names, (2, 3)), (frozenset([sorted(names)[0]]), (3,))):
            v = orc.vals.batched(B, ss)
            a, b = call(case.build, v), call(twin.build, v)
            same = _bitwise(a, b)
            ck.case(key=("route-twin", case.name, tuple(sorted(B)), ss), bucket=f"route-twin/{'same' if same else 'differs'}")
            if not same:
                detail = {"what": "the object built through from_json does not return what the constructor-built one returns",
                          "json": a[1].reshape(-1)[:4].tolist() if a[0] == "ok" else a[1],
                          "constructor": b[1].reshape(-1)[:4].tolist() if b[0] == "ok" else b[1]}
                _record(found, (sig_base(case), B, "json-route-differs-from-constructor"), (len(ss), math.prod(ss)),
                        case.name, replay_dict(case.name, orc, B, ss, "route", detail, {"twin": twin.name}), ss)
    for case in CS.minimum_size_cases() + [CS.soft_skygrid_distribution_case()]:
        explore_light(ck, case, found, "minimum-size")
    # observation (builder-c08): the distribution-level class with temperature=None reads the sampling times of
    # row 0 for every row. Recorded, not a violation: sampling times are data, identical in every row on every route
    # the library offers (TimeTreeModel expands ONE `sampling_times` vector; the model class never passes
    # temperature=None to this class), so rows with different tip times can only be hand-built.
    try:
        from torchtree.evolution.coalescent import PiecewiseConstantCoalescentGrid, SoftPiecewiseConstantCoalescentGrid

        tips = torch.tensor([[0.0, 0.5, 1.0, 1.5], [0.0, 0.25, 0.75, 1.0]], dtype=torch.float64)
        inner = torch.tensor([[2.0, 2.6, 3.4], [1.8, 2.9, 3.1]], dtype=torch.float64)
        theta = torch.tensor([1.5, 0.7, 2.2, 1.1], dtype=torch.float64)
        grid = torch.tensor([1.0, 2.0, 3.0], dtype=torch.float64)
        nh = torch.cat((tips, inner), -1)
        obs = {}
        for nm, mk in (("soft(temperature=None)", lambda: SoftPiecewiseConstantCoalescentGrid(theta, grid, None)),
                       ("hard", lambda: PiecewiseConstantCoalescentGrid(theta, grid))):
            both = mk().log_prob(nh)
            rows = [mk().log_prob(nh[i]) for i in range(2)]
            obs[nm] = {"row_equals_slice": [bool(close(both[i], rows[i])) for i in range(2)]}
        obs["classification"] = ("rows with DIFFERENT sampling times are hand-built data, not a batched parameter: "
                                 "recorded as an observation, not counted as a C10 violation")
        ck.extra["soft_skygrid_row_specific_sampling_times"] = obs
    except Exception as e:
        ck.extra["soft_skygrid_row_specific_sampling_times"] = f"not evaluated: {type(e).__name__}: {e}"


class _default_dtype:
    def __init__(self, dt):
        self.dt = dt

    def __enter__(self):
        self.old = torch.get_default_dtype()
        torch.set_default_dtype(self.dt)

    def __exit__(self, *a):
        torch.set_default_dtype(self.old)


def _bitwise(a, b):
    if a[0] != b[0]:
        return False
    if a[0] != "ok":
        return True
    x, y = a[1], b[1]
    return x.shape == y.shape and x.dtype == y.dtype and torch.equal(torch.nan_to_num(x, nan=-7.0), torch.nan_to_num(y, nan=-7.0))


def explore_regimes(ck: Check, cases, found, budget):
    """the batched evaluation reached in other ways: under torch.no_grad(), with leaves requiring grad, evaluated
    twice, with default dtype float32 and float64 inputs, with float32 inputs — same rows (bitwise across grad modes and
    repeats; row vs slice inside each dtype regime; accuracy of float64 inputs under a float32 default is recorded);
    and every tensor handed in is bit-identical afterwards."""
    stats = ck.extra.setdefault("regimes", {})

    def bump(k):
        stats[k] = stats.get(k, 0) + 1

    for case in cases:
        if time.time() > budget:
            stats["stopped_by_budget"] = True
            return
        names = frozenset(case.params)
        if not names or not case.valid(names):
            continue
        orc = Oracle(case, ck.rng.getrandbits(40))
        ss = (2,)
        v0 = orc.vals.batched(names, ss)
        keep = {k: t.clone() for k, t in v0.items()}
        base = call(case.build, v0)
        if base[0] != "ok":
            bump("baseline-raises")
            continue
        ck.case(key=("regimes", case.name), bucket="regimes/cases")

        def flag(kind, detail, ss=ss, B=names, case=case, orc=orc):
            _record(found, (sig_base(case), frozenset(B), kind), (1, 2), case.name,
                    replay_dict(case.name, orc, B, ss, "regime", detail, {"regime": kind}), ss)

        changed = [k for k in v0 if not torch.equal(v0[k], keep[k])]
        if changed:
            bump("input-mutated")
            flag("input-mutated", {"what": f"the tensors passed for {changed} were modified in place by the evaluation"})
        again = call(case.build, orc.vals.batched(names, ss))
        if not _bitwise(base, again):
            bump("repeat-differs")
            flag("repeat-differs", {"what": "a second identical evaluation in the same process returns another value",
                                    "first": base[1].reshape(-1)[:4].tolist(),
                                    "second": again[1].reshape(-1)[:4].tolist() if again[0] == "ok" else again[1]})
        with torch.no_grad():
            ng = call(case.build, orc.vals.batched(names, ss))
        if ng[0] == "raise":
            bump("no_grad-raises")
        elif not _bitwise(base, ng):
            bump("no_grad-differs")
            flag("no_grad-differs", {"what": "value under torch.no_grad() differs from the value with autograd enabled",
                                     "autograd": base[1].reshape(-1)[:4].tolist(), "no_grad": ng[1].reshape(-1)[:4].tolist()})
        vg = {k: (t.clone().requires_grad_(True) if t.is_floating_point() else t) for k, t in orc.vals.batched(names, ss).items()}
        rg = call(case.build, vg)
        if rg[0] == "raise":
            bump("requires_grad-raises")
            stats.setdefault("requires_grad_raises_in", []).append(f"{case.name}: {rg[1][:80]}")
        elif not _bitwise(base, rg):
            bump("requires_grad-differs")
            flag("requires_grad-differs", {"what": "value with leaves requiring grad differs from the plain value",
                                           "plain": base[1].reshape(-1)[:4].tolist(), "requires_grad": rg[1].reshape(-1)[:4].tolist()})
        # dtype regimes: (a) default float32, float64 inputs
        with _default_dtype(torch.float32):
            a = call(case.build, orc.vals.batched(names, ss))
            sl = [call(case.build, orc.vals.slice(names, pool_index(ss, s))) for s in sample_indices(ss)]
        if a[0] == "raise":
            bump("default32/raises")
        else:
            bump(f"default32/result-{str(a[1].dtype).replace('torch.', '')}")
            if a[1].dtype != torch.float64:
                stats.setdefault("default32_float64_inputs_give_other_dtype", []).append(f"{case.name}: {a[1].dtype}")
            if all(x[0] == "ok" for x in sl):
                verdict, detail = judge(ss, a[1], {s: x[1] for s, x in zip(sample_indices(ss), sl)})
                if verdict in ("value", "shape"):
                    bump("default32/row-differs")
                    flag("default-float32|row-differs-from-slice", detail)
            if a[1].dtype == torch.float64 and a[1].shape == base[1].shape:
                fin = torch.isfinite(base[1]) & torch.isfinite(a[1])
                err = ((a[1] - base[1]).abs()[fin] / torch.clamp(base[1].abs()[fin], min=1.0))
                if err.numel() and float(err.max()) > 1e-10:
                    bump("default32/float64-inputs-lose-accuracy")
                    stats.setdefault("default32_accuracy_loss_in", []).append(f"{case.name}: rel {float(err.max()):.2e}")
        # (b) float32 inputs under default float64
        to32 = lambda d: {k: (t.to(torch.float32) if t.dtype == torch.float64 else t) for k, t in d.items()}  # noqa: E731
        b = call(case.build, to32(orc.vals.batched(names, ss)))
        if b[0] == "raise":
            bump("inputs32/raises")
        else:
            bump(f"inputs32/result-{str(b[1].dtype).replace('torch.', '')}")
            sl = [call(case.build, to32(orc.vals.slice(names, pool_index(ss, s)))) for s in sample_indices(ss)]
            if all(x[0] == "ok" for x in sl) and tuple(b[1].shape[:1]) == ss:
                bad = None
                for s, x in zip(sample_indices(ss), sl):
                    r, q = b[1][s].reshape(-1).double(), x[1].reshape(-1).double()
                    if r.shape != q.shape:
                        bad = {"sample": list(s), "row_shape": list(r.shape), "slice_shape": list(q.shape)}
                        break
                    fin = torch.isfinite(r) & torch.isfinite(q)
                    tol = 2e-3 * torch.clamp(torch.maximum(r.abs(), q.abs()), min=1.0)
                    if not bool(((r - q).abs()[fin] <= tol[fin]).all()):
                        bad = {"sample": list(s), "batched_row": r[:4].tolist(), "slice_value": q[:4].tolist()}
                        break
                if bad:
                    bump("inputs32/row-differs")
                    flag("float32-inputs|row-differs-from-slice", bad)


def explore_live_updates(ck: Check, cases, found, budget):
    """an object first evaluated with unbatched parameters, then given batched tensors through the public
    `parameter.tensor = ...` interface (and back): it must return what a freshly built object returns — nothing
    remembered from the earlier shape (caches keyed by shape, tensors created at construction time)."""
    stats = ck.extra.setdefault("live_updates", {})
    for case in cases:
        if time.time() > budget:
            stats["stopped_by_budget"] = True
            return
        if case.mk is None or getattr(case, "components", None) is not None:
            continue
        names = sorted(case.params)
        orc = Oracle(case, ck.rng.getrandbits(40))
        try:
            obj = case.mk(orc.vals.slice(frozenset(), 0))
            ps = {}
            for p in obj.parameters():
                ps.setdefault(str(p.id), p)
            if not all(k in ps and tuple(ps[k].shape) == tuple(orc.vals.base[k].shape) for k in names):
                stats["skipped-no-parameter-handle"] = stats.get("skipped-no-parameter-handle", 0) + 1
                continue
            first = obj().detach().clone()
        except Exception as e:
            stats["skipped-" + type(e).__name__] = stats.get("skipped-" + type(e).__name__, 0) + 1
            continue
        for B in [frozenset(names)] + [frozenset([k]) for k in names[:3]]:
            if not case.valid(B):
                continue
            ss = (2,) if len(B) > 1 else (3,)
            vb = orc.vals.batched(B, ss)
            fresh = call(case.build, vb)
            try:
                for k in sorted(B):
                    ps[k].tensor = vb[k].clone()
                live = ("ok", obj().detach().clone())
            except Exception as e:
                live = ("raise", f"{type(e).__name__}: {str(e)[:80]}")
            try:  # and back to the unbatched values
                for k in sorted(B):
                    ps[k].tensor = orc.vals.base[k].clone()
                back = ("ok", obj().detach().clone())
            except Exception as e:
                back = ("raise", f"{type(e).__name__}: {str(e)[:80]}")
            ok1 = fresh[0] == "raise" or (live[0] == "ok" and live[1].shape == fresh[1].shape and close(live[1], fresh[1]))
            ok2 = back[0] == "ok" and back[1].shape == first.shape and close(back[1], first)
            ck.case(key=("live", case.name, tuple(sorted(B))), bucket=f"live-update/{'ok' if ok1 and ok2 else 'differs'}")
            if not (ok1 and ok2):
                detail = {"what": ("after parameter.tensor = <batched> the live object " if not ok1 else
                                   "after going back to the unbatched tensors the live object ") +
                                  "does not return what a freshly built object returns",
                          "fresh": fresh[1].reshape(-1)[:4].tolist() if fresh[0] == "ok" else fresh[1],
                          "live": live[1].reshape(-1)[:4].tolist() if live[0] == "ok" else live[1],
                          "back": back[1].reshape(-1)[:4].tolist() if back[0] == "ok" else back[1],
                          "first": first.reshape(-1)[:4].tolist()}
                _record(found, (sig_base(case), frozenset(B), "live-update-differs-from-fresh"), (1, math.prod(ss)),
                        case.name, replay_dict(case.name, orc, B, ss, "regime", detail, {"regime": "live-update"}), ss)


ANCHORS = ["torchtree/distributions/joint_distribution.py", "torchtree/distributions/distributions.py",
           "torchtree/evolution/tree_likelihood.py", "torchtree/evolution/coalescent.py", "torchtree/evolution/bdsk.py",
           "torchtree/evolution/substitution_model/abstract.py", "torchtree/evolution/site_model.py",
           "torchtree/core/container.py", "torchtree/core/model.py"]


def scan_constructors_without_dtype():
    """tensor constructors in the anchored files that name neither dtype nor device (their result depends on the
    process-wide default dtype): listed in the evidence"""
    import ast

    makers = {"zeros", "ones", "full", "tensor", "arange", "linspace", "eye", "empty", "rand", "randn"}
    out = []
    for rel in ANCHORS:
        f = REPO / rel
        try:
            tree = ast.parse(f.read_text())
        except Exception as e:
            out.append(f"{rel}: not parsed ({type(e).__name__})")
            continue
        for node in ast.walk(tree):
            if isinstance(node, ast.Call) and isinstance(node.func, ast.Attribute) and node.func.attr in makers \
                    and isinstance(node.func.value, ast.Name) and node.func.value.id == "torch":
                kws = {k.arg for k in node.keywords}
                if "dtype" not in kws and "device" not in kws and None not in kws:
                    out.append(f"{rel}:{node.lineno} torch.{node.func.attr}(...)")
    return sorted(out)


def replay_regime(case, obj, v, base, pool, B, ss) -> int:
    """re-execute a finding of the fourth-wave passes (how the batched evaluation is reached)"""
    kind = obj.get("regime") or "route"
    fresh = lambda: {k: t.clone() for k, t in v.items()}  # noqa: E731
    slices = lambda cast=None: {  # noqa: E731
        s: {k: ((pool[k][pool_index(ss, s)] if k in B else b).clone()) for k, b in base.items()} for s in sample_indices(ss)}
    print(f"{case.name}: batched {sorted(B)} sample shape {list(ss)}: {kind}")
    plain = call(case.build, fresh())
    bad = False
    if kind == "route":
        twin = find_case(obj["twin"], None, obj.get("base"))
        other = call(twin.build, fresh())
        bad = not _bitwise(plain, other)
        print("  built through from_json:", plain[1].reshape(-1)[:4].tolist() if plain[0] == "ok" else plain[1])
        print("  built by the constructor:", other[1].reshape(-1)[:4].tolist() if other[0] == "ok" else other[1])
    elif kind == "input-mutated":
        vv = fresh()
        call(case.build, vv)
        changed = [k for k in vv if not torch.equal(vv[k], v[k])]
        print("  inputs modified in place:", changed)
        bad = bool(changed)
    elif kind == "repeat-differs":
        bad = not _bitwise(plain, call(case.build, fresh()))
    elif kind == "no_grad-differs":
        with torch.no_grad():
            ng = call(case.build, fresh())
        bad = ng[0] == "ok" and not _bitwise(plain, ng)
        print("  autograd:", plain[1].reshape(-1)[:4].tolist() if plain[0] == "ok" else plain[1], " no_grad:",
              ng[1].reshape(-1)[:4].tolist() if ng[0] == "ok" else ng[1])
    elif kind == "requires_grad-differs":
        rg = call(case.build, {k: (t.clone().requires_grad_(True) if t.is_floating_point() else t) for k, t in v.items()})
        bad = rg[0] == "ok" and not _bitwise(plain, rg)
    elif kind == "live-update":
        obj_ = case.mk({k: b.clone() for k, b in base.items()})
        ps = {}
        for p in obj_.parameters():
            ps.setdefault(str(p.id), p)
        first = obj_().detach().clone()
        for k in sorted(B):
            ps[k].tensor = v[k].clone()
        live = call(lambda _v: obj_(), None)
        for k in sorted(B):
            ps[k].tensor = base[k].clone()
        back = call(lambda _v: obj_(), None)
        ok1 = plain[0] == "raise" or (live[0] == "ok" and live[1].shape == plain[1].shape and close(live[1], plain[1]))
        ok2 = back[0] == "ok" and close(back[1], first)
        print("  fresh:", plain[1].reshape(-1)[:4].tolist() if plain[0] == "ok" else plain[1], " live:",
              live[1].reshape(-1)[:4].tolist() if live[0] == "ok" else live[1], " back to unbatched ok:", ok2)
        bad = not (ok1 and ok2)
    else:  # dtype regimes: row vs slice inside the regime
        f32_default = kind.startswith("default-float32")
        cast = (lambda t: t) if f32_default else (lambda t: t.to(torch.float32) if t.dtype == torch.float64 else t)
        with _default_dtype(torch.float32 if f32_default else torch.float64):
            a = call(case.build, {k: cast(t.clone()) for k, t in v.items()})
            sl = {s: call(case.build, {k: cast(t) for k, t in vs.items()}) for s, vs in slices().items()}
        if a[0] == "ok" and all(x[0] == "ok" for x in sl.values()):
            for s, x in sl.items():
                r, q = a[1][s].reshape(-1).double(), x[1].reshape(-1).double()
                tol = (RTOL if f32_default else 2e-3) * torch.clamp(torch.maximum(r.abs(), q.abs()), min=1.0)
                okrow = r.shape == q.shape and bool(((r - q).abs() <= tol).all())
                print(f"  sample {list(s)}: row {r[:3].tolist()} slice {q[:3].tolist()} {'ok' if okrow else 'DIFFERS'}")
                bad = bad or not okrow
    print("verdict:", "VIOLATES" if bad else "ok")
    return 1 if bad else 0
