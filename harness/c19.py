"""C19 — every configuration the CLI emits is runnable and targets the right density.

Lean side : TTModel/C19_CLI.lean — createJacobians, makeUnconstrained (and the constraint dispatch of
            create_meanfield) as Json -> Json rewrites over the C13 `Json`; theorems in
            TTProofs/Props/C19.lean (jacobians_exactly_once, unconstrain_covers …).
Tie       : the REAL CLI builders run in-process over the option space (pairwise covering array in quick;
            + full enumeration of the model-defining core in thorough) on a 6-taxon data set; every REAL call
            of make_unconstrained / create_jacobians made by the builders is recorded (input, output) and
            replayed on the Lean rewrites: rewritten tree and id lists compared exactly (numbers produced by
            float32 torch transforms within 2e-6).
Explore   : every emitted JSON is loaded as `torchtree --dry` does; density and gradient must be finite at the
            initial point; requested initial values must be in effect; joint.jacobian − joint must equal an
            independently computed sum of log-Jacobians (object graph walk from the priors' random variables).
PARTIAL   : the option space is enumerated, not proved.
"""
from __future__ import annotations

import contextlib
import copy
import io
import json
import math
import re
import traceback
from pathlib import Path

from common import REPO, VERIF, Check, use_repo

import sys  # noqa: E402

sys.path.insert(0, str(VERIF / "harness" / "translators"))
import c19_space as S  # noqa: E402
import tr_cli  # noqa: E402

LEVEL = "exploration"
EXTRA_NOTES = set()
EXTRA_JAC = [[]]


# ---------------------------------------------------------------------- evaluation of a loaded configuration
def flatten_models(m, out=None, seen=None):
    """all distribution-like models below a JointDistributionModel"""
    out = [] if out is None else out
    seen = set() if seen is None else seen
    if id(m) in seen:
        return out
    seen.add(id(m))
    if type(m).__name__ == "JointDistributionModel":
        for d in m._distributions.callables():
            flatten_models(d, out, seen)
    else:
        out.append(m)
    return out


def random_variable(p):
    """the object a prior is a density OF (not the objects it is conditioned on)"""
    for attr in ("x", "field", "tree_model"):
        if hasattr(p, attr):
            return getattr(p, attr)
    return None


def downward(o):
    n = type(o).__name__
    if n == "TransformedParameter":
        return [o.x]
    if n == "CatParameter":
        return list(o._parameter_container.params())
    if n == "ViewParameter":
        return [o.parameter]
    if n == "ReparameterizedTimeTreeModel":
        return [o._internal_heights]
    if n in ("TimeTreeModel", "UnRootedTreeModel", "FlexibleTimeTreeModel"):
        return [getattr(o, "_internal_heights", None) or getattr(o, "_branch_lengths", None)]
    return []


def needed_jacobians(dic):
    """independent of the CLI's bookkeeping: every TransformedParameter (and the reparameterised tree) lying
    between the random variable of some prior and the parameters underneath it"""
    need, seen = [], set()
    priors = flatten_models(dic["prior"]) if "prior" in dic else []
    stack = [random_variable(p) for p in priors]
    while stack:
        o = stack.pop()
        if o is None or id(o) in seen:
            continue
        seen.add(id(o))
        if type(o).__name__ in ("TransformedParameter", "ReparameterizedTimeTreeModel"):
            need.append(o)
        stack.extend(downward(o))
    return need


def zero_jacobian(t):
    """transforms whose log|J| is identically zero: omitting them changes nothing"""
    tr = getattr(t, "transform", None)
    n = type(tr).__name__
    if n == "DifferenceNodeHeightTransform":
        return True
    if n == "AffineTransform":
        sc = tr.scale
        return (float(sc) == 1.0) if not hasattr(sc, "tensor") else bool((sc.tensor == 1.0).all())
    return False


def root_id(i):
    """the constrained parameter an unconstrained child belongs to: strip the suffixes the CLI appends"""
    changed = True
    while changed:
        changed = False
        for suf in (".unres", ".unshifted"):
            if i.endswith(suf):
                i, changed = i[: -len(suf)], True
    return i


def expected_free(cfg):
    """SPECIFICATION (hand-written from the models' definitions, not from the CLI code): the parameters that are free —
    to be estimated — for a model and its flags.  Everything else the configuration defines is fixed."""
    free = set()
    clock, tp, model = cfg.get("clock"), cfg.get("treeprior"), cfg.get("model")
    init = cfg.get("init")
    # tree
    if not clock:
        free.add("tree.blens")
    elif cfg.get("heights") == "ratio":
        free |= {"tree.ratios", "tree.root_height"}
    else:
        free.add("tree.shifts")
    # clock
    if clock == "strict":
        if init != "rate_fixed":
            free.add("branchmodel.rate")
    elif clock == "ucln":
        free |= {"branchmodel.rates", "branchmodel.rates.prior.mean", "branchmodel.rates.prior.stdev"}
    elif clock == "horseshoe":
        free |= {"branchmodel.rate", "branchmodel.rates.unscaled", "branchmodel.global.scale", "branchmodel.local.scales"}
    # substitution model: JC69, LG, WAG have no free parameter; K80 and SYM have EQUAL (fixed) frequencies
    if model == "K80":
        free.add("substmodel.kappa")
    elif model == "HKY":
        free |= {"substmodel.kappa", "substmodel.frequencies"}
    elif model == "SYM":
        free.add("substmodel.rates")
    elif model == "GTR":
        free |= {"substmodel.rates", "substmodel.frequencies"}
    elif model == "SRD06":
        free |= {f"substmodel.{t}.{q}" for t in ("12", "3") for q in ("kappa", "frequencies")} | {"srd06.mu"}
    elif model == "MG94":
        free |= {"substmodel.kappa", "substmodel.alpha", "substmodel.beta"}
    # among-site rate variation
    tags = ["sitemodel.12", "sitemodel.3"] if model == "SRD06" else ["sitemodel"]
    if cfg.get("categories", 1) > 1:
        free |= {t + ".shape" for t in tags}
    if cfg.get("invariant"):
        free |= {t + ".pinv" for t in tags}
    # tree prior
    if tp in ("constant", "exponential"):
        if not (tp == "constant" and init == "coalescent_integrated"):
            free.add("coalescent.theta")
        if tp == "exponential":
            free.add("coalescent.growth")
    elif tp in ("skyride",) + S.COALESCENT_GRID:
        free.add("coalescent.theta")
        if init != "gmrf_integrated":
            free.add("gmrf.precision")
        if tp == "piecewise-exponential":
            free.add("coalescent.growth")
    elif tp == "bd-constant":
        free |= {"constant.lambda", "constant.mu", "constant.psi", "constant.rho", "constant.origin"}
    elif tp == "bd-bdsk":
        free |= {"bdsk.R", "bdsk.delta", "bdsk.s", "bdsk.rho", "bdsk.origin"}
    return free


MOVED_ALIASES = {"srd06.mus": "srd06.mu", "coalescent.theta.log": "coalescent.theta", "theta1": "coalescent.theta", "theta": "coalescent.theta"}


def free_fixed_violations(dic, cfg, moved, extra_traits=False):
    """(a) what the engine moves = (b) what the model semantics say is free; each moved parameter lies under a prior"""
    import torch  # noqa: F401

    fails = []
    moved_roots = {MOVED_ALIASES.get(root_id(i), root_id(i)) for i in moved}
    want = expected_free(cfg)
    for i in sorted(moved_roots - want):
        fails.append((f"eval:fixed-parameter-estimated:{i}",
                      f"`{i}` is not a free parameter of this model/flags but the emitted sampler/optimiser moves it "
                      f"(moved: {sorted(moved_roots)}; free by specification: {sorted(want)})"))
    for i in sorted(want - moved_roots):
        fails.append((f"eval:free-parameter-not-estimated:{i}",
                      f"`{i}` is a free parameter of this model/flags but nothing in the emitted file moves it "
                      f"(moved: {sorted(moved_roots)})"))
    # every moved parameter lies under the random variable of some prior
    priors = flatten_models(dic["prior"]) if "prior" in dic else []
    under, seen = set(), set()
    stack = [random_variable(p) for p in priors]
    while stack:
        o = stack.pop()
        if o is None or id(o) in seen:
            continue
        seen.add(id(o))
        if getattr(o, "id", None) is not None:
            under.add(o.id)
        stack.extend(downward(o))
    no_tree_prior = cfg.get("treeprior") is None
    for i in moved:
        if no_tree_prior and root_id(i).startswith("tree."):
            continue        # a clock without a tree prior: the (improper) flat prior on the heights is the user's choice
        if i in dic and i not in under:
            fails.append((f"eval:moved-without-prior:{root_id(i)}",
                          f"the sampler moves `{i}` but no prior term of the joint is placed on it or on anything above it"))
    # every Jacobian term belongs to a moved, prior-bearing parameter
    flagged = {s_.split(":", 2)[2] for s_, _ in fails if s_.startswith("eval:moved-without-prior:")}
    for t in EXTRA_JAC[0]:
        tid = str(getattr(t, "id", "?"))
        r = MOVED_ALIASES.get(root_id(tid), root_id(tid))
        if r in flagged or (no_tree_prior and (r.startswith("tree.") or r == "tree")):
            continue        # already reported through its parameter / heights without a tree prior
        below = set()
        stack = [t]
        while stack:
            o = stack.pop()
            if getattr(o, "id", None) is not None:
                below.add(o.id)
            stack.extend([x for x in downward(o) if x is not None])
        if not (below & set(moved)):
            fails.append((f"eval:jacobian-of-unmoved-parameter:{r}",
                          f"joint.jacobian counts the log-Jacobian of `{tid}` but the sampler moves nothing underneath it"))
        else:
            fails.append((f"eval:jacobian-without-prior:{r}",
                          f"joint.jacobian counts the log-Jacobian of `{tid}` although no prior is placed on it"))
    return fails


def moved_parameters(dic, cmd):
    """ids of the parameters the sampler / optimiser moves"""
    ids = []
    if cmd in ("hmc", "mcmc"):
        m = dic.get("hmc") or dic.get("mcmc")
        for op in getattr(m, "_operators", []) or getattr(m, "operators", []):
            ps = getattr(op, "parameters", None) or getattr(op, "_parameters", None) or []
            for p in (ps if isinstance(ps, (list, tuple)) else [ps]):
                if getattr(p, "id", None):
                    ids.append(p.id)
    return ids


def constrained_left(j, out=None):
    """Parameter dicts that still carry a (non-fixed) constraint annotation after the builder ran: these would be
    handed to the sampler on their constrained scale"""
    out = [] if out is None else out
    if isinstance(j, list):
        for x in j:
            constrained_left(x, out)
    elif isinstance(j, dict):
        if j.get("type") == "Parameter" and ("@lower" in j or "@upper" in j or j.get("@simplex")):
            fixed = "@lower" in j and "@upper" in j and j["@lower"] == j["@upper"]
            only_upper = "@upper" in j and "@lower" not in j
            if not fixed and not only_upper:
                out.append(j.get("id"))
        for v in j.values():
            constrained_left(v, out)
    return out


def fixed_ids(j, out=None):
    out = [] if out is None else out
    if isinstance(j, list):
        for x in j:
            fixed_ids(x, out)
    elif isinstance(j, dict):
        if "@lower" in j and "@upper" in j and j["@lower"] == j["@upper"] and isinstance(j.get("id"), str):
            out.append(j["id"])
        for v in j.values():
            fixed_ids(v, out)
    return out


def evaluate(dic, cmd, cfg, emitted, with_constraints=None, reload=None):
    """-> list of (signature, what) failures of the property on this loaded configuration"""
    import torch

    fails = []
    target_id = "joint.jacobian" if cmd != "map" else "joint"
    if target_id not in dic:
        return [("eval:no-target", f"`{target_id}` is not defined by the emitted file")]
    target = dic[target_id]
    # parameters moved by the algorithm: the ones named in the emitted sampler/optimiser section
    moved = emitted_moved_ids(emitted, cmd)
    params = []
    for i in moved:
        p = dic.get(i)
        if p is None:
            fails.append(("eval:moved-parameter-undefined", f"sampler parameter `{i}` is not defined"))
            continue
        if hasattr(p, "tensor") and type(p).__name__ == "Parameter" and p.tensor.is_floating_point():
            p.requires_grad = True
            params.append(p)
    # ---- dtype regime: torchtree runs with float64 as default; what the sampler moves must be float64
    for i, o in dic.items():
        if type(o).__name__ == "Parameter" and i in moved and o.tensor.dtype != torch.float64:
            fails.append((f"eval:dtype:{i}", f"`{i}` is moved by the sampler but is {o.tensor.dtype} under torchtree's float64 default"))
    EXTRA_JAC[0] = []
    snapshot = {i: o.tensor.detach().clone() for i, o in dic.items() if type(o).__name__ == "Parameter"}
    # ---- grad modes: a fresh load evaluated under no_grad must give bitwise the same density
    v_nograd = None
    if reload is not None:
        try:
            dicA = reload()
            with torch.no_grad():
                v_nograd = dicA[target_id]().detach().clone()
        except Exception:  # noqa: BLE001  (reported by the main evaluation below)
            v_nograd = None
    try:
        lp = target()
    except Exception as e:  # noqa: BLE001
        # locate the term that raises
        who = "?"
        terms = flatten_models(target)
        for m in terms:
            try:
                m()
            except Exception:  # noqa: BLE001
                who = f"{type(m).__name__}:{getattr(m, 'id', '?')}"
                break
        return fails + [(f"eval:density-raises:{type(e).__name__}:{who}",
                         f"evaluating {target_id} raised {type(e).__name__} in `{who}`: {str(e)[:120]}")]
    if not bool(torch.isfinite(lp).all()):
        bad = [m.id for m in flatten_models(target) if not bool(torch.isfinite(m()).all())]
        fails.append(("eval:density-not-finite:" + ",".join(sorted(str(b) for b in bad))[:60],
                      f"{target_id} = {lp.tolist()} at the initial point (non-finite terms: {bad})"))
        return fails
    try:
        lp.sum().backward()
        for p in params:
            g = p.tensor.grad
            if g is None:
                continue
            if not bool(torch.isfinite(g).all()):
                fails.append((f"eval:gradient-not-finite:{p.id}", f"d {target_id} / d {p.id} = {g.tolist()}"))
    except Exception as e:  # noqa: BLE001
        tb = traceback.extract_tb(e.__traceback__)[-1]
        fails.append((f"eval:gradient-raises:{type(e).__name__}:{tb.name}", f"backward() raised {type(e).__name__}: {str(e)[:120]}"))
    if v_nograd is not None and not torch.equal(v_nograd, lp.detach()) and not (torch.isnan(v_nograd).all() and torch.isnan(lp).all()):
        fails.append(("eval:grad-mode-changes-density",
                      f"{target_id} = {v_nograd.tolist()!r} under no_grad on a fresh load, {lp.detach().tolist()!r} with the moved "
                      f"parameters requiring grad"))
    # ---- input immutability: evaluation and backward leave every Parameter as it was loaded
    for i, t0 in snapshot.items():
        t1 = dic[i].tensor.detach()
        same = torch.equal(t1, t0) or (t1.shape == t0.shape and t1.dtype == t0.dtype and t1.is_floating_point()
                                       and bool(torch.allclose(t1, t0, rtol=0.0, atol=0.0, equal_nan=True)))
        if not same:  # a NaN that was loaded (itself reported as non-finite) and is still a NaN has not been mutated
            fails.append((f"eval:input-mutated:{i}", f"`{i}` changed from {t0.tolist()} to {dic[i].tensor.detach().tolist()} by evaluating"))
            break
    # ---- history: same call twice; then update one moved parameter and compare with a fresh load given the same value
    try:
        with torch.no_grad():
            again = target()
        if not torch.equal(again.detach(), lp.detach()) and not (torch.isnan(again).all() and torch.isnan(lp).all()):
            fails.append(("eval:second-evaluation-differs", f"{lp.tolist()} then {again.tolist()}"))
        if reload is not None:
            for p in params[:2]:
                new = p.tensor.detach().clone() + 0.03125
                with torch.no_grad():
                    p.tensor = new
                    got = target().detach().clone()
                    dicB = reload()
                    dicB[p.id].tensor = new.clone()
                    want = dicB[target_id]().detach()
                    p.tensor = snapshot[p.id].clone()
                    target()
                if got.shape != want.shape or not torch.allclose(got, want, rtol=1e-12, atol=1e-12, equal_nan=True):
                    fails.append((f"eval:stale-after-update:{p.id}",
                                  f"after updating `{p.id}` the target is {got.tolist()!r}; a fresh load with that value gives {want.tolist()!r}"))
    except Exception as e:  # noqa: BLE001
        tb = traceback.extract_tb(e.__traceback__)[-1]
        fails.append((f"eval:history-raises:{type(e).__name__}:{tb.name}", f"{type(e).__name__}: {str(e)[:120]}"))
    # ---- the density identity
    if cmd != "map" and "joint" in dic:
        listed = list(dic["joint.jacobian"]._distributions.callables())[1:]
        need = needed_jacobians(dic)
        names = lambda xs: sorted(str(getattr(t, "id", "?")) for t in xs)  # noqa: E731
        for t in need:
            n = sum(1 for l in listed if l is t)
            if n == 0 and zero_jacobian(t):
                continue
            if n != 1:
                fails.append((f"eval:jacobian-{'missing' if n == 0 else 'counted-twice'}:{t.id}",
                              f"a prior is placed on `{t.id}` (a transformed value) but its log-Jacobian is counted {n} times in "
                              f"joint.jacobian; listed: {names(listed)}; needed: {names(need)}"))
        if len({id(l) for l in listed}) != len(listed):
            fails.append(("eval:jacobian-listed-twice", f"joint.jacobian lists a term twice: {names(listed)}"))
        extra = [l for l in listed if not any(l is t for t in need)]
        EXTRA_JAC[0] = [t for t in extra if not zero_jacobian(t)]
        with torch.no_grad():
            lhs = (dic["joint.jacobian"]() - dic["joint"]()).sum().item()
            rhs = sum(float(t().sum()) for t in need if any(l is t for l in listed) or not zero_jacobian(t)) \
                + sum(float(t().sum()) for t in extra)
        if not math.isclose(lhs, rhs, rel_tol=1e-9, abs_tol=1e-9):
            fails.append(("eval:jacobian-identity",
                          f"joint.jacobian - joint = {lhs!r} but the log-Jacobians independently summed once each give {rhs!r}; "
                          f"listed: {names(listed)}; needed: {names(need)}"))
    # ---- every annotated parameter was rewritten; what the sampler moves is unconstrained, never a fixed parameter
    if with_constraints is not None and (cmd != "advi" or cfg.get("distribution", "Normal") == "Normal"):
        for i in constrained_left(with_constraints):
            fails.append((f"eval:constrained-parameter-left:{i}",
                          f"`{i}` still carries a constraint annotation after the builder: it is not rewritten into a transformed parameter"))
        fx = set(fixed_ids(with_constraints))
        for i in moved:
            if i in fx:
                fails.append((f"eval:fixed-parameter-sampled:{i}", f"`{i}` is fixed (lower == upper) but handed to the sampler"))
            o = dic.get(i)
            if o is not None and type(o).__name__ != "Parameter":
                fails.append((f"eval:moved-not-a-plain-parameter:{i}", f"the sampler moves `{i}`, a {type(o).__name__}"))
    # ---- estimated vs fixed
    if cfg.get("extra") is None or not any(x in ("--location_regex", "--metadata", "--poisson", "--split", "--join") or x.startswith("-q")
                                            for x in cfg.get("extra") or []):
        try:
            fails += free_fixed_violations(dic, cfg, moved)
        except Exception as e:  # noqa: BLE001
            fails.append((f"eval:free-fixed-check-raised:{type(e).__name__}", str(e)[:160]))
    # ---- requested initial values
    fails += check_init(dic, cfg)
    return fails


def emitted_moved_ids(emitted, cmd):
    ids = []
    for el in emitted:
        if not isinstance(el, dict):
            continue
        if el.get("type") == "MCMC":
            for op in el.get("operators", []):
                if op.get("type") == "GMRFPiecewiseCoalescentBlockUpdatingOperator":
                    ids.append("coalescent.theta.log")     # the block update moves the log population sizes
                    continue
                ps = op.get("parameters")
                ids += ps if isinstance(ps, list) else [ps]
        elif el.get("type") == "Optimizer" and cmd == "map":
            ps = el.get("parameters", [])
            ids += [p for p in ps if isinstance(p, str)]
        elif cmd == "advi" and el.get("id") == "variational":
            # the density over unconstrained parameters is a function of the variables of the variational family
            def xs_of(d):
                if isinstance(d, dict):
                    x = d.get("x")
                    for y in (x if isinstance(x, list) else [x]):
                        if isinstance(y, str):
                            ids.append(y)
                        elif isinstance(y, dict) and isinstance(y.get("id"), str):
                            ids.append(y["id"])
                    for dd in d.get("distributions", []) if isinstance(d.get("distributions"), list) else []:
                        xs_of(dd)
            xs_of(el)
    return [i for i in dict.fromkeys(ids) if isinstance(i, str)]


def close(a, b, tol=1e-6):
    return math.isclose(a, b, rel_tol=tol, abs_tol=tol)


def parse_newick(s):
    """tiny independent newick reader: -> nested (name, length, children)"""
    s = s.strip().rstrip(";")
    pos = [0]

    def node():
        children = []
        if s[pos[0]] == "(":
            pos[0] += 1
            while True:
                children.append(node())
                if s[pos[0]] == ",":
                    pos[0] += 1
                    continue
                pos[0] += 1  # ")"
                break
        j = pos[0]
        while j < len(s) and s[j] not in ",():":
            j += 1
        name = s[pos[0]:j]
        pos[0] = j
        length = 0.0
        if j < len(s) and s[j] == ":":
            k = j + 1
            while k < len(s) and s[k] not in ",()":
                k += 1
            length = float(s[j + 1:k])
            pos[0] = k
        return (name, length, children)

    return node()


def root_to_tip_regression(newick):
    """independent (numpy) root-to-tip regression: -> (rate, date of the root); dates are the trailing _<number> of the names"""
    import numpy as np

    tips = []

    def walk(n, d):
        name, length, children = n
        if not children:
            tips.append((float(name.rsplit("_", 1)[1]), d + length))
        for c in children:
            walk(c, d + length)

    name, _l, children = parse_newick(newick)
    for c in children:
        walk(c, 0.0)
    t = np.array([a for a, _ in tips])
    y = np.array([b for _, b in tips])
    slope, intercept = np.polyfit(t, y, 1)
    return float(slope), float(-intercept / slope), float(t.max())


def constant_theta_mle(tip_heights, internal_heights):
    """independent MLE of the constant population size given a dated genealogy: sum_k C(k,2) dt / (number of coalescences)"""
    events = sorted([(h, +1) for h in tip_heights] + [(h, -1) for h in internal_heights], key=lambda e: (e[0], -e[1]))
    k, last, total = 0, events[0][0], 0.0
    for h, d in events:
        total += k * (k - 1) / 2.0 * (h - last)
        last = h
        k += d
    return total / len(internal_heights)


def check_init(dic, cfg):
    import torch
    import c19_cli as C

    fails = []
    init = cfg.get("init")
    if cfg.get("_data") == "same" or str(cfg.get("_data", "")).startswith("cal"):
        return fails   # contemporaneous / calendar data sets: the expectations below are those of the dated one
    if cfg.get("_cross") and init and not S.INIT_NEEDS[init](cfg):
        return fails   # a switch given with a model it is not documented for: no value is promised (the model must stay sound)
    TIPS, INTERNAL = [4.0, 3.0, 1.5, 1.0, 0.0, 0.0], [1.0, 2.0, 3.5, 5.0, 6.0]

    def root_height():
        t = dic.get("tree")
        return None if t is None else float(t.node_heights.detach().reshape(-1)[-1])

    if init in ("coalescent_init_one", "rate_init_one", "brlens_init_one", "root_height_init_unit"):
        pid, want, opt = {"coalescent_init_one": ("coalescent.theta", 1.0, "--coalescent_init 1"),
                          "rate_init_one": ("branchmodel.rate", 1.0, "--rate_init 1.0"),
                          "brlens_init_one": ("tree.blens", 1.0, "--brlens_init 1.0"),
                          "root_height_init_unit": (None, 5.0, "--root_height_init 5.0")}[init]
        if pid is None:
            h = root_height()
            if h is not None and not close(h, want):
                fails.append(("eval:init:root_height_init", f"{opt} but the root height is {h!r}"))
        elif pid in dic and not (init == "rate_init_one" and cfg.get("clock") != "strict"):
            v = dic[pid].tensor.detach().reshape(-1).tolist()
            if not all(close(x, want) for x in v):
                fails.append((f"eval:init:{init[:-4]}", f"{opt} but {pid} = {v}"))
    if init in ("heights_init_regression", "rate_init_regression") and cfg.get("clock"):
        slope, root_date, max_date = root_to_tip_regression(C.ROOTED_SUBST)
        want_h = max_date - root_date
        h = root_height()
        if h is not None and not close(h, want_h, 1e-4):
            fails.append((f"eval:init:{init}:root-height",
                          f"--{init.replace('_regression', '')} regression: root-to-tip regression puts the root {want_h:.6f} before "
                          f"the youngest tip but the model starts with root height {h!r}"))
        if cfg.get("clock") == "strict" and "branchmodel.rate" in dic:
            v = dic["branchmodel.rate"].tensor.detach().reshape(-1).tolist()
            if not all(close(x, slope, 1e-4) for x in v):
                fails.append((f"eval:init:{init}:rate",
                              f"--{init.replace('_regression', '')} regression: the regression slope is {slope:.6g} but branchmodel.rate = {v}"))
    if init in ("coalescent_init_tree", "coalescent_init_constant") and cfg.get("treeprior") in ("constant", "exponential"):
        want = constant_theta_mle(TIPS, INTERNAL)
        if "coalescent.theta" in dic:
            v = dic["coalescent.theta"].tensor.detach().reshape(-1).tolist()
            if not all(close(x, want, 1e-5) for x in v):
                fails.append((f"eval:init:{init}", f"--coalescent_init {init.rsplit('_', 1)[1]}: the maximum-likelihood constant "
                              f"population size of the input tree is {want:.6f} but coalescent.theta = {v}"))
    # a grid coalescent without explicit root height starts at max(cutoff, oldest tip) — strictly above the oldest tip
    if cfg.get("treeprior") in S.COALESCENT_GRID and cfg.get("cutoff") and cfg.get("heights") == "ratio" and init is None:
        h = root_height()
        if h is not None and not close(h, max(cfg["cutoff"], 4.0)):
            fails.append(("eval:init:cutoff-root-height", f"--cutoff {cfg['cutoff']}: root height {h!r}"))

    def val(i):
        o = dic.get(i)
        return None if o is None else o.tensor.detach().reshape(-1).tolist()

    if init in ("rate_init", "rate_init_tiny") and cfg.get("clock") == "strict":
        want = 0.002 if init == "rate_init" else 1e-07
        v = val("branchmodel.rate")
        if v is None or not all(close(x, want) for x in v):
            fails.append(("eval:init:rate_init", f"--rate_init {want} but branchmodel.rate = {v}"))
    elif init == "rate_fixed":
        v = val("branchmodel.rate")
        if v is None or not all(close(x, 0.003) for x in v):
            fails.append(("eval:init:rate", f"--rate 0.003 but branchmodel.rate = {v}"))
    elif init in ("root_height_init", "root_height_init_low"):
        want = 7.5 if init == "root_height_init" else 4.0001
        t = dic.get("tree")
        if t is not None:
            hs = t.node_heights.detach().reshape(-1)
            h = float(hs[-1])
            if not close(h, want):
                fails.append(("eval:init:root_height_init", f"--root_height_init {want} but the root height is {h!r}"))
            # every node must sit at or above its children (tips included): a valid time tree at the initial point
            bl = t.branch_lengths().detach().reshape(-1)
            if bool((bl < 0).any()) or not bool(torch.isfinite(hs).all()):
                fails.append(("eval:init:invalid-tree", f"--root_height_init {want}: node heights {hs.tolist()} give negative or "
                              f"non-finite branch lengths {bl.tolist()}"))
    elif init in ("brlens_init", "brlens_init_tiny"):
        want = 0.05 if init == "brlens_init" else 1e-08
        v = val("tree.blens")
        if v is None or not all(close(x, want) for x in v):
            fails.append(("eval:init:brlens_init", f"--brlens_init {want} but tree.blens = {v}"))
    elif init in ("coalescent_init", "coalescent_init_tiny"):
        want = 3.0 if init == "coalescent_init" else 1e-05
        v = val("coalescent.theta")
        if v is None or not all(close(x, want) for x in v):
            fails.append(("eval:init:coalescent_init", f"--coalescent_init {want} but coalescent.theta = {v}"))
    elif init in ("heights_init_tree", "keep") and cfg.get("clock"):
        t = dic.get("tree")
        if t is not None:
            h = sorted(t.node_heights.detach().reshape(-1)[6:].tolist())
            want = [1.0, 2.0, 3.5, 5.0, 6.0]
            if len(h) != 5 or not all(close(a, b) for a, b in zip(h, want)):
                fails.append((f"eval:init:{init}", f"node heights of the input tree are {want} but the model starts at {h}"))
    return fails


# ---------------------------------------------------------------------- derived starting values, recomputed independently
def empirical_starts(seqs):
    """independent of torchtree: from the sequences BY NAME -> (frequencies ACGT, kappa, six relative rates AC AG AT CG CT GT).
    Substitution counts are over ALL unordered pairs of sequences, site by site, unambiguous nucleotides only; kappa is the
    transition/transversion count ratio converted with the frequencies; the relative rates carry one pseudo-count per type
    and sum to one."""
    names = sorted(seqs)                       # any order: the counts are symmetric
    n = {c: sum(seqs[k].count(c) for k in names) for c in "ACGT"}
    tot = sum(n.values())
    f = {c: n[c] / tot for c in "ACGT"}
    pairs = {p: 0 for p in ("AC", "AG", "AT", "CG", "CT", "GT")}
    for i in range(len(names)):
        for j in range(i + 1, len(names)):
            for a, b in zip(seqs[names[i]], seqs[names[j]]):
                if a != b and a in "ACGT" and b in "ACGT":
                    pairs["".join(sorted((a, b)))] += 1
    ts = pairs["AG"] + pairs["CT"]
    tv = pairs["AC"] + pairs["AT"] + pairs["CG"] + pairs["GT"]
    kappa = None if tv == 0 else (ts / tv) * (f["A"] + f["G"]) * (f["C"] + f["T"]) / (f["A"] * f["G"] + f["C"] * f["T"])
    r = [pairs[p] + 1 for p in ("AC", "AG", "AT", "CG", "CT", "GT")]
    return [f[c] for c in "ACGT"], kappa, [x / sum(r) for x in r], pairs


def skyride_theta_mle(tip_heights, internal_heights):
    """independent per-interval maximum-likelihood sizes of the skyride (one size per inter-coalescent interval, from the
    present backwards): sum over the sub-intervals of C(k,2) * duration"""
    events = sorted([(h, +1) for h in tip_heights] + [(h, -1) for h in internal_heights], key=lambda e: (e[0], -e[1]))
    out, k, last, acc = [], 0, events[0][0], 0.0
    for h, d in events:
        acc += k * (k - 1) / 2.0 * (h - last)
        last = h
        k += d
        if d == -1:
            out.append(acc)
            acc = 0.0
    return out


def newick_clades(newick, tip_height=None):
    """independent: {frozenset(leaf names): (branch length above the clade, height of the clade's node)}; heights only when
    tip_height(name) is given (height of a node = height of a child + the child's branch length)"""
    out = {}

    def walk(n):
        name, length, children = n
        if not children:
            names, h = frozenset([name]), (tip_height(name) if tip_height else None)
        else:
            sub = [walk(c) for c in children]
            names = frozenset().union(*[x[0] for x in sub])
            h = max(x[1] + x[2] for x in sub) if tip_height else None
        out[names] = (length, h)
        return names, h, length

    walk(parse_newick(newick))
    return out


def model_clades(t):
    """{frozenset(leaf names): node index} of a loaded tree model"""
    out = {}
    for node in t.tree.postorder_node_iter():
        out[frozenset(x.taxon.label for x in node.leaf_iter())] = node.index
    return out


def derived_start_violations(C, cfg, emitted, dic):
    """checklist 29: every option that REQUESTS a data-derived starting value - the value is recomputed here from the same
    files (all sequence pairs, by taxon name, by clade) and compared with the emitted JSON and the loaded object"""
    fails = []
    extra = cfg.get("extra") or []
    opts = dict(zip(extra[::2], extra[1::2])) if len(extra) % 2 == 0 else {}
    init = cfg.get("init")

    def val(i):
        o = dic.get(i)
        return None if o is None or not hasattr(o, "tensor") else o.tensor.detach().reshape(-1).tolist()

    def vec_close(a, b, tol=2e-5):
        return a is not None and len(a) == len(b) and all(close(x, y, tol) for x, y in zip(a, b))

    def emitted_plain(i):
        els = find_all(emitted, lambda d: d.get("id") == i and str(d.get("type", "")).endswith("Parameter")
                       and isinstance(d.get("tensor"), list) and "full" not in d and "transform" not in d)
        return els[0]["tensor"] if els else None

    if opts.get("--frequencies") == "empirical" and cfg.get("_data") != "ymd" and cfg.get("model") in ("K80", "HKY", "SYM", "GTR", "SRD06"):
        SEQS = C.SEQS_RICH if cfg.get("_data") == "rich" else C.SEQS
        f, kappa, rates, pairs = empirical_starts(SEQS)
        stems = ["substmodel.12", "substmodel.3"] if cfg["model"] == "SRD06" else ["substmodel"]
        for stem in stems:
            for what, pid, want in (("frequencies", stem + ".frequencies", f),
                                    ("kappa", stem + ".kappa", None if kappa is None else [kappa]),
                                    ("rates", stem + ".rates", rates)):
                if want is None or (what == "kappa") != (cfg["model"] in ("K80", "HKY", "SRD06")) and what != "frequencies":
                    continue
                for where, got in (("loaded model", val(pid)), ("emitted file", emitted_plain(pid))):
                    if got is None:
                        if where == "loaded model":
                            fails.append((f"cli:derived-start:empirical:{what}:missing", f"-f empirical -m {cfg['model']}: no parameter {pid} in the loaded model"))
                        continue
                    if not vec_close(got, want):
                        fails.append((f"cli:derived-start:empirical:{what}",
                                      f"-f empirical -m {cfg['model']}: {pid} starts at {[round(x, 6) for x in got]} in the {where}; "
                                      f"recomputed from the alignment (all {len(SEQS) * (len(SEQS) - 1) // 2} sequence pairs, "
                                      f"substitution counts {pairs}): {[round(x, 6) for x in want]}"))
                        break
        if cfg["model"] == "SRD06":
            parts = {"12": {k: "".join(c for i, c in enumerate(v) if i % 3 != 2) for k, v in SEQS.items()},
                     "3": {k: v[2::3] for k, v in SEQS.items()}}
            own = {t: empirical_starts(p) for t, p in parts.items()}
            EXTRA_NOTES.add("SRD06 -f empirical: both codon partitions start at the frequencies / kappa of the WHOLE alignment "
                            f"(kappa {kappa:.4f}); their own positions give kappa "
                            + ", ".join(f"{t}: {own[t][1] if own[t][1] is None else round(own[t][1], 4)}" for t in own)
                            + " (`-f` is documented only as 'frequencies': noted, not counted)")
    t = dic.get("tree")
    if t is None or cfg.get("_data") in ("ymd", "same") or str(cfg.get("_data", "")).startswith("cal"):
        return fails
    # ---- branch lengths of the input tree (unrooted), BY TAXON NAME and by clade
    if init in ("brlens_init_tree", "keep") and not cfg.get("clock") and hasattr(t, "tree"):
        opt = "--brlens_init tree" if init == "brlens_init_tree" else "--keep"
        want = newick_clades(C.UNROOTED)
        bl = t.branch_lengths().detach().reshape(-1).tolist()
        names = list(t.taxa)
        got_leaf = {nm: bl[i] for i, nm in enumerate(names)}
        want_leaf = {nm: max(want[frozenset([nm])][0], 1e-7) for nm in names if frozenset([nm]) in want}
        if set(got_leaf) != set(want_leaf) or not all(close(got_leaf[k], want_leaf[k], 1e-5) for k in want_leaf):
            fails.append((f"cli:derived-start:{init}:leaf-branches",
                          f"{opt}: the input tree has leaf branches {want_leaf} but the model starts at "
                          f"{ {k: round(v, 6) for k, v in got_leaf.items()} }"))
        else:
            # internal branches: the two branches at the (arbitrary) root are one branch of the unrooted tree
            alln = frozenset(names)
            w_int = sorted(v[0] for k, v in want.items() if 1 < len(k) < len(alln) - 1)
            g_int = sorted(bl[len(names):])
            if len(w_int) != len(g_int) or not all(close(a, b, 1e-5) for a, b in zip(g_int, w_int)):
                fails.append((f"cli:derived-start:{init}:internal-branches",
                              f"{opt}: the input tree has internal branches {w_int} but the model starts at {[round(x, 6) for x in g_int]}"))
    # ---- node heights of the input tree, BY CLADE; tips BY NAME
    if init in ("heights_init_tree", "keep", "coalescent_init_tree", "coalescent_init_constant") and cfg.get("clock") and hasattr(t, "tree"):
        opt = {"keep": "--keep"}.get(init, "--heights_init tree")
        newest = max(float(k.rsplit("_", 1)[1]) for k in C.SEQS)
        want = newick_clades(C.ROOTED, lambda nm: newest - float(nm.rsplit("_", 1)[1]))
        hs = t.node_heights.detach().reshape(-1).tolist()
        got = {k: hs[i] for k, i in model_clades(t).items()}
        bad = {",".join(sorted(k)): (round(got.get(k, float("nan")), 6), v[1]) for k, v in want.items()
               if k not in got or not close(got[k], v[1], 1e-5)}
        if bad:
            fails.append((f"cli:derived-start:{init}:node-heights",
                          f"{opt}: node heights by clade (model, input tree) differ: {dict(list(bad.items())[:4])}"))
    # ---- skyride sizes from the input tree
    if init == "coalescent_init_tree" and cfg.get("treeprior") == "skyride":
        TIPS, INTERNAL = [4.0, 3.0, 1.5, 1.0, 0.0, 0.0], [1.0, 2.0, 3.5, 5.0, 6.0]
        want = [max(x, 1e-6) for x in skyride_theta_mle(TIPS, INTERNAL)]
        got = val("coalescent.theta")
        if got is not None and not vec_close(got, want, 1e-5):
            fails.append(("cli:derived-start:coalescent_init_tree:skyride",
                          f"--coalescent_init tree: the per-interval maximum-likelihood sizes of the input tree are {want} but "
                          f"coalescent.theta = {[round(x, 6) for x in got]}"))
    return fails


# ---------------------------------------------------------------------- generic checks on what is emitted
def nonfinite_violations(emitted):
    """the emitted JSON never contains NaN / inf (json.dumps writes them as NaN / Infinity and torchtree reads them back)"""
    bad = []

    def walk(j, owner):
        if isinstance(j, dict):
            o = j.get("id", owner) if isinstance(j.get("id"), str) else owner
            for k, v in j.items():
                if isinstance(v, float) and not math.isfinite(v):
                    bad.append((o, k, v))
                else:
                    walk(v, o)
        elif isinstance(j, list):
            for v in j:
                if isinstance(v, float) and not math.isfinite(v):
                    bad.append((owner, "[]", v))
                else:
                    walk(v, owner)
    walk(emitted, None)
    def root(o):
        # one signature per constrained parameter: variational.tree.root_height.unshifted.unres.loc -> tree.root_height
        parts = [x for x in str(o).split(".") if x not in ("variational",)]
        return ".".join(parts[:2])
    out, seen = [], set()
    for o, k, v in bad:
        if root(o) not in seen:
            seen.add(root(o))
            out.append((f"cli:non-finite-number-emitted:{root(o)}", f"the emitted file holds {v!r} in `{k}` of {o}"))
    return out[:3]


def bounds_violations(with_constraints):
    """every emitted Parameter lies within its OWN annotated bounds (before the annotations are stripped): lower <= value <=
    upper (equal bounds only mark a parameter as not estimated); a simplex has positive entries summing to one"""
    from torchtree.cli.utils import CONSTRAINT

    Lk, Uk, Sk = CONSTRAINT.LOWER.value, CONSTRAINT.UPPER.value, CONSTRAINT.SIMPLEX.value
    fails = []
    for d in find_all(with_constraints, lambda d: str(d.get("type", "")).endswith("Parameter") and "tensor" in d
                      and (Lk in d or Uk in d or d.get(Sk))):
        v = d["tensor"]
        flat = []

        def fl(x):
            if isinstance(x, list):
                for y in x:
                    fl(y)
            elif isinstance(x, (int, float)) and not isinstance(x, bool):
                flat.append(float(x))
        fl(v)
        if not flat:
            continue
        lo, hi = d.get(Lk), d.get(Uk)
        tol = 1e-6 * max(1.0, max(abs(x) for x in flat if math.isfinite(x)) if any(math.isfinite(x) for x in flat) else 1.0)
        if lo is not None and hi is not None and lo == hi:
            # equal bounds are the CLI's marker of a parameter that is not estimated (K80 frequencies carry [1, 1], trait
            # frequencies [0, 0]): not numeric bounds.  What a fixing option must hold is checked per option (check_init)
            continue
        if (lo is not None and any(not (x >= lo - tol) for x in flat)) or (hi is not None and any(not (x <= hi + tol) for x in flat)):
            fails.append((f"cli:value-outside-its-bounds:{d.get('id')}", f"{d.get('id')} = {v} with bounds [{lo}, {hi}]"))
        if d.get(Sk) and "full" not in d and isinstance(v, list) and (abs(sum(flat) - 1.0) > 1e-5 or any(not (x >= 0) for x in flat)):
            fails.append((f"cli:simplex-start-not-on-the-simplex:{d.get('id')}", f"{d.get('id')} = {v} (sum {sum(flat)})"))
    return fails


def model_digest(emitted, dic):
    """what the emitted model IS, independently of how the dates were spelled: every emitted parameter's value and shape keys,
    the loaded tree's node heights and sampling times by taxon position, the emitted ids and types"""
    out = {}
    for d in find_all(emitted, lambda d: isinstance(d.get("id"), str) and "type" in d):
        if str(d["type"]).endswith("Taxon"):
            continue      # the date attribute itself is the spelling (2009 vs 0 for contemporaneous taxa)
        out["type:" + d["id"]] = d["type"]
        if str(d["type"]).endswith("Parameter") and "tensor" in d:
            out["value:" + d["id"]] = [d["tensor"], d.get("full")]
    t = dic.get("tree") if dic else None
    if t is not None and hasattr(t, "node_heights"):
        out["tree.node_heights"] = t.node_heights.detach().reshape(-1).tolist()
    return out


def digest_diff(a, b, tol=1e-5):
    def same(x, y):
        if isinstance(x, (int, float)) and isinstance(y, (int, float)) and not isinstance(x, bool) and not isinstance(y, bool):
            return (math.isnan(x) and math.isnan(y)) or math.isclose(x, y, rel_tol=tol, abs_tol=tol)
        if isinstance(x, list) and isinstance(y, list):
            return len(x) == len(y) and all(same(p, q) for p, q in zip(x, y))
        return x == y
    return [(k, a.get(k), b.get(k)) for k in sorted(set(a) | set(b)) if not same(a.get(k), b.get(k))]


def calendar_violations(C, cfg, emitted, dic):
    """calendar data sets: every emitted tip date is the calendar's decimal year of that taxon's date (oracle: datetime),
    however the date was spelled"""
    d = str(cfg.get("_data", ""))
    if not d.startswith("cal"):
        return []
    k = int(d[3:])
    want = {letter: C.decimal_year(ymd) for letter, ymd in zip("ABCDEF", C.CAL_SETS[k])}
    taxa = dic.get("taxa")
    if taxa is None:
        return [("cli:calendar-date:no-taxa", "no taxa object loaded")]
    got = {t.id[0]: float(t["date"]) for t in taxa if "date" in t}
    bad = {C.CAL_SETS[k]["ABCDEF".index(x)]: (got.get(x), want[x]) for x in want if x not in got or not close(got[x], want[x], 1e-9)}
    if bad:
        sp = cfg.get("_spelling") or "caldec"
        kind = sp.split(":")[0]
        ymd, (g, w) = sorted(bad.items())[0]
        return [(f"cli:calendar-date:{kind}", f"dates spelled as {sp}: {ymd} is emitted as {g!r}; the calendar gives {w!r} "
                 f"(= year + days since Jan 1 / days in the year); {len(bad)} of 6 dates differ: {sorted(bad)}")]
    return []


def spelling_violations(C, cfg, emitted, dic, data):
    """a configuration whose dates are spelled another way emits the same model as the one that reads them from the names"""
    sp = cfg.get("_spelling")
    if str(cfg.get("_data", "")).startswith("cal"):
        return []
    if sp in (None, "names"):
        return []
    ref = dict(cfg, _spelling="names")
    try:
        with contextlib.redirect_stdout(io.StringIO()), contextlib.redirect_stderr(io.StringIO()):
            e0, text0, _r, _w = C.run_cli(S.to_argv(ref, data), record=False)
            dic0, _o = C.dry_load(text0)
    except Exception as e:  # noqa: BLE001
        return [(f"cli:date-spelling:{sp}:reference-fails", f"the same dates read from the names: {type(e).__name__}: {str(e)[:120]}")]
    diff = digest_diff(model_digest(emitted, dic), model_digest(e0, dic0))
    if diff:
        k, a, b = diff[0]
        how = {"dates0": "--dates 0", "csv": "--dates <csv repeating the dates of the names>", "regex": "--date_regex (the default pattern)"}[sp]
        return [(f"cli:date-spelling-changes-model:{sp}", f"dates given as {how}: {k} = {a} but {b} when the same dates are read "
                 f"from the names ({len(diff)} entries differ)")]
    return []


NO_EFFECT_OK = {("--warmup", "0"), ("--date_regex",), ("--frequencies", "equal")}


def day_fraction(ymd):
    y, m, d = (int(x) for x in ymd.split("-"))
    days = (31, 29 if y % 4 == 0 else 28, 31, 30, 31, 30, 31, 31, 30, 31, 30, 31)
    return y + (sum(days[:m - 1]) + d - 1) / sum(days)


def find_all(j, pred, out=None):
    out = [] if out is None else out
    if isinstance(j, list):
        for x in j:
            find_all(x, pred, out)
    elif isinstance(j, dict):
        if pred(j):
            out.append(j)
        for v in j.values():
            find_all(v, pred, out)
    return out


def check_extra(C, cfg, emitted, dic, data):
    """the single-option slice: the option must be observable in what is emitted / loaded"""
    extra = cfg.get("extra")
    if not extra:
        return []
    fails = []
    opts = dict(zip(extra[::2], extra[1::2])) if len(extra) % 2 == 0 else {extra[0]: None}
    # (1) an option that changes nothing at all is ignored
    base = {k: v for k, v in cfg.items() if k != "extra"}
    try:
        with contextlib.redirect_stdout(io.StringIO()), contextlib.redirect_stderr(io.StringIO()):
            base_emitted = C.run_cli(S.to_argv(base, data), record=False)[0]
        same = json.dumps(base_emitted, sort_keys=True) == json.dumps(emitted, sort_keys=True)
    except Exception:  # noqa: BLE001
        same = False
    if tuple(extra) in NO_EFFECT_OK or (extra[0],) in NO_EFFECT_OK or (extra[0] == "--frequencies" and cfg.get("model") == "JC69") \
            or cfg.get("_overridden"):
        pass   # (`_overridden`: the option is given TOGETHER with one that takes precedence; it is meant to lose)
    elif same and len(extra) <= 2:
        fails.append((f"cli:option-ignored:{extra[0]}", f"the documented option {extra[0]} changes nothing in the emitted file"))
        return fails
    elif len(extra) > 2 and len(extra) % 2 == 0:
        # several options given together: leave one out at a time
        full = json.dumps(emitted, sort_keys=True)
        for i in range(0, len(extra), 2):
            rest = extra[:i] + extra[i + 2:]
            try:
                with contextlib.redirect_stdout(io.StringIO()), contextlib.redirect_stderr(io.StringIO()):
                    e1 = C.run_cli(S.to_argv(dict(base, extra=rest), data), record=False)[0]
                if json.dumps(e1, sort_keys=True) == full:
                    fails.append((f"cli:option-ignored:{extra[i]}",
                                  f"the documented option {extra[i]} changes nothing in the emitted file"))
            except Exception:  # noqa: BLE001
                pass

    def first(pred):
        r = find_all(emitted, pred)
        return r[0] if r else None

    def expect(cond, opt, what):
        if not cond:
            fails.append((f"cli:option-not-honoured:{opt}", f"{opt} {opts.get(opt)}: {what}"))

    if "--iter" in opts:
        n = int(opts["--iter"])
        el = first(lambda d: d.get("type") in ("MCMC", "Optimizer") and "iterations" in d)
        if cfg["cmd"] == "advi" and n == 0:
            expect(el is None, "--iter", "an optimiser is emitted although no iteration is requested")
        else:
            expect(el is not None and el.get("iterations") == n, "--iter", f"emitted iterations = {None if el is None else el.get('iterations')}")
    if "--steps" in opts:
        el = first(lambda d: d.get("type") == "LeapfrogIntegrator")
        expect(el and el.get("steps") == int(opts["--steps"]) and el.get("step_size") == float(opts["--step_size"]),
               "--steps", f"integrator = {el}")
    if "--log_every" in opts:
        el = first(lambda d: d.get("type") == "Logger" and "every" in d)
        expect(el and el.get("every") == int(opts["--log_every"]), "--log_every", f"logger = {el and {k: el[k] for k in el if k != 'parameters'}}")
    if "--stem" in opts and opts["--stem"] not in ("out",):
        els = find_all(emitted, lambda d: "file_name" in d)
        expect(els and all(str(e["file_name"]).startswith(opts["--stem"]) for e in els), "--stem", f"file names {[e['file_name'] for e in els]}")
    if "--warmup" in opts:
        el = first(lambda d: d.get("type") == "StanWindowedAdaptation")
        expect((el is not None) == (int(opts["--warmup"]) > 0), "--warmup", f"adaptation = {el is not None}")
        if el is not None:
            expect(el.get("warmup") == int(opts["--warmup"]), "--warmup", f"adaptation warmup = {el.get('warmup')}")
    if "--lr" in opts:
        el = first(lambda d: d.get("type") == "Optimizer")
        expect(el and el.get("options", {}).get("lr") == float(opts["--lr"]), "--lr", f"options = {el and el.get('options')}")
    if "--max_iter" in opts:
        el = first(lambda d: d.get("type") == "Optimizer")
        expect(el and el.get("max_iter") == int(opts["--max_iter"]), "--max_iter", f"max_iter = {el and el.get('max_iter')}")
    if "--samples" in opts:
        el = first(lambda d: d.get("type") == "Sampler")
        n = int(opts["--samples"])
        expect((el is None) if n == 0 else (el is not None and el.get("samples") == n), "--samples", f"sampler = {el and el.get('samples')}")
    if "--divergence" in opts:
        expect(first(lambda d: d.get("type") == "KLpqImportance") is not None, "--divergence", "no KLpqImportance loss")
    if "--elbo_samples" in opts:
        el = first(lambda d: d.get("type") == "StanVariationalConvergence")
        v = opts["--elbo_samples"]
        want = [int(x) for x in v.split(",")] if "," in v else int(v)
        expect((el is None) if want == 0 else (el is not None and el.get("samples") == want), "--elbo_samples",
               f"convergence samples = {el and el.get('samples')}")
    # ---- numeric options: the emitted value is float(spelling), whatever the spelling
    def tens(i):
        o = dic.get(i)
        return None if o is None or not hasattr(o, "tensor") else o.tensor.detach().reshape(-1).tolist()

    def root_h():
        t = dic.get("tree")
        return None if t is None or not hasattr(t, "node_heights") else [float(t.node_heights.detach().reshape(-1)[-1])]

    numeric = {"--rate_init": lambda: tens("branchmodel.rate"), "--rate": lambda: tens("branchmodel.rate"),
               "--coalescent_init": lambda: tens("coalescent.theta"), "--brlens_init": lambda: tens("tree.blens"),
               "--root_height_init": root_h}
    for opt, get in numeric.items():
        if opt in opts and not cfg.get("_overridden"):
            try:
                want = float(opts[opt])
            except (TypeError, ValueError):
                continue
            got = get()
            if got is not None:
                expect(len(got) > 0 and all(close(x, want, 1e-6) for x in got), opt, f"the model starts at {got[:3]}, float({opts[opt]!r}) = {want}")
    if "--clockpr" in opts and "(" in str(opts["--clockpr"]):
        name, inner = opts["--clockpr"].split("(", 1)
        try:
            want = [float(x) for x in inner.rstrip(")").split(",")]
        except ValueError:
            want = None
        el = first(lambda d: d.get("id") == "branchmodel.rate.prior")
        if want and el is not None:
            got = el.get("parameters", {}).get("rate") if isinstance(el.get("parameters"), dict) else None
            if isinstance(got, dict):
                got = got.get("tensor")
            gl = got if isinstance(got, list) else [got]
            expect(str(el.get("distribution", "")).lower().endswith(name.lower()) and got is not None
                   and all(isinstance(x, (int, float)) and close(float(x), want[0], 1e-9) for x in gl),
                   "--clockpr", f"the emitted prior on the clock rate is {el.get('distribution')} with rate {got}, requested rate {want[0]}")
    if "--frequencies" in opts and "substmodel.frequencies" in dic:
        got = dic["substmodel.frequencies"].tensor.detach().reshape(-1).tolist()
        v = opts["--frequencies"]
        if v == "equal":
            want = [0.25] * 4
        elif v == "empirical":
            cnt = [sum(s_.count(c) for s_ in (C.SEQS_RICH if cfg.get("_data") == "rich" else C.SEQS).values()) for c in "ACGT"]
            want = [c / sum(cnt) for c in cnt]
        else:
            want = [float(x) for x in v.split(",")]
        expect(len(got) == 4 and all(close(a, b, 1e-5) for a, b in zip(got, want)), "--frequencies", f"frequencies {got}, expected {want}")
    if "--dates" in opts or "--date_format" in opts:
        taxa = dic.get("taxa")
        if taxa is not None:
            got = {t.id: t["date"] for t in taxa}
            if opts.get("--dates") == "0":
                want = {k: 0.0 for k in got}
            elif "--date_format" in opts:
                want = {k.rsplit("_", 1)[0] + "_" + C.YMD[k]: day_fraction(C.YMD[k]) for k in C.SEQS}
            else:
                want = {k: float(k.rsplit("_", 1)[1]) + C.CSV_SHIFT for k in C.SEQS}
            expect(set(got) == set(want) and all(close(got[k], want[k], 1e-9) for k in want), "--dates" if "--dates" in opts else "--date_format",
                   f"taxon dates {got}, expected {want}")
    return fails


# ---------------------------------------------------------------------- one configuration
def run_config(C, cfg, data):
    """-> (outcome class, [(signature, what)], records, extra)"""
    oc, fails, recs, extra = _run_config(C, cfg, data)
    return oc, [(norm_sig(s), w) for s, w in fails], recs, extra


extra_emitted = {"e": None}


def _run_config(C, cfg, data):
    argv = S.to_argv(cfg, data)
    extra_emitted["e"] = None
    try:
        with contextlib.redirect_stdout(io.StringIO()):
            emitted, text, recs, with_constraints = C.run_cli(argv)
        extra_emitted["e"] = emitted
    except C.CliExit as e:
        last = (e.stderr.strip().splitlines() or ["?"])[-1]
        msg = re.sub(r"^torchtree-cli( \w+)?: error: ", "", last)
        if "coalescent_integrated" in msg and "list should contain" in msg:
            # a well-formed value of a documented option is refused
            return "cli-refuses-valid", [("cli:list_of_float-always-raises", f"--coalescent_integrated 1.0,2.0 is refused: {msg}")], [], None
        return "cli-reject", [], [], msg
    except Exception as e:  # noqa: BLE001
        tb = traceback.extract_tb(e.__traceback__)[-1]
        return "cli-crash", [(f"cli:crash:{type(e).__name__}:{tb.name}", f"the builder raised {type(e).__name__} in {tb.name}: {str(e)[:120]}")], [], None
    pre = nonfinite_violations(emitted)
    try:
        pre += bounds_violations(with_constraints)
    except Exception as e:  # noqa: BLE001
        pre.append((f"eval:harness:{type(e).__name__}:bounds_violations", f"bounds check raised {str(e)[:120]}"))
    try:
        with contextlib.redirect_stdout(io.StringIO()), contextlib.redirect_stderr(io.StringIO()):
            dic, _objs = C.dry_load(text)
    except C.LoadFailure as e:
        if pre:
            return "emitted-invalid", pre, recs, None
        return "load-fails", [("load:" + e.signature(), f"the emitted file is rejected by torchtree: {e.exc}: {(e.logged[0] if e.logged else e.msg)[:160]}")], recs, None
    try:
        with contextlib.redirect_stdout(io.StringIO()), contextlib.redirect_stderr(io.StringIO()):
            fails = evaluate(dic, cfg["cmd"], cfg, emitted, with_constraints, reload=lambda: C.dry_load(text)[0])
            fails += check_extra(C, cfg, emitted, dic, data)
            fails += derived_start_violations(C, cfg, emitted, dic)
            fails += spelling_violations(C, cfg, emitted, dic, data)
            fails += calendar_violations(C, cfg, emitted, dic)
        fails = pre + fails
    except Exception as e:  # noqa: BLE001
        tb = traceback.extract_tb(e.__traceback__)[-1]
        fails = [(f"eval:harness:{type(e).__name__}:{tb.name}", f"evaluation raised {type(e).__name__}: {str(e)[:160]}")]
    return ("ok" if not fails else "eval-fails"), fails, recs, None


def norm_sig(s):
    """signatures are looked up in KNOWN_FINDINGS.txt: no white space, stable characters only"""
    return re.sub(r"-+", "-", re.sub(r"[^A-Za-z0-9_.:]+", "-", s)).strip("-")[:110]


def shrink_config(C, cfg, data, sig):
    """reset factors to their defaults while the same signature is still produced"""
    defaults = {"model": "JC69", "categories": 1, "invariant": False, "clock": None, "heights": "ratio", "treeprior": None,
                "grid": None, "cutoff": None, "family": "meanfield", "distribution": "Normal", "init": None}
    simpler = {"clock": ["strict"], "treeprior": ["constant"], "model": ["HKY"], "cmd": ["hmc", "mcmc"]}
    cur = dict(cfg)
    for k in ["init", "invariant", "categories", "model", "distribution", "family", "treeprior", "heights", "clock", "cmd"]:
        for alt in ([defaults[k]] if k in defaults else []) + simpler.get(k, []):
            if cur.get(k) == alt:
                break
            trial = S.normalise({**cur, k: alt})
            if trial.get(k) != alt:
                continue
            _o, fails, _r, _x = run_config(C, trial, data)
            if any(s == sig for s, _ in fails):
                cur = trial
                break
    return cur


# ---------------------------------------------------------------------- Lean correspondence of the recorded calls
def num_close(a, b):
    return a == b or (isinstance(a, (int, float)) and isinstance(b, (int, float)) and not isinstance(a, bool)
                      and not isinstance(b, bool) and math.isclose(a, b, rel_tol=2e-6, abs_tol=2e-6)) or \
        (isinstance(a, float) and isinstance(b, float) and math.isnan(a) and math.isnan(b))


def json_close(a, b, path=""):
    """structure and strings exact (incl. dict key order), numbers within float32 accuracy; returns first difference"""
    if isinstance(a, bool) or isinstance(b, bool):
        return None if a is b else f"{path}: {a!r} vs {b!r}"
    if isinstance(a, (int, float)) and isinstance(b, (int, float)):
        return None if num_close(a, b) else f"{path}: {a!r} vs {b!r}"
    if type(a) is not type(b):
        return f"{path}: type {type(a).__name__} vs {type(b).__name__}"
    if isinstance(a, list):
        if len(a) != len(b):
            return f"{path}: length {len(a)} vs {len(b)}"
        for i, (x, y) in enumerate(zip(a, b)):
            d = json_close(x, y, f"{path}[{i}]")
            if d:
                return d
        return None
    if isinstance(a, dict):
        if list(a.keys()) != list(b.keys()):
            return f"{path}: keys {list(a.keys())} vs {list(b.keys())}"
        for k in a:
            d = json_close(a[k], b[k], f"{path}.{k}")
            if d:
                return d
        return None
    return None if a == b else f"{path}: {a!r} vs {b!r}"


def lean_correspondence(ck, drv, recs, cfg, emitted=None):
    from c13_wire import decs, encs

    for r in recs:
        if r["fn"] == "create_jacobians":
            rep = drv.ask("jac " + encs(r["before"]))
            if not rep.startswith("ok "):
                ck.mismatch("create_jacobians: model fails", {"cfg": cfg, "model": rep[:200]})
                continue
            got = decs(rep[3:])
            # `out` was mutated by the builder after the call (append "tree"/remove theta): recompute from the real fn
            want = real_create_jacobians(r["before"])
            if got != want:
                ck.mismatch("create_jacobians differs from model", {"cfg": cfg, "impl": want, "model": got})
            ck.bucket("corr/create_jacobians")
            # the list finally handed to joint.jacobian (post-processing included)
            if emitted is not None:
                jj = next((e for e in emitted if isinstance(e, dict) and e.get("id") == "joint.jacobian"), None)
                flags = "".join("1" if b else "0" for b in (
                    cfg.get("clock") is not None, cfg.get("heights") == "ratio",
                    cfg.get("treeprior") in ("skyride",) + S.COALESCENT_GRID, cfg.get("init") == "coalescent_non_centered"))
                rep2 = drv.ask(f"final {r['module']} {flags} " + encs(r["before"]))
                if jj is None or not rep2.startswith("ok ") or decs(rep2[3:]) != jj:
                    ck.mismatch("joint.jacobian differs from model (post-processing of the Jacobian list)",
                                {"cfg": cfg, "impl": jj, "model": rep2[:300]})
                ck.bucket("corr/joint.jacobian")
        elif r["fn"] == "make_unconstrained":
            rep = drv.ask("unc " + encs(r["before"]))
            if not rep.startswith("ok "):
                ck.mismatch("make_unconstrained: model fails", {"cfg": cfg, "model": rep[:200]})
                continue
            got = decs(rep[3:])  # [rewritten, parameters_unres, parameters]
            d = json_close(r["after"], got[0], "json")
            if d is None:
                d = json_close(list(r["out"][0]), got[1], "parameters_unres")
            if d is None:
                d = json_close(list(r["out"][1]), got[2], "parameters")
            if d:
                ck.mismatch("make_unconstrained differs from model", {"cfg": cfg, "first_difference": d})
            ck.bucket("corr/make_unconstrained")
        elif r["fn"] == "variational" and cfg.get("family") == "meanfield" and cfg.get("distribution") == "Normal":
            rep = drv.ask("mf " + encs(r["before"]))
            if rep.startswith("ok "):
                got = decs(rep[3:])
                d = json_close(r["after"], got, "json")
                if d:
                    ck.mismatch("create_meanfield's rewriting differs from model", {"cfg": cfg, "first_difference": d})
                ck.bucket("corr/create_meanfield")
            elif rep != "unsupported":
                ck.mismatch("create_meanfield: model fails", {"cfg": cfg, "model": rep[:200]})


def probe_grid():
    """parameters over the whole annotation grid (bounds absent / 0 / 0.0 / positive / equal / other intervals, simplex flag
    absent / true / false, start value as a list / a scalar with full / a scalar with full_like / a bare scalar), alone and
    nested in lists and dicts next to non-parameters: the if/elif skeleton of make_unconstrained / create_meanfield is
    compared with the Lean model on BEHAVIOUR, whatever the shape of the source"""
    from torchtree.cli.utils import CONSTRAINT

    Lk, Uk, Sk = CONSTRAINT.LOWER.value, CONSTRAINT.UPPER.value, CONSTRAINT.SIMPLEX.value
    out = []
    bounds = [(None, None), (0, None), (0.0, None), (1.5, None), (0, 1), (0.0, 1.0), (0, 2.0), (1, 1), (0.25, 0.25), (None, 1.0)]
    forms = [{"tensor": [0.25, 0.5]}, {"tensor": 0.5, "full": [3]}, {"tensor": 0.5, "full_like": "other"}, {"tensor": 0.5}]
    n = 0
    for lo, hi in bounds:
        for simplex in (None, True, False):
            for form in forms:
                n += 1
                p = {"id": f"q{n}", "type": "Parameter", **copy.deepcopy(form)}
                if lo is not None and lo > 0 and hi is None:
                    p["tensor"] = [2.0, 3.5] if isinstance(p["tensor"], list) else 2.0
                if simplex and lo is None and hi is None:
                    p["tensor"] = [0.2, 0.3, 0.5] if isinstance(p["tensor"], list) else p["tensor"]
                if lo is not None:
                    p[Lk] = lo
                if hi is not None:
                    p[Uk] = hi
                if simplex is not None:
                    p[Sk] = simplex
                out.append(p)
    singles = list(out)
    # containers: lists, dicts, nested, next to non-parameters and to an already transformed parameter
    out.append([copy.deepcopy(x) for x in singles[:12]])
    out.append({"id": "m", "type": "Model", "a": copy.deepcopy(singles[5]), "b": [copy.deepcopy(singles[17]), "ref", 3, None],
                "c": {"id": "t", "type": "TransformedParameter", "transform": "torch.distributions.ExpTransform",
                      "x": copy.deepcopy(singles[21])}})
    out.append([])
    out.append({"id": "plain", "type": "Parameter", "tensor": [1.0]})
    return out


def probe_correspondence(ck, drv):
    """the public make_unconstrained / create_meanfield on the probe grid vs the Lean model (raising <-> `raises`)"""
    from c13_wire import decs, encs

    import torchtree.cli.advi as advi
    import torchtree.cli.utils as utils

    def real(f, j):
        after = copy.deepcopy(j)
        try:
            with contextlib.redirect_stdout(io.StringIO()), contextlib.redirect_stderr(io.StringIO()):
                out = f(after)
            return after, out, None
        except Exception as e:  # noqa: BLE001
            return None, None, type(e).__name__

    for j in probe_grid():
        try:
            wire = encs(j)
        except TypeError:
            continue
        after, out, exc = real(utils.make_unconstrained, j)
        rep = drv.ask("unc " + wire)
        if exc is not None or rep == "raises":
            if (exc is None) != (rep != "raises"):
                # the model is partial where the implementation computes with numbers the model does not have (nan, …)
                if exc in ("NotImplementedError",) or rep != "raises":
                    ck.mismatch("make_unconstrained (probe grid): one side raises", {"probe": j, "impl": exc, "model": rep[:120]})
            ck.bucket("corr/probe/unc-raises")
            continue
        if rep.startswith("ok "):
            got = decs(rep[3:])
            d = json_close(after, got[0], "json") or json_close(list(out[0]), got[1], "parameters_unres") \
                or json_close(list(out[1]), got[2], "parameters")
            if d:
                ck.mismatch("make_unconstrained differs from model (probe grid)", {"probe": j, "first_difference": d})
        else:
            ck.mismatch("make_unconstrained (probe grid): model fails", {"probe": j, "model": rep[:120]})
        ck.bucket("corr/probe/unc")
    for j in probe_grid():
        try:
            wire = encs(j)
        except TypeError:
            continue
        after, out, exc = real(lambda x: advi.create_meanfield("var", x, "Normal"), j)
        rep = drv.ask("mf " + wire)
        if rep == "unsupported" or exc is not None or rep == "raises":
            ck.bucket("corr/probe/mf-skipped")
            continue
        if rep.startswith("ok "):
            d = json_close(after, decs(rep[3:]), "json")
            if d:
                ck.mismatch("create_meanfield's rewriting differs from model (probe grid)", {"probe": j, "first_difference": d})
            ck.bucket("corr/probe/mf")


def real_create_jacobians(j):
    from torchtree.cli.jacobians import create_jacobians

    return create_jacobians(j)


# ---------------------------------------------------------------------- run
def scan_tensor_constructors(files):
    """checklist 2: tensor constructors in the anchored files that name no dtype (they take torch's process-wide default)"""
    import ast

    out = []
    for f in files:
        try:
            tree = ast.parse(Path(f).read_text())
        except Exception:  # noqa: BLE001
            continue
        for n in ast.walk(tree):
            if (isinstance(n, ast.Call) and isinstance(n.func, ast.Attribute) and isinstance(n.func.value, ast.Name)
                    and n.func.value.id == "torch"
                    and n.func.attr in ("tensor", "full", "zeros", "ones", "empty", "arange", "eye", "linspace")
                    and not any(k.arg == "dtype" for k in n.keywords)):
                out.append(f"{Path(f).name}:{n.lineno} torch.{n.func.attr}")
    return out


def configs(ck):
    seen, out = set(), []

    def add(c, src):
        c = S.normalise(c)
        k = S.key(c)
        if k not in seen:
            seen.add(k)
            out.append((c, src))

    for c in S.core_lite():
        add(c, "core-lite")
    for c in S.single_options():
        add(c, "single")
    for c in S.frequency_sweep():
        add(c, "frequencies")
    for c in S.derived_starts():
        add(c, "derived-starts")
    for c in S.precedence():
        add(c, "precedence")
    for c in S.date_spellings():
        add(c, "date-spellings")
    for c in S.cross_model():
        add(c, "cross-model")
    for c in S.calendar_dates():
        add(c, "calendar-dates")
    for c in S.numeric_spellings():
        add(c, "numeric-spellings")
    for c in S.pairwise(ck.rng):
        add(c, "pairwise")
    if ck.thorough():
        for c in S.core_product():
            add(c, "core")
        for _ in range(3):
            for c in S.pairwise(ck.rng):
                add(c, "pairwise")
    return out


def run(ck: Check):
    import torch

    torch.set_num_threads(2)
    use_repo()
    import c19_cli as C

    ck.level = LEVEL
    ck.rule = (
        "one case = one configuration of the documented torchtree-cli options (sub-command x substitution model x "
        "categories x invariant x clock x heights x tree prior x grid/cutoff x variational family/distribution x one "
        "initialisation switch), built by the REAL CLI in-process on a 6-taxon dated alignment, loaded as torchtree --dry "
        "does, and evaluated; distinct = distinct normalised configuration; non-trivial = the CLI did not reject it"
    )
    ck.assumptions += [
        "PARTIAL: the option space is enumerated (pairwise covering array; thorough: plus the full product of "
        "sub-command x model x clock x heights x tree prior), not proved; one data set (6 taxa, 50 sites, dated tips)",
        "only SENSIBLE configurations are explored: a tree prior needs a clock, grid/cutoff accompany the grid coalescents, "
        "an initialisation switch concerns a parameter that exists; plugin options, MG94/LG/WAG, traits, --poisson, "
        "--engine, --use_path, --join/--split are outside the explored space",
        "the map sub-command hands `joint` (no Jacobians) to the optimiser by design; the density identity is checked for "
        "advi/hmc/mcmc only",
        "the numbers make_unconstrained writes are float32 torch results: compared with the Float64 model within 2e-6",
    ]
    ck.trusted += ["argparse", "torch.distributions transforms (inverse, log_abs_det_jacobian)", "the C13 loader model for what `loads` means"]
    lean_src, tr_ok, tr_note = tr_cli.translate(REPO)
    ck.extra["translator_note"] = tr_note
    ok, broken = ck.lean_side({"TTGen/C19_Dispatch.lean": lean_src},
                              ["TTModel.C19_CLI", "TTGen.C19_Dispatch", "TTProofs.Props.C19", "drv_c19"],
                              "TTProofs/Props/C19.lean")
    drv = None
    try:
        drv = ck.driver("drv_c19")
        if drv.ask("ping") != "pong":
            drv.close()
            drv = None
    except Exception as e:  # noqa: BLE001
        ck.notes.append(f"driver unavailable: {e}")
    ck.extra["tensor_constructors_without_dtype"] = scan_tensor_constructors(sorted((REPO / "torchtree" / "cli").glob("*.py")))
    data = C.data_dir()
    found = {}
    try:
        if drv is not None:
            try:
                probe_correspondence(ck, drv)
            except Exception as e:  # noqa: BLE001
                ck.mismatch("probe-grid correspondence raised", {"exc": f"{type(e).__name__}: {e}"[:300]})
        for cfg, src in configs(ck):
            oc, fails, recs, extra = run_config(C, cfg, data)
            ck.case(key=json.dumps(cfg, sort_keys=True), nontrivial=(oc != "cli-reject"), bucket=f"{src}/{cfg['cmd']}/{oc}",
                    sample={"argv": " ".join(S.to_argv(cfg, Path("DATA"))), "outcome": oc,
                            "failures": [s for s, _ in fails]} if ck.evaluations < 3 or (fails and len(ck.samples) < 6) else None)
            if oc == "cli-reject":
                ck.bucket("cli-reject/" + str(extra)[:60])
            for s, w in fails:
                found.setdefault(s, []).append((cfg, w))  # signatures are already normalised by run_config
            if drv is not None and recs:
                try:
                    lean_correspondence(ck, drv, recs, cfg, extra_emitted.get('e'))
                except Exception as e:  # noqa: BLE001
                    ck.mismatch("correspondence raised", {"cfg": cfg, "exc": f"{type(e).__name__}: {e}"[:300]})
        ck.extra["failure_signatures"] = {s: len(v) for s, v in sorted(found.items())}
        ck.notes += sorted(EXTRA_NOTES)
        # ---- verdict
        for sig, lst in sorted(found.items()):
            lst.sort(key=lambda x: sum(1 for v in x[0].values() if v not in (None, False, 1, "JC69", "ratio", "meanfield", "Normal")))
            cfg, what = lst[0]
            small = cfg if cfg.get("extra") else shrink_config(C, cfg, data, sig)
            _o, fails2, _r, _x = run_config(C, small, data)
            what = next((w for s2, w in fails2 if s2 == sig), what)
            argv = " ".join(S.to_argv(small, Path("DATA")))
            ck.violation(sig, f"torchtree-cli {argv}: {what}",
                         {"config": small, "argv": argv, "occurrences": len(lst), "original_config": cfg,
                          "replay_cmd": "./check C19 --replay <this file>"})
        if (not ok or ck.mismatches) and not ck.violations:
            # the Lean side / correspondence broke but the sampled configurations show nothing new: widen the search
            tried = set(ck.distinct)
            budget = 1500
            for cfg in list(S.core_product()) + [dict(c, init=i) for c in S.core_lite() for i in S.FACTORS["init"]]:
                cfg = S.normalise(cfg)
                k = json.dumps(cfg, sort_keys=True)
                if k in tried:
                    continue
                tried.add(k)
                budget -= 1
                if budget < 0:
                    break
                oc, fails, recs, extra = run_config(C, cfg, data)
                ck.case(key=k, nontrivial=(oc != "cli-reject"), bucket=f"search/{cfg['cmd']}/{oc}")
                new = [(s_, w) for s_, w in fails if s_ not in [ks for ks, _ in ck.known]]
                if new:
                    s_, w = new[0]
                    small = shrink_config(C, cfg, data, s_)
                    argv = " ".join(S.to_argv(small, Path("DATA")))
                    ck.violation(s_, f"torchtree-cli {argv}: {w}",
                                 {"config": small, "argv": argv, "found_by": "widened search after a broken obligation",
                                  "broken_obligations": broken, "replay_cmd": "./check C19 --replay <this file>"})
                    break
        if (not ok or ck.mismatches) and not ck.violations:
            # nothing NEW was found on the implementation (known findings do not explain a broken proof/correspondence)
            ck.violation("cli:unproved", "C19 theorems or the model/implementation correspondence no longer check",
                         {"broken_obligations": broken, "mismatches": ck.mismatches[:5], "translator_note": tr_note},
                         found_input=False)
        elif not ok or ck.mismatches:
            ck.notes.append("Lean side / correspondence also broken: " + json.dumps({"broken": broken, "mismatches": ck.mismatches[:3]})[:600])
    finally:
        if drv is not None:
            drv.close()
        C.cleanup()


def replay(path: str) -> int:
    import torch

    torch.set_num_threads(2)
    use_repo()
    import c19_cli as C

    obj = json.loads(Path(path).read_text())
    if "config" not in obj:
        print("replay names broken obligations only:", obj.get("broken_obligations"), obj.get("mismatches"))
        return 1
    data = C.data_dir()
    try:
        cfg = obj["config"]
        print("torchtree-cli", " ".join(S.to_argv(cfg, data)))
        oc, fails, _recs, extra = run_config(C, cfg, data)
        print("outcome:", oc, extra or "")
        for s, w in fails:
            print("  VIOLATES", s, "—", w)
        return 1 if any(s == obj.get("signature") for s, _ in fails) or fails else 0
    finally:
        C.cleanup()
