"""Translator: every call site that writes a checkpoint  ->  lean/TTGen/C18_Callers.lean

Scans torchtree/**/*.py (cli/ excluded: it only emits JSON) for calls of `save_parameters(...)`
and of wrapper methods that forward to it (`save_full_state`), and resolves, per call site that can
write the run's checkpoint name, the values of the `safely` / `overwrite` flags that finally reach
`save_parameters`:

  some true / some false   the flag is a literal constant, or a defaulted parameter, along the whole chain
  none                     not statically resolvable (computed, reassigned in the wrapper, *args/**kwargs …)

`sameFile` is true when the file-name argument is literally the object's checkpoint attribute
(`self.checkpoint`) — i.e. the call rewrites the one checkpoint file of the run; per-epoch file names
(`checkpoint_all`) are `sameFile = false`.

The C18 theorem `callers_use_safe_flags` demands `some true / some false` for every sameFile site, so the
crash-safety theorems about `save_parameters` with the default flags apply to every checkpointing run.
"""
from __future__ import annotations

import ast
from pathlib import Path

WRAPPERS = ("save_full_state",)


def _const_bool(e):
    if isinstance(e, ast.Constant) and isinstance(e.value, bool):
        return e.value
    return None


def _fn_params(fn: ast.FunctionDef):
    """name -> default (bool | 'nodefault' | 'dynamic') for positional/keyword params (self dropped)"""
    args = fn.args.args
    names = [a.arg for a in args]
    defaults = [None] * (len(names) - len(fn.args.defaults)) + list(fn.args.defaults)
    out = {}
    for n, d in zip(names, defaults):
        if d is None:
            out[n] = "nodefault"
        else:
            b = _const_bool(d)
            out[n] = b if b is not None else "dynamic"
    order = [n for n in names if n != "self"]
    return out, order


def _reassigned(fn: ast.FunctionDef, name: str, allow: int = 0) -> bool:
    """`name` is assigned more than `allow` times in fn"""
    count = 0
    for n in ast.walk(fn):
        if isinstance(n, (ast.Assign, ast.AugAssign, ast.AnnAssign)):
            targets = n.targets if isinstance(n, ast.Assign) else [n.target]
            for t in targets:
                for s in ast.walk(t):
                    if isinstance(s, ast.Name) and s.id == name:
                        count += 1
                        if count > allow:
                            return True
        if isinstance(n, (ast.For, ast.With, ast.NamedExpr)):
            for s in ast.walk(n.target if isinstance(n, (ast.For, ast.NamedExpr)) else ast.Module(body=[], type_ignores=[])):
                if isinstance(s, ast.Name) and s.id == name:
                    return True
    return False


def _bind(call: ast.Call, order, params):
    """bind a call's args to the callee's parameter names -> {name: expr}; None if */** used"""
    if any(isinstance(a, ast.Starred) for a in call.args) or any(k.arg is None for k in call.keywords):
        return None
    b = {}
    for n, a in zip(order, call.args):
        b[n] = a
    for k in call.keywords:
        b[k.arg] = k.value
    return b


def _resolve(expr, enclosing_params, enclosing_fn):
    """value of a flag expression inside `enclosing_fn`: bool, ('param', name) or None (dynamic)"""
    b = _const_bool(expr)
    if b is not None:
        return b
    if isinstance(expr, ast.Name) and expr.id in enclosing_params and not _reassigned(enclosing_fn, expr.id):
        return ("param", expr.id)
    return None


def _is_self_checkpoint(e):
    return isinstance(e, ast.Attribute) and e.attr == "checkpoint" and isinstance(e.value, ast.Name) and e.value.id == "self"


def translate(repo: Path):
    root = repo / "torchtree"
    sites = []  # (label, sameFile, safely, overwrite)
    notes = []
    ok = True
    # 1. save_parameters' own signature
    try:
        import tr_saveparams

        _p, _t, sp = tr_saveparams.find_definition(repo)
        sp_params, sp_order = _fn_params(sp)
    except Exception as e:  # noqa: BLE001
        return _emit([], False, [f"cannot read save_parameters: {e}"])
    files = sorted(p for p in root.rglob("*.py") if "cli" not in p.relative_to(root).parts)
    wrappers = {}  # (file, class, name) -> (fn, flags reaching save_parameters in terms of own params)
    calls = []  # (file, classname, fn, call, callee_kind)
    for f in files:
        try:
            tree = ast.parse(f.read_text())
        except SyntaxError as e:
            ok = False
            notes.append(f"{f}: {e}")
            continue
        rel = str(f.relative_to(repo))
        for cls in [n for n in ast.walk(tree) if isinstance(n, ast.ClassDef)] + [None]:
            body = cls.body if cls else [n for n in tree.body if isinstance(n, ast.FunctionDef)]
            for fn in [n for n in body if isinstance(n, ast.FunctionDef)]:
                for c in [n for n in ast.walk(fn) if isinstance(n, ast.Call)]:
                    fname = c.func.id if isinstance(c.func, ast.Name) else (c.func.attr if isinstance(c.func, ast.Attribute) else None)
                    if fname == "save_parameters":
                        calls.append((rel, cls.name if cls else "", fn, c, "sp"))
                    elif fname in WRAPPERS:
                        calls.append((rel, cls.name if cls else "", fn, c, "wrapper"))
                if fn.name in WRAPPERS:
                    wrappers[(rel, cls.name if cls else "", fn.name)] = fn

    def flags_of_sp_call(fn, call):
        fparams, _ = _fn_params(fn)
        b = _bind(call, sp_order, sp_params)
        if b is None:
            return None, None, None
        res = {}
        for flag in ("safely", "overwrite"):
            if flag in b:
                res[flag] = _resolve(b[flag], fparams, fn)
            else:
                d = sp_params.get(flag)
                res[flag] = d if isinstance(d, bool) else None
        return b.get(sp_order[0]), res["safely"], res["overwrite"]

    # wrapper summaries: how a wrapper forwards to save_parameters
    wsum = {}
    for key, fn in wrappers.items():
        inner = [c for (r, cl, f2, c, kind) in calls if f2 is fn and kind == "sp"]
        if len(inner) != 1:
            wsum[key] = None
            continue
        fexpr, s, o = flags_of_sp_call(fn, inner[0])
        wparams, worder = _fn_params(fn)
        file_from = None
        if isinstance(fexpr, ast.Name) and fexpr.id in wparams and not _reassigned(fn, fexpr.id):
            file_from = ("param", fexpr.id)
        elif fexpr is not None and _is_self_checkpoint(fexpr):
            file_from = "self.checkpoint"
        wsum[key] = (fn, wparams, worder, file_from, s, o)

    def lean_opt(v):
        return "none" if v is None else f"(some {'true' if v else 'false'})"

    for rel, cl, fn, call, kind in calls:
        label = f"{rel}:{call.lineno} {cl + '.' if cl else ''}{fn.name}"
        if kind == "sp":
            if fn.name in WRAPPERS:
                continue  # accounted for through the wrapper's call sites (or below if it has none)
            fexpr, s, o = flags_of_sp_call(fn, call)
            s = s if isinstance(s, bool) else None
            o = o if isinstance(o, bool) else None
            sites.append((label, fexpr is not None and _is_self_checkpoint(fexpr), s, o))
        else:
            # find the wrapper this call refers to: same class first, else any
            cands = [k for k in wsum if k[2] == call.func.attr and (k[1] == cl or True)]
            same = [k for k in cands if k[0] == rel and k[1] == cl]
            key = (same or cands or [None])[0]
            w = wsum.get(key) if key else None
            if not w:
                sites.append((label, True, None, None))
                continue
            wfn, wparams, worder, file_from, s, o = w
            b = _bind(call, worder, wparams)
            if b is None:
                sites.append((label, True, None, None))
                continue

            def through(v):
                if isinstance(v, bool) or v is None:
                    return v
                _, pname = v
                if pname in b:
                    return _const_bool(b[pname])
                d = wparams.get(pname)
                return d if isinstance(d, bool) else None

            if file_from == "self.checkpoint":
                same_file = True
            elif isinstance(file_from, tuple):
                e = b.get(file_from[1])
                same_file = e is not None and _is_self_checkpoint(e)
                if e is None:
                    same_file = True  # cannot tell: be conservative
            else:
                same_file = True
            sites.append((label, same_file, through(s), through(o)))
    # wrappers never called inside the library are still public entry points: record with their defaults
    for key, w in wsum.items():
        if w is None:
            sites.append((f"{key[0]} {key[1]}.{key[2]} (wrapper not summarisable)", True, None, None))
            continue
        wfn, wparams, worder, file_from, s, o = w

        def dflt(v):
            if isinstance(v, bool) or v is None:
                return v
            d = wparams.get(v[1])
            return d if isinstance(d, bool) else None

        sites.append((f"{key[0]}:{wfn.lineno} {key[1]}.{key[2]} [called with defaults]", True, dflt(s), dflt(o)))
    # 3. how the checkpoint NAME reaches the object: it must be the configured string itself
    name_sites = []
    for f in files:
        try:
            tree = ast.parse(f.read_text())
        except SyntaxError:
            continue
        rel = str(f.relative_to(repo))
        consts = {n.targets[0].id for n in tree.body if isinstance(n, ast.Assign) and len(n.targets) == 1
                  and isinstance(n.targets[0], ast.Name) and isinstance(n.value, ast.Constant) and isinstance(n.value.value, str)}
        for fn_ in [x for x in ast.walk(tree) if isinstance(x, ast.FunctionDef)]:
            # local aliases of the configured value: v = data['checkpoint'] (assigned once)
            aliases = set(consts)
            for a in ast.walk(fn_):
                if isinstance(a, ast.Assign) and len(a.targets) == 1 and isinstance(a.targets[0], ast.Name) \
                        and _name_expr_ok(a.value, aliases) and not _reassigned(fn_, a.targets[0].id, allow=1):
                    aliases.add(a.targets[0].id)
            for d in ast.walk(fn_):  # {'checkpoint': <expr>} handed on as an option
                if isinstance(d, ast.Dict):
                    for k, v in zip(d.keys, d.values):
                        if isinstance(k, ast.Constant) and k.value == "checkpoint":
                            name_sites.append((f"{rel}:{d.lineno} {{'checkpoint': {ast.unparse(v)[:60]}}}", _name_expr_ok(v, aliases)))
        for n in ast.walk(tree):
            tgt = val = None
            if isinstance(n, ast.Assign) and len(n.targets) == 1:
                t = n.targets[0]
                # optionals['checkpoint'] = ... / kwargs['checkpoint'] = ... / self.checkpoint = ...
                if (isinstance(t, ast.Subscript) and isinstance(t.slice, ast.Constant) and t.slice.value == "checkpoint") or (
                        isinstance(t, ast.Attribute) and t.attr == "checkpoint"):
                    tgt, val = t, n.value
            if tgt is None:
                continue
            name_sites.append((f"{rel}:{n.lineno} {ast.unparse(tgt)} = {ast.unparse(val)[:60]}", _name_expr_ok(val)))

    # 4. file-system operations applied to a checkpoint name (or a sibling derived from it) anywhere outside
    #    save_parameters: removing / renaming / truncating such a file is not covered by the crash-safety theorems
    fs_sites = []
    for f in files:
        try:
            tree = ast.parse(f.read_text())
        except SyntaxError:
            continue
        rel = str(f.relative_to(repo))
        for fn_ in [x for x in ast.walk(tree) if isinstance(x, (ast.FunctionDef, ast.AsyncFunctionDef))]:
            if rel.endswith("core/parameter_utils.py") and fn_.name == "save_parameters":
                continue
            tainted = set()
            changed = True
            while changed:  # locals computed from a checkpoint name (stale = self.checkpoint + suffix; for p in (...))
                changed = False
                for a in ast.walk(fn_):
                    tg = None
                    if isinstance(a, ast.Assign) and len(a.targets) == 1 and isinstance(a.targets[0], ast.Name):
                        tg, src = a.targets[0].id, a.value
                    elif isinstance(a, (ast.For, ast.comprehension)) and isinstance(a.target, ast.Name):
                        tg, src = a.target.id, a.iter
                    elif isinstance(a, ast.NamedExpr) and isinstance(a.target, ast.Name):
                        tg, src = a.target.id, a.value
                    if tg and tg not in tainted and _mentions_checkpoint(src, tainted):
                        tainted.add(tg)
                        changed = True
            for c in ast.walk(fn_):
                if isinstance(c, ast.Call) and _fs_mutation(c) and any(
                        _mentions_checkpoint(a, tainted) for a in list(c.args) + [k.value for k in c.keywords]
                        + ([c.func.value] if isinstance(c.func, ast.Attribute) else [])):
                    fs_sites.append(f"{rel}:{c.lineno} {fn_.name}: {ast.unparse(c)[:70]}")
    if not any(sf for _, sf, _, _ in sites):
        ok = False
        notes.append("no checkpoint-writing call site found")
    return _emit([(l, sf, lean_opt(s), lean_opt(o)) for l, sf, s, o in sites], ok, notes, raw=sites, names=name_sites, fs=sorted(set(fs_sites)))



_FS_FUNCS = {"remove", "unlink", "rename", "renames", "replace", "truncate", "rmdir", "removedirs", "rmtree", "move",
             "copy", "copyfile", "copy2", "copytree", "write_text", "write_bytes", "touch", "symlink", "link",
             "symlink_to", "hardlink_to", "link_to", "ftruncate", "mkfifo"}


def _fs_mutation(c: ast.Call) -> bool:
    """a call that can remove, rename, create-over or truncate a file: os.* / shutil.* / pathlib methods of those
    names, and open(...) in a writing mode"""
    f = c.func
    name = f.attr if isinstance(f, ast.Attribute) else f.id if isinstance(f, ast.Name) else None
    if name in _FS_FUNCS:
        if isinstance(f, ast.Name):  # from os import remove
            return True
        if isinstance(f.value, ast.Name) and f.value.id in ("os", "shutil", "_os", "_shutil", "_sh"):
            return True
        # methods of path objects; str.replace(old, new) / list.remove(x) / dict.copy() are not file operations
        if name in ("unlink", "rename", "write_text", "write_bytes", "touch", "rmdir", "symlink_to", "hardlink_to",
                    "link_to", "truncate"):
            return True
        if name == "replace" and len(c.args) == 1 and not c.keywords:
            return True
        return False
    if name == "open":
        mode = None
        pos = 1 if isinstance(f, ast.Name) or (isinstance(f, ast.Attribute) and isinstance(f.value, ast.Name)
                                                and f.value.id in ("io", "os", "codecs", "gzip", "bz2", "lzma")) else 0
        if len(c.args) > pos:
            mode = c.args[pos]
        for k in c.keywords:
            if k.arg in ("mode", "flags"):
                mode = k.value
        if mode is None:
            return False
        if isinstance(mode, ast.Constant) and isinstance(mode.value, str):
            return any(ch in mode.value for ch in "wax+")
        return True  # computed mode: cannot tell
    return False


def _mentions_checkpoint(e, tainted=()) -> bool:
    for n in ast.walk(e):
        if isinstance(n, ast.Name) and ("checkpoint" in n.id.lower() or n.id in tainted):
            return True
        if isinstance(n, ast.Attribute) and "checkpoint" in n.attr.lower():
            return True
        if isinstance(n, ast.Constant) and isinstance(n.value, str) and "checkpoint" in n.value.lower():
            return True
    return False


def _name_expr_ok(e, aliases=()) -> bool:
    """the checkpoint name is stored exactly as configured: a string literal / None / False, the value read from
    the configuration (`data['checkpoint']`, `kwargs.get('checkpoint', <literal>)`) or a plain parameter"""
    if isinstance(e, ast.Constant):
        return e.value is None or isinstance(e.value, (str, bool))
    if isinstance(e, ast.Subscript) and isinstance(e.slice, ast.Constant) and e.slice.value == "checkpoint" \
            and isinstance(e.value, ast.Name):
        return True
    if isinstance(e, ast.Call) and isinstance(e.func, ast.Attribute) and e.func.attr == "get" \
            and isinstance(e.func.value, ast.Name) and e.args and isinstance(e.args[0], ast.Constant) \
            and e.args[0].value == "checkpoint" and all(isinstance(a, ast.Constant) for a in e.args[1:]):
        return True
    if isinstance(e, ast.Name) and (e.id in ("checkpoint", "file_name") or e.id in aliases):
        return True
    return False


def _emit(sites, ok, notes, raw=None, names=None, fs=None):
    rows = ",\n  ".join(
        f'⟨"{l}", {"true" if sf else "false"}, {s}, {o}⟩' for l, sf, s, o in sites
    )
    lean = (
        "import TTModel.FS\n"
        "/-! GENERATED by harness/translators/tr_ckcallers.py from every call site of save_parameters /\n"
        "    save_full_state under torchtree/ (cli excluded) — do not edit.\n"
        f"    {' ; '.join(notes)}\n-/\n"
        "namespace TTGen.C18_Callers\n\n"
        "structure CallSite where\n  site : String\n  sameFile : Bool\n  safely : Option Bool\n  overwrite : Option Bool\nderiving Repr, DecidableEq\n\n"
        f"def scanOk : Bool := {'true' if ok else 'false'}\n\n"
        f"def callSites : List CallSite := [\n  {rows}\n]\n\n"
        "/-- every place where a checkpoint NAME is stored (from_json option handling, constructors), with whether the\n"
        "    stored value is the configured string itself (no realpath / abspath / join / replace …) -/\n"
        "def nameSites : List (String × Bool) := [\n  "
        + ",\n  ".join('("%s", %s)' % (l.replace('\\', '/').replace('"', "'"), "true" if okk else "false") for l, okk in (names or []))
        + "\n]\n\n"
        "/-- every file-system operation (remove / rename / open for writing / …) applied OUTSIDE save_parameters to an\n"
        "    expression computed from a checkpoint name: such an operation is not covered by the crash-safety theorems -/\n"
        "def fsSites : List String := ["
        + ", ".join('"%s"' % l.replace('\\', '/').replace('"', "'") for l in (fs or []))
        + "]\n\n"
        "end TTGen.C18_Callers\n"
    )
    return lean, ok, notes, (raw or [])


if __name__ == "__main__":
    import sys

    print(translate(Path(sys.argv[1] if len(sys.argv) > 1 else "/repo"))[0])
