"""Translator: the ORDER of the phases of one iteration of MCMC.run  ->  lean/TTGen/C15_RunOrder.lean

Reads the AST of `torchtree/inference/mcmc/mcmc.py:MCMC.run` and emits

  initial : List Phase   what happens before the loop (initial logger rows, initial evaluation of the joint)
  order   : List Phase   the top-level statements of the `while` body, classified, in source order
  decideBlockOk / acceptBlockOk : Bool   the accept/reject decision and the accept/restore block have exactly
                                         the statement shape the Lean model `decideMove` / `mcmcStep` mirrors

Phases: select, propose, decide, acceptReject, log <sample>, tune <sample> <passes acceptance_prob> <passes accepted>,
counter, checkpoint; <sample> is `.epochBefore` when `self._epoch` is read before `self._epoch += 1` in the body,
`.epochAfter` when read after it.  Display-only statements (`print`, the signal-handler test, the `weights` tensor)
are skipped.  Any other statement is *unrecognised*: `translatorOk := false` with the reason in the header.
"""
from __future__ import annotations

import ast
import inspect
import textwrap

DECIDE = """
if torch.isinf(hastings_ratio):
    log_alpha = torch.tensor(torch.finfo(hastings_ratio.dtype).min)
    acceptance_prob = torch.zeros_like(hastings_ratio)
    accepted = False
else:
    with torch.no_grad():
        log_joint_proposed = self.joint()
    if torch.isnan(log_joint_proposed) or torch.isinf(log_joint_proposed):
        log_alpha = torch.tensor(torch.finfo(hastings_ratio.dtype).min)
        acceptance_prob = torch.zeros_like(hastings_ratio)
        accepted = False
    else:
        log_alpha = (log_joint_proposed - log_joint) + hastings_ratio
        acceptance_prob = min(torch.zeros_like(log_alpha), log_alpha).exp()
        accepted = (acceptance_prob > torch.rand(1)).item()
"""
ACCEPT = """
if accepted:
    log_joint = log_joint_proposed.clone()
    accept += 1
    operator.accept()
else:
    operator.reject()
"""


class Unrecognised(Exception):
    pass


OP_CLASSES = [
    ("torchtree.inference.mcmc.operator", "ScalerOperator"),
    ("torchtree.inference.mcmc.operator", "SlidingWindowOperator"),
    ("torchtree.inference.mcmc.operator", "DirichletOperator"),
    ("torchtree.inference.mcmc.gmrf_block_updating", "GMRFPiecewiseCoalescentBlockUpdatingOperator"),
    ("torchtree.inference.hmc.operator", "HMCOperator"),
]
CTOR_CLASSES = OP_CLASSES + [
    ("torchtree.inference.mcmc.operator", "MCMCOperator"),
    ("torchtree.inference.hmc.adaptation", "AdaptiveStepSize"),
    ("torchtree.inference.hmc.adaptation", "DualAveragingStepSize"),
    ("torchtree.inference.hmc.adaptation", "MassMatrixAdaptor"),
    ("torchtree.inference.hmc.integrator", "LeapfrogIntegrator"),
]


def sentinel_of(e):
    """a constant expression denoting +inf / -inf / nan (possibly wrapped in torch.tensor), else None"""
    if isinstance(e, ast.Call):
        f = dotted(e.func)
        if f == "torch.tensor" and e.args:
            return sentinel_of(e.args[0])
        if f == "float" and e.args and isinstance(e.args[0], ast.Constant) and isinstance(e.args[0].value, str):
            v = e.args[0].value.strip().lower()
            return {"inf": "posInf", "+inf": "posInf", "infinity": "posInf", "-inf": "negInf", "-infinity": "negInf",
                    "nan": "nan"}.get(v)
        return None
    d = dotted(e)
    if d in ("torch.inf", "math.inf", "np.inf", "numpy.inf"):
        return "posInf"
    if d in ("torch.nan", "math.nan", "np.nan", "numpy.nan"):
        return "nan"
    if isinstance(e, ast.UnaryOp) and isinstance(e.op, ast.USub):
        s = sentinel_of(e.operand)
        return {"posInf": "negInf", "negInf": "posInf", "nan": "nan"}.get(s)
    return None


def loop_tests(test, var="hastings_ratio"):
    """which sentinel values of `hastings_ratio` the first test of the decision block sends to rejection"""
    if isinstance(test, ast.BoolOp) and isinstance(test.op, ast.Or):
        out = []
        for v in test.values:
            out += loop_tests(v, var)
        return out
    if isinstance(test, ast.Call) and len(test.args) == 1 and dotted(test.args[0]) == var:
        f = dotted(test.func)
        if f == "torch.isinf":
            return ["posInf", "negInf"]
        if f == "torch.isneginf":
            return ["negInf"]
        if f == "torch.isposinf":
            return ["posInf"]
        if f == "torch.isnan":
            return ["nan"]
        if f == "torch.isfinite":
            raise Unrecognised("isfinite without not")
    if isinstance(test, ast.UnaryOp) and isinstance(test.op, ast.Not) and isinstance(test.operand, ast.Call) \
            and dotted(test.operand.func) == "torch.isfinite" and dotted(test.operand.args[0]) == var:
        return ["posInf", "negInf", "nan"]
    if isinstance(test, ast.Compare) and len(test.ops) == 1 and isinstance(test.ops[0], ast.Eq) and dotted(test.left) == var:
        s = sentinel_of(test.comparators[0])
        if s in ("posInf", "negInf"):
            return [s]
    raise Unrecognised("failure test of the run loop: " + ast.unparse(test))


def class_node(mod, cname):
    import importlib

    cls = getattr(importlib.import_module(mod), cname)
    return ast.parse(textwrap.dedent(inspect.getsource(cls))).body[0]


def resolved_method_asts(cls, name, depth=3, seen=None):
    """the function `cls.<name>` resolves to through the MRO (inherited template methods included), plus — 1 to 3 levels —
    the methods of the same object it calls as `self.<hook>(...)`; -> list of FunctionDef nodes"""
    seen = set() if seen is None else seen
    fn = None
    for klass in cls.__mro__:
        if name in vars(klass):
            fn = vars(klass)[name]
            break
    if fn is None:
        return []
    fn = getattr(fn, "__func__", fn)
    fn = getattr(fn, "fget", fn) or fn
    if getattr(fn, "__isabstractmethod__", False) or (name, id(fn)) in seen:
        return []
    seen.add((name, id(fn)))
    try:
        node = ast.parse(textwrap.dedent(inspect.getsource(fn))).body[0]
    except (OSError, TypeError, SyntaxError):
        return []
    out = [node]
    if depth > 0:
        for c in ast.walk(node):
            if isinstance(c, ast.Call) and isinstance(c.func, ast.Attribute) and dotted(c.func.value) == "self":
                out += resolved_method_asts(cls, c.func.attr, depth - 1, seen)
    return out


def operator_failure_returns():
    import importlib

    rows = []
    for mod, cname in OP_CLASSES:
        cls = getattr(importlib.import_module(mod), cname)
        nodes = resolved_method_asts(cls, "_step")
        if not nodes:
            raise Unrecognised(f"{cname}._step cannot be resolved")
        found = []
        for node in nodes:
            for r in ast.walk(node):
                if isinstance(r, ast.Return) and r.value is not None:
                    sv = sentinel_of(r.value)
                    if sv and sv not in found:
                        found.append(sv)
        rows.append((cname, found))
    return rows


def literal(e):
    if isinstance(e, ast.Constant) and not isinstance(e.value, str):
        return repr(e.value)
    if isinstance(e, ast.Call) and dotted(e.func) == "float" and e.args and isinstance(e.args[0], ast.Constant):
        return "float(%r)" % e.args[0].value
    return None


def get_defaults(fn, var):
    """`var.get("key", <literal>)` calls in a function body -> {key: default}"""
    out = {}
    for c in ast.walk(fn):
        if isinstance(c, ast.Call) and isinstance(c.func, ast.Attribute) and c.func.attr == "get" and dotted(c.func.value) == var \
                and len(c.args) == 2 and isinstance(c.args[0], ast.Constant) and literal(c.args[1]) is not None:
            out[c.args[0].value] = literal(c.args[1])
    return out


def fn_ast(fn):
    fn = getattr(fn, "__func__", fn)
    try:
        return ast.parse(textwrap.dedent(inspect.getsource(fn))).body[0]
    except (OSError, TypeError, SyntaxError):
        return None


def option_defaults():
    """for every class: option keys that have a literal default BOTH in the JSON layer (`data.get(key, d)` in from_json and
    in the `_parse_json` it calls — resolved through the class, wherever that helper lives) and in the constructor
    (signature default or `kwargs.get(key, d)` in any `__init__` along the MRO) -> rows (class, key, json default,
    constructor default)"""
    import importlib

    rows = []
    for mod, cname in CTOR_CLASSES:
        if cname == "MCMCOperator":
            continue
        cls = getattr(importlib.import_module(mod), cname)
        js = {}
        fj_obj = getattr(cls, "from_json", None)
        fj = fn_ast(fj_obj)
        if fj is not None:
            js.update(get_defaults(fj, "data"))
            # helpers the dictionary is handed to (a staticmethod of a base class, a module function, ...): resolved through
            # the globals of from_json / the class, read with THEIR name for the dictionary
            glob = getattr(getattr(fj_obj, "__func__", fj_obj), "__globals__", {})
            for c in ast.walk(fj):
                if isinstance(c, ast.Call) and c.args and dotted(c.args[0]) == "data" and dotted(c.func):
                    parts = dotted(c.func).split(".")
                    obj = cls if parts[0] in ("cls", "self") else glob.get(parts[0])
                    for a_ in parts[1:]:
                        obj = getattr(obj, a_, None) if obj is not None else None
                    if obj is None or not callable(obj) or parts[-1] in ("get", "process_object", "process_objects"):
                        continue
                    h = fn_ast(obj)
                    if h is not None and h.args.args:
                        first = h.args.args[0].arg if h.args.args[0].arg not in ("self", "cls") else (h.args.args[1].arg if len(h.args.args) > 1 else "data")
                        for k, v in get_defaults(h, first).items():
                            js.setdefault(k, v)
        ct = {}
        for klass in cls.__mro__:
            if "__init__" not in vars(klass) or klass is object:
                continue
            fn = fn_ast(vars(klass)["__init__"])
            if fn is None:
                continue
            args = fn.args.args
            dfl = [None] * (len(args) - len(fn.args.defaults)) + list(fn.args.defaults)
            for a, d in zip(args, dfl):
                if d is not None and literal(d) is not None:
                    ct.setdefault(a.arg, literal(d))
            for k, v in get_defaults(fn, "kwargs").items():
                ct.setdefault(k, v)
        for k in sorted(js):
            if k in ct:
                rows.append((cname, k, js[k], ct[k]))
    return rows


def mutable_defaults():
    """constructor arguments whose default is a mutable object, and whether the constructor body mutates it
    (directly or through `self.<attr> = <arg>` aliases): append/extend/insert/update/add/+=/item assignment"""
    rows = []
    for mod, cname in CTOR_CLASSES:
        cn = class_node(mod, cname)
        inits = [n for n in cn.body if isinstance(n, ast.FunctionDef) and n.name == "__init__"]
        if not inits:
            continue
        fn = inits[0]
        args = fn.args.args
        defaults = [None] * (len(args) - len(fn.args.defaults)) + list(fn.args.defaults)
        pairs = list(zip(args, defaults)) + list(zip(fn.args.kwonlyargs, fn.args.kw_defaults))
        for a, dflt in pairs:
            if dflt is None or not isinstance(dflt, (ast.List, ast.Dict, ast.Set, ast.Call, ast.ListComp, ast.DictComp)):
                continue
            names = {a.arg}
            for st in ast.walk(fn):  # aliases self.x = arg
                if isinstance(st, ast.Assign) and dotted(st.value) in names:
                    for t in st.targets:
                        if dotted(t):
                            names.add(dotted(t))
            mutated = False
            for st in ast.walk(fn):
                if isinstance(st, ast.Call) and isinstance(st.func, ast.Attribute) and dotted(st.func.value) in names \
                        and st.func.attr in ("append", "extend", "insert", "update", "add", "setdefault", "pop", "remove", "clear"):
                    mutated = True
                if isinstance(st, ast.AugAssign) and dotted(st.target) in names:
                    mutated = True
                if isinstance(st, ast.Assign):
                    for t in st.targets:
                        if isinstance(t, ast.Subscript) and dotted(t.value) in names:
                            mutated = True
            rows.append((cname, a.arg, ast.unparse(dflt), mutated))
    return rows


def dotted(e):
    if isinstance(e, ast.Attribute):
        b = dotted(e.value)
        return None if b is None else b + "." + e.attr
    if isinstance(e, ast.Name):
        return e.id
    return None


def calls_in(node):
    return [dotted(c.func) for c in ast.walk(node) if isinstance(c, ast.Call) and dotted(c.func)]


def kw(call, name):
    for k in call.keywords:
        if k.arg == name:
            return k.value
    return None


# --------------------------------------------------------------------------- the run loop, read by ROLE from a traced run
def trace_run_loop():
    """One and two iterations of the REAL MCMC.run on instrumented public objects (a stub operator overriding the public
    step/accept/reject/tune, a stub joint, a stub logger, torch.rand and Categorical.sample wrapped, save_full_state
    replaced): the ORDER of select / propose / evaluate+uniform (decide) / accept-or-restore / log / tune / counter /
    checkpoint, the iteration number loggers and tune receive, and the decision table over finite / +inf / -inf / nan
    Hastings ratios and finite / nan / +-inf proposed densities.  Independent of how run() is split into helpers or what
    its locals are called.  -> (initial, order, decide_ok, accept_ok, loop_failure_tests, problems)"""
    import contextlib
    import io
    import math

    import torch
    from torchtree.core.parameter import Parameter
    from torchtree.inference.mcmc.mcmc import MCMC
    from torchtree.inference.mcmc.operator import MCMCOperator

    def scenario(hrs, lps, us, iterations):
        events = []
        x = Parameter("x", torch.tensor([1.0], dtype=torch.float64))
        holder = {}

        def it_now():
            return holder["mc"].state_dict()["iteration"]

        class Op(MCMCOperator):
            tuning_parameter = property(lambda self: 1.0)
            adaptable_parameter = property(lambda self: 0.0)

            def set_adaptable_parameter(self, value):
                pass

            def _step(self):
                k = len([e for e in events if e[0] == "propose"]) - 1
                x.tensor = x.tensor + 1.0
                return torch.tensor(hrs[k], dtype=torch.float64)

            def step(self):
                events.append(("propose", it_now()))
                return super().step()

            def accept(self):
                events.append(("accept", it_now(), x.tensor.tolist()))
                return super().accept()

            def reject(self):
                r = super().reject()
                events.append(("reject", it_now(), x.tensor.tolist()))
                return r

            def tune(self, acceptance_prob, sample, accepted):
                events.append(("tune", it_now(), sample, float(acceptance_prob), bool(accepted)))

            def _state_dict(self):
                return {}

            def _load_state_dict(self, state_dict):
                pass

            @classmethod
            def from_json(cls, data, dic):
                raise NotImplementedError

        class Joint:
            id = "joint"

            def __call__(self):
                k = len([e for e in events if e[0] == "evaluate"])
                events.append(("evaluate", it_now() if "mc" in holder else None))
                return torch.tensor(lps[k], dtype=torch.float64)

        class Lg:
            def initialize(self):
                pass

            def log(self, *a, **k):
                events.append(("log", it_now(), k.get("sample"), x.tensor.tolist()))

            def close(self):
                pass

        op = Op("op", [x], 1.0, 0.24, disable_adaptation=True)
        mc = MCMC("m", Joint(), [op], iterations, loggers=[Lg()], checkpoint="ck.json", checkpoint_frequency=1, every=0)
        holder["mc"] = mc
        mc.save_full_state = lambda: events.append(("checkpoint", it_now()))
        o_rand, o_cat = torch.rand, torch.distributions.Categorical.sample
        uq = list(us)

        def rand(*a, **k):
            events.append(("uniform", it_now()))
            return torch.tensor([uq.pop(0)], dtype=torch.float32)

        def cat_sample(d, sample_shape=torch.Size()):
            events.append(("select", it_now()))
            return torch.tensor(0)

        torch.rand, torch.distributions.Categorical.sample = rand, cat_sample
        try:
            with contextlib.redirect_stdout(io.StringIO()):
                mc.run()
        finally:
            torch.rand, torch.distributions.Categorical.sample = o_rand, o_cat
        return events, x.tensor.tolist()

    problems = []
    # ---- order: two accepted-then-rejected iterations with finite everything
    ev, _x = scenario([0.5, -0.25], [-3.0, -1.0, -2.0], [0.0, 0.999], 2)
    first = next(i for i, e in enumerate(ev) if e[0] == "select")
    initial = []
    for e in ev[:first]:
        if e[0] == "log":
            if e[2] != 0:
                problems.append("initial logger row is not sample=0")
            initial.append(".logInitial")
        elif e[0] == "evaluate":
            initial.append(".evaluateInitial")
    second = [i for i, e in enumerate(ev) if e[0] == "select"][1]
    it1 = ev[first:second]
    start_iter = it1[0][1]
    order, decided, counter_done = [], False, False
    for e in it1:
        if e[1] is not None and e[1] != start_iter and not counter_done:
            order.append(".counter")
            counter_done = True
        ref = lambda sample: ".epochBefore" if sample == start_iter else ".epochAfter" if sample == start_iter + 1 else None
        if e[0] == "select":
            order.append(".select")
        elif e[0] == "propose":
            order.append(".propose")
        elif e[0] in ("evaluate", "uniform"):
            if not decided:
                order.append(".decide")
                decided = True
        elif e[0] in ("accept", "reject"):
            order.append(".acceptReject")
        elif e[0] == "log":
            if ref(e[2]) is None:
                problems.append(f"logger received sample {e[2]} in iteration {start_iter}")
            order.append(f"(.log {ref(e[2]) or '.epochAfter'})")
        elif e[0] == "tune":
            want = min(1.0, math.exp((-1.0 - -3.0) + 0.5))
            a0 = abs(e[3] - want) < 1e-12
            order.append(f"(.tune {ref(e[2]) or '.epochAfter'} {'true' if a0 else 'false'} {'true' if e[4] is True else 'false'})")
        elif e[0] == "checkpoint":
            order.append(".checkpoint")
    if not counter_done:
        order.append(".counter")
    # ---- accept / restore block: iteration 1 accepted (u = 0), iteration 2 rejected (u ~ 1, prob = exp(-1-0.25) if the
    #      carried value was updated to -1 on accept)
    accept_ok = True
    acc_events = [e for e in ev if e[0] in ("accept", "reject")]
    tunes = [e for e in ev if e[0] == "tune"]
    if [e[0] for e in acc_events] != ["accept", "reject"]:
        accept_ok = False
    elif acc_events[0][2] != [2.0] or acc_events[1][2] != [2.0]:   # proposal kept, then restored
        accept_ok = False
    if len(tunes) != 2 or abs(tunes[1][3] - math.exp((-2.0 - -1.0) + -0.25)) > 1e-12 or tunes[1][4] is not False:
        accept_ok = False   # the carried log density was not the accepted proposal's
    logs = [e for e in ev[first:] if e[0] == "log"]
    if [e[3] for e in logs] != [[2.0], [2.0]]:
        accept_ok = False   # rows must show the state AFTER accept / restore
    # ---- decision table
    decide_ok = True
    tests = []
    for name, hr in (("posInf", math.inf), ("negInf", -math.inf), ("nan", math.nan)):
        e2, xe = scenario([hr], [-3.0, -1.0], [0.0], 1)
        kinds = [e[0] for e in e2[[i for i, e in enumerate(e2) if e[0] == "select"][0]:]]
        t_ = [e for e in e2 if e[0] == "tune"]
        if "evaluate" not in kinds and "uniform" not in kinds and "reject" in kinds and t_ and t_[0][3] == 0.0 and t_[0][4] is False \
                and xe == [1.0]:
            tests.append(name)
    for lp in (math.nan, math.inf, -math.inf):
        e2, xe = scenario([0.5], [-3.0, lp], [0.0], 1)
        kinds = [e[0] for e in e2[[i for i, e in enumerate(e2) if e[0] == "select"][0]:]]
        t_ = [e for e in e2 if e[0] == "tune"]
        if not ("evaluate" in kinds and "uniform" not in kinds and "reject" in kinds and t_ and t_[0][3] == 0.0 and xe == [1.0]):
            decide_ok = False
    for u, lp, hr in ((0.3, -3.2, 0.1), (0.9, -3.2, 0.1), (0.5, -2.0, 5.0), (0.99, -10.0, -3.0)):
        e2, xe = scenario([hr], [-3.0, lp], [u], 1)
        kinds = [e[0] for e in e2[[i for i, e in enumerate(e2) if e[0] == "select"][0]:]]
        t_ = [e for e in e2 if e[0] == "tune"]
        la = (lp - -3.0) + hr
        prob = 1.0 if la >= 0 else math.exp(la)
        if not (kinds.count("evaluate") == 1 and kinds.count("uniform") == 1 and kinds.index("evaluate") < kinds.index("uniform")
                and t_ and abs(t_[0][3] - prob) < 1e-12 and t_[0][4] == (u < prob) and (("accept" in kinds) == (u < prob))):
            decide_ok = False
    return initial, order, decide_ok, accept_ok, tests, problems


def translate(repo=None):
    notes, initial, order = [], [], []
    decide_ok = accept_ok = False
    tests, op_returns, mdefaults, optrows = [], [], [], []
    try:
        initial, order, decide_ok, accept_ok, tests, problems = trace_run_loop()
        if problems:
            raise Unrecognised("; ".join(problems))
        op_returns = operator_failure_returns()
        mdefaults = mutable_defaults()
        optrows = option_defaults()
    except Unrecognised as e:
        notes.append(str(e))
    except Exception as e:
        notes.append(f"{type(e).__name__}: {e}")
    ok = not notes
    lines = ["import TTModel.C15_MCMC",
             "/-! GENERATED by harness/translators/tr_runorder.py from a traced run of the real `MCMC.run` (order, decision table) and from the operators' ASTs (sentinels, defaults) — do not edit.",
             "    " + "; ".join(notes), "-/", "namespace TTGen.C15_RunOrder", "open TT.C15", "",
             f"def translatorOk : Bool := {'true' if ok else 'false'}", "",
             "/-- before the loop -/", "def initial : List Phase := [" + ", ".join(initial) + "]", "",
             "/-- phases of one iteration in the order a traced run of the real MCMC.run performs them -/",
             "def order : List Phase := [" + ", ".join(order) + "]", "",
             "/-- the traced decision table (finite / +-inf / nan Hastings ratio x finite / nan / +-inf density x uniform) is `TT.C15.decideMove`'s -/",
             f"def decideBlockOk : Bool := {'true' if decide_ok else 'false'}",
             "/-- traced accept / restore behaviour (proposal kept or restored before logging, carried density updated only on accept) is `TT.C15.mcmcStep`'s -/",
             f"def acceptBlockOk : Bool := {'true' if accept_ok else 'false'}", "",
             "/-- values of `hastings_ratio` the first test of the decision block sends to rejection without evaluating -/",
             "def loopFailureTests : List Sentinel := [" + ", ".join("." + t for t in tests) + "]", "",
             "/-- per operator class: the non-finite constants its `_step` returns to say 'no proposal' -/",
             "def operatorFailureReturns : List (String × List Sentinel) := ["
             + ", ".join('("%s", [%s])' % (c, ", ".join("." + x for x in v)) for c, v in op_returns) + "]", "",
             "/-- constructor arguments with a mutable default: (class, argument, default, the constructor mutates it) -/",
             "def mutableDefaults : List (String × String × String × Bool) := ["
             + ", ".join('("%s", "%s", "%s", %s)' % (c, a, d.replace('"', "'"), "true" if m_ else "false") for c, a, d, m_ in mdefaults) + "]", "",
             "/-- option keys with a literal default both in the JSON layer and in the constructor:",
             "    (class, key, default used by from_json when the key is absent, default of the constructor) -/",
             "def optionDefaults : List (String × String × String × String) := ["
             + ", ".join('("%s", "%s", "%s", "%s")' % r for r in optrows) + "]", "",
             "end TTGen.C15_RunOrder", ""]
    return "\n".join(lines), ok, "; ".join(notes)


if __name__ == "__main__":
    import sys

    sys.path.insert(0, "/repo")
    print(translate()[0])
