"""Translator: the ORDER of the phases of one iteration of MCMC.run  ->  lean/TTGen/C15_RunOrder.lean

Reads the AST of `torchtree/inference/mcmc/mcmc.py:MCMC.run` and emits

  initial : List Phase   what happens before the loop (initial logger rows, initial evaluation of the joint)
  order   : List Phase   the top-level statements of the `while` body, classified, in source order
  decideBlockOk / acceptBlockOk : Bool   the accept/reject decision and the accept/restore block have exactly
                                         the statement shape the Lean model `decideMove` / `mcmcStep` mirrors

Phases: select, propose, decide, acceptReject, log <sample>, tune <sample> <passes acceptance_prob> <passes accepted>,
counter, checkpoint; <sample> is `.epochBefore` when `self._epoch` is read before `self._epoch += 1` in the body,
`.epochAfter` when read after it.  Display-only statements (`print`, the signal-handler test, the `weights` tensor)
are skipped.  Any other statement is *unrecognised*: `translatorOk := false` with the reason in the header.
"""
from __future__ import annotations

import ast
import inspect
import textwrap

DECIDE = """
if torch.isinf(hastings_ratio):
    log_alpha = torch.tensor(torch.finfo(hastings_ratio.dtype).min)
    acceptance_prob = torch.zeros_like(hastings_ratio)
    accepted = False
else:
    with torch.no_grad():
        log_joint_proposed = self.joint()
    if torch.isnan(log_joint_proposed) or torch.isinf(log_joint_proposed):
        log_alpha = torch.tensor(torch.finfo(hastings_ratio.dtype).min)
        acceptance_prob = torch.zeros_like(hastings_ratio)
        accepted = False
    else:
        log_alpha = (log_joint_proposed - log_joint) + hastings_ratio
        acceptance_prob = min(torch.zeros_like(log_alpha), log_alpha).exp()
        accepted = (acceptance_prob > torch.rand(1)).item()
"""
ACCEPT = """
if accepted:
    log_joint = log_joint_proposed.clone()
    accept += 1
    operator.accept()
else:
    operator.reject()
"""


class Unrecognised(Exception):
    pass


def dotted(e):
    if isinstance(e, ast.Attribute):
        b = dotted(e.value)
        return None if b is None else b + "." + e.attr
    if isinstance(e, ast.Name):
        return e.id
    return None


def calls_in(node):
    return [dotted(c.func) for c in ast.walk(node) if isinstance(c, ast.Call) and dotted(c.func)]


def kw(call, name):
    for k in call.keywords:
        if k.arg == name:
            return k.value
    return None


def translate(repo=None):
    notes, initial, order = [], [], []
    decide_ok = accept_ok = False
    try:
        from torchtree.inference.mcmc.mcmc import MCMC

        fn = ast.parse(textwrap.dedent(inspect.getsource(MCMC.run))).body[0]
        loops = [s for s in fn.body if isinstance(s, ast.While)]
        if len(loops) != 1 or ast.unparse(loops[0].test) != "self._epoch <= self.iterations":
            raise Unrecognised("MCMC.run: the while loop over self._epoch")
        for st in fn.body[: fn.body.index(loops[0])]:
            cs = calls_in(st)
            if "logger.log" in cs:
                c = [c for c in ast.walk(st) if isinstance(c, ast.Call) and dotted(c.func) == "logger.log"][0]
                s0 = kw(c, "sample")
                if not (isinstance(s0, ast.Constant) and s0.value == 0):
                    raise Unrecognised("initial logger row is not sample=0")
                initial.append(".logInitial")
            if "self.joint" in cs:
                if not (isinstance(st, ast.With) and ast.unparse(st.body[0]) == "log_joint = self.joint()"):
                    raise Unrecognised("initial evaluation of the joint")
                initial.append(".evaluateInitial")
        incremented = False

        def sample_ref(e):
            if dotted(e) == "self._epoch":
                return ".epochAfter" if incremented else ".epochBefore"
            if dotted(e) == "completed":
                return ".epochBefore"
            raise Unrecognised("sample argument " + ast.unparse(e))

        for st in loops[0].body:
            src = ast.unparse(st)
            cs = calls_in(st)
            if isinstance(st, ast.If) and ast.unparse(st.test) == "handler.stop":
                continue
            if src.startswith("weights = "):
                continue
            if src.startswith("index_operator = ") and "torch.distributions.Categorical" in cs:
                order.append(".select")
                continue
            if src == "operator = self._operators[index_operator]":
                continue
            if src == "hastings_ratio = operator.step()":
                order.append(".propose")
                continue
            if isinstance(st, ast.If) and ast.unparse(st.test) == "torch.isinf(hastings_ratio)":
                decide_ok = ast.dump(st) == ast.dump(ast.parse(DECIDE).body[0])
                order.append(".decide")
                continue
            if isinstance(st, ast.If) and ast.unparse(st.test) == "accepted":
                accept_ok = ast.dump(st) == ast.dump(ast.parse(ACCEPT).body[0])
                order.append(".acceptReject")
                continue
            if isinstance(st, ast.If) and "print" in cs and not (set(cs) - {"print", "hasattr"}):
                continue
            if isinstance(st, ast.For) and "logger.log" in cs:
                c = [c for c in ast.walk(st) if isinstance(c, ast.Call) and dotted(c.func) == "logger.log"][0]
                order.append(f"(.log {sample_ref(kw(c, 'sample'))})")
                continue
            if isinstance(st, ast.Expr) and isinstance(st.value, ast.Call) and dotted(st.value.func) == "operator.tune":
                c = st.value
                a0 = bool(c.args) and dotted(c.args[0]) == "acceptance_prob"
                a2 = dotted(kw(c, "accepted")) == "accepted" if kw(c, "accepted") is not None else False
                order.append(f"(.tune {sample_ref(kw(c, 'sample'))} {'true' if a0 else 'false'} {'true' if a2 else 'false'})")
                continue
            if src == "completed = self._epoch":
                continue
            if src == "self._epoch += 1":
                incremented = True
                order.append(".counter")
                continue
            if isinstance(st, ast.If) and "self.save_full_state" in cs:
                order.append(".checkpoint")
                continue
            raise Unrecognised("statement in the loop body: " + src.splitlines()[0][:80])
    except Unrecognised as e:
        notes.append(str(e))
    except Exception as e:
        notes.append(f"{type(e).__name__}: {e}")
    ok = not notes
    lines = ["import TTModel.C15_MCMC",
             "/-! GENERATED by harness/translators/tr_runorder.py from `MCMC.run` — do not edit.",
             "    " + "; ".join(notes), "-/", "namespace TTGen.C15_RunOrder", "open TT.C15", "",
             f"def translatorOk : Bool := {'true' if ok else 'false'}", "",
             "/-- before the loop -/", "def initial : List Phase := [" + ", ".join(initial) + "]", "",
             "/-- top-level statements of the `while` body, in source order -/",
             "def order : List Phase := [" + ", ".join(order) + "]", "",
             "/-- the decision block has exactly the shape `TT.C15.decideMove` mirrors -/",
             f"def decideBlockOk : Bool := {'true' if decide_ok else 'false'}",
             "/-- the accept / restore block has exactly the shape `TT.C15.mcmcStep` mirrors -/",
             f"def acceptBlockOk : Bool := {'true' if accept_ok else 'false'}", "",
             "end TTGen.C15_RunOrder", ""]
    return "\n".join(lines), ok, "; ".join(notes)


if __name__ == "__main__":
    import sys

    sys.path.insert(0, "/repo")
    print(translate()[0])
