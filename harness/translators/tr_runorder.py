"""Translator: the ORDER of the phases of one iteration of MCMC.run  ->  lean/TTGen/C15_RunOrder.lean

Reads the AST of `torchtree/inference/mcmc/mcmc.py:MCMC.run` and emits

  initial : List Phase   what happens before the loop (initial logger rows, initial evaluation of the joint)
  order   : List Phase   the top-level statements of the `while` body, classified, in source order
  decideBlockOk / acceptBlockOk : Bool   the accept/reject decision and the accept/restore block have exactly
                                         the statement shape the Lean model `decideMove` / `mcmcStep` mirrors

Phases: select, propose, decide, acceptReject, log <sample>, tune <sample> <passes acceptance_prob> <passes accepted>,
counter, checkpoint; <sample> is `.epochBefore` when `self._epoch` is read before `self._epoch += 1` in the body,
`.epochAfter` when read after it.  Display-only statements (`print`, the signal-handler test, the `weights` tensor)
are skipped.  Any other statement is *unrecognised*: `translatorOk := false` with the reason in the header.
"""
from __future__ import annotations

import ast
import inspect
import textwrap

DECIDE = """
if torch.isinf(hastings_ratio):
    log_alpha = torch.tensor(torch.finfo(hastings_ratio.dtype).min)
    acceptance_prob = torch.zeros_like(hastings_ratio)
    accepted = False
else:
    with torch.no_grad():
        log_joint_proposed = self.joint()
    if torch.isnan(log_joint_proposed) or torch.isinf(log_joint_proposed):
        log_alpha = torch.tensor(torch.finfo(hastings_ratio.dtype).min)
        acceptance_prob = torch.zeros_like(hastings_ratio)
        accepted = False
    else:
        log_alpha = (log_joint_proposed - log_joint) + hastings_ratio
        acceptance_prob = min(torch.zeros_like(log_alpha), log_alpha).exp()
        accepted = (acceptance_prob > torch.rand(1)).item()
"""
ACCEPT = """
if accepted:
    log_joint = log_joint_proposed.clone()
    accept += 1
    operator.accept()
else:
    operator.reject()
"""


class Unrecognised(Exception):
    pass


OP_CLASSES = [
    ("torchtree.inference.mcmc.operator", "ScalerOperator"),
    ("torchtree.inference.mcmc.operator", "SlidingWindowOperator"),
    ("torchtree.inference.mcmc.operator", "DirichletOperator"),
    ("torchtree.inference.mcmc.gmrf_block_updating", "GMRFPiecewiseCoalescentBlockUpdatingOperator"),
    ("torchtree.inference.hmc.operator", "HMCOperator"),
]
CTOR_CLASSES = OP_CLASSES + [
    ("torchtree.inference.mcmc.operator", "MCMCOperator"),
    ("torchtree.inference.hmc.adaptation", "AdaptiveStepSize"),
    ("torchtree.inference.hmc.adaptation", "DualAveragingStepSize"),
    ("torchtree.inference.hmc.adaptation", "MassMatrixAdaptor"),
    ("torchtree.inference.hmc.integrator", "LeapfrogIntegrator"),
]


def sentinel_of(e):
    """a constant expression denoting +inf / -inf / nan (possibly wrapped in torch.tensor), else None"""
    if isinstance(e, ast.Call):
        f = dotted(e.func)
        if f == "torch.tensor" and e.args:
            return sentinel_of(e.args[0])
        if f == "float" and e.args and isinstance(e.args[0], ast.Constant) and isinstance(e.args[0].value, str):
            v = e.args[0].value.strip().lower()
            return {"inf": "posInf", "+inf": "posInf", "infinity": "posInf", "-inf": "negInf", "-infinity": "negInf",
                    "nan": "nan"}.get(v)
        return None
    d = dotted(e)
    if d in ("torch.inf", "math.inf", "np.inf", "numpy.inf"):
        return "posInf"
    if d in ("torch.nan", "math.nan", "np.nan", "numpy.nan"):
        return "nan"
    if isinstance(e, ast.UnaryOp) and isinstance(e.op, ast.USub):
        s = sentinel_of(e.operand)
        return {"posInf": "negInf", "negInf": "posInf", "nan": "nan"}.get(s)
    return None


def loop_tests(test, var="hastings_ratio"):
    """which sentinel values of `hastings_ratio` the first test of the decision block sends to rejection"""
    if isinstance(test, ast.BoolOp) and isinstance(test.op, ast.Or):
        out = []
        for v in test.values:
            out += loop_tests(v, var)
        return out
    if isinstance(test, ast.Call) and len(test.args) == 1 and dotted(test.args[0]) == var:
        f = dotted(test.func)
        if f == "torch.isinf":
            return ["posInf", "negInf"]
        if f == "torch.isneginf":
            return ["negInf"]
        if f == "torch.isposinf":
            return ["posInf"]
        if f == "torch.isnan":
            return ["nan"]
        if f == "torch.isfinite":
            raise Unrecognised("isfinite without not")
    if isinstance(test, ast.UnaryOp) and isinstance(test.op, ast.Not) and isinstance(test.operand, ast.Call) \
            and dotted(test.operand.func) == "torch.isfinite" and dotted(test.operand.args[0]) == var:
        return ["posInf", "negInf", "nan"]
    if isinstance(test, ast.Compare) and len(test.ops) == 1 and isinstance(test.ops[0], ast.Eq) and dotted(test.left) == var:
        s = sentinel_of(test.comparators[0])
        if s in ("posInf", "negInf"):
            return [s]
    raise Unrecognised("failure test of the run loop: " + ast.unparse(test))


def class_node(mod, cname):
    import importlib

    cls = getattr(importlib.import_module(mod), cname)
    return ast.parse(textwrap.dedent(inspect.getsource(cls))).body[0]


def operator_failure_returns():
    rows = []
    for mod, cname in OP_CLASSES:
        cn = class_node(mod, cname)
        steps = [n for n in cn.body if isinstance(n, ast.FunctionDef) and n.name == "_step"]
        if len(steps) != 1:
            raise Unrecognised(f"{cname}._step missing")
        found = []
        for r in ast.walk(steps[0]):
            if isinstance(r, ast.Return) and r.value is not None:
                sv = sentinel_of(r.value)
                if sv and sv not in found:
                    found.append(sv)
        rows.append((cname, found))
    return rows


def literal(e):
    if isinstance(e, ast.Constant) and not isinstance(e.value, str):
        return repr(e.value)
    if isinstance(e, ast.Call) and dotted(e.func) == "float" and e.args and isinstance(e.args[0], ast.Constant):
        return "float(%r)" % e.args[0].value
    return None


def get_defaults(fn, var):
    """`var.get("key", <literal>)` calls in a function body -> {key: default}"""
    out = {}
    for c in ast.walk(fn):
        if isinstance(c, ast.Call) and isinstance(c.func, ast.Attribute) and c.func.attr == "get" and dotted(c.func.value) == var \
                and len(c.args) == 2 and isinstance(c.args[0], ast.Constant) and literal(c.args[1]) is not None:
            out[c.args[0].value] = literal(c.args[1])
    return out


def option_defaults():
    """for every class: option keys that have a literal default BOTH in the JSON layer (`data.get(key, d)` in from_json /
    `_parse_json`) and in the constructor (signature default or `kwargs.get(key, d)` in __init__ of the class or of
    MCMCOperator) -> rows (class, key, json default, constructor default)"""
    import importlib

    rows = []
    base = class_node("torchtree.inference.mcmc.operator", "MCMCOperator")
    base_fns = {n.name: n for n in base.body if isinstance(n, ast.FunctionDef)}
    for mod, cname in CTOR_CLASSES:
        if cname == "MCMCOperator":
            continue
        cn = class_node(mod, cname)
        fns = {n.name: n for n in cn.body if isinstance(n, ast.FunctionDef)}
        is_op = any(dotted(b) in ("MCMCOperator",) for b in cn.bases)
        js = {}
        if "from_json" in fns:
            js.update(get_defaults(fns["from_json"], "data"))
            if is_op and "_parse_json" in ast.unparse(fns["from_json"]):
                js.update(get_defaults(base_fns["_parse_json"], "data"))
        ct = {}
        for fn in ([fns["__init__"]] if "__init__" in fns else []) + ([base_fns["__init__"]] if is_op else []):
            args = fn.args.args
            dfl = [None] * (len(args) - len(fn.args.defaults)) + list(fn.args.defaults)
            for a, d in zip(args, dfl):
                if d is not None and literal(d) is not None:
                    ct.setdefault(a.arg, literal(d))
            for k, v in get_defaults(fn, "kwargs").items():
                ct.setdefault(k, v)
        for k in sorted(js):
            if k in ct:
                rows.append((cname, k, js[k], ct[k]))
    return rows


def mutable_defaults():
    """constructor arguments whose default is a mutable object, and whether the constructor body mutates it
    (directly or through `self.<attr> = <arg>` aliases): append/extend/insert/update/add/+=/item assignment"""
    rows = []
    for mod, cname in CTOR_CLASSES:
        cn = class_node(mod, cname)
        inits = [n for n in cn.body if isinstance(n, ast.FunctionDef) and n.name == "__init__"]
        if not inits:
            continue
        fn = inits[0]
        args = fn.args.args
        defaults = [None] * (len(args) - len(fn.args.defaults)) + list(fn.args.defaults)
        pairs = list(zip(args, defaults)) + list(zip(fn.args.kwonlyargs, fn.args.kw_defaults))
        for a, dflt in pairs:
            if dflt is None or not isinstance(dflt, (ast.List, ast.Dict, ast.Set, ast.Call, ast.ListComp, ast.DictComp)):
                continue
            names = {a.arg}
            for st in ast.walk(fn):  # aliases self.x = arg
                if isinstance(st, ast.Assign) and dotted(st.value) in names:
                    for t in st.targets:
                        if dotted(t):
                            names.add(dotted(t))
            mutated = False
            for st in ast.walk(fn):
                if isinstance(st, ast.Call) and isinstance(st.func, ast.Attribute) and dotted(st.func.value) in names \
                        and st.func.attr in ("append", "extend", "insert", "update", "add", "setdefault", "pop", "remove", "clear"):
                    mutated = True
                if isinstance(st, ast.AugAssign) and dotted(st.target) in names:
                    mutated = True
                if isinstance(st, ast.Assign):
                    for t in st.targets:
                        if isinstance(t, ast.Subscript) and dotted(t.value) in names:
                            mutated = True
            rows.append((cname, a.arg, ast.unparse(dflt), mutated))
    return rows


def dotted(e):
    if isinstance(e, ast.Attribute):
        b = dotted(e.value)
        return None if b is None else b + "." + e.attr
    if isinstance(e, ast.Name):
        return e.id
    return None


def calls_in(node):
    return [dotted(c.func) for c in ast.walk(node) if isinstance(c, ast.Call) and dotted(c.func)]


def kw(call, name):
    for k in call.keywords:
        if k.arg == name:
            return k.value
    return None


def translate(repo=None):
    notes, initial, order = [], [], []
    decide_ok = accept_ok = False
    tests, op_returns, mdefaults, optrows = [], [], [], []
    try:
        from torchtree.inference.mcmc.mcmc import MCMC

        fn = ast.parse(textwrap.dedent(inspect.getsource(MCMC.run))).body[0]
        loops = [s for s in fn.body if isinstance(s, ast.While)]
        if len(loops) != 1 or ast.unparse(loops[0].test) != "self._epoch <= self.iterations":
            raise Unrecognised("MCMC.run: the while loop over self._epoch")
        for st in fn.body[: fn.body.index(loops[0])]:
            cs = calls_in(st)
            if "logger.log" in cs:
                c = [c for c in ast.walk(st) if isinstance(c, ast.Call) and dotted(c.func) == "logger.log"][0]
                s0 = kw(c, "sample")
                if not (isinstance(s0, ast.Constant) and s0.value == 0):
                    raise Unrecognised("initial logger row is not sample=0")
                initial.append(".logInitial")
            if "self.joint" in cs:
                if not (isinstance(st, ast.With) and ast.unparse(st.body[0]) == "log_joint = self.joint()"):
                    raise Unrecognised("initial evaluation of the joint")
                initial.append(".evaluateInitial")
        incremented = False

        def sample_ref(e):
            if dotted(e) == "self._epoch":
                return ".epochAfter" if incremented else ".epochBefore"
            if dotted(e) == "completed":
                return ".epochBefore"
            raise Unrecognised("sample argument " + ast.unparse(e))

        for st in loops[0].body:
            src = ast.unparse(st)
            cs = calls_in(st)
            if isinstance(st, ast.If) and ast.unparse(st.test) == "handler.stop":
                continue
            if src.startswith("weights = "):
                continue
            if src.startswith("index_operator = ") and "torch.distributions.Categorical" in cs:
                order.append(".select")
                continue
            if src == "operator = self._operators[index_operator]":
                continue
            if src == "hastings_ratio = operator.step()":
                order.append(".propose")
                continue
            if isinstance(st, ast.If) and "hastings_ratio" in ast.unparse(st.test) and ".decide" not in order \
                    and ".propose" in order:
                tests = loop_tests(st.test)
                # the block must have the modelled statement shape; its first test may be any recognised
                # failure test (which values it catches is what `loopFailureTests` records)
                expected = ast.parse(DECIDE).body[0]
                expected.test = st.test
                decide_ok = ast.dump(st) == ast.dump(expected)
                order.append(".decide")
                continue
            if isinstance(st, ast.If) and ast.unparse(st.test) == "accepted":
                accept_ok = ast.dump(st) == ast.dump(ast.parse(ACCEPT).body[0])
                order.append(".acceptReject")
                continue
            if isinstance(st, ast.If) and "print" in cs and not (set(cs) - {"print", "hasattr"}):
                continue
            if isinstance(st, ast.For) and "logger.log" in cs:
                c = [c for c in ast.walk(st) if isinstance(c, ast.Call) and dotted(c.func) == "logger.log"][0]
                order.append(f"(.log {sample_ref(kw(c, 'sample'))})")
                continue
            if isinstance(st, ast.Expr) and isinstance(st.value, ast.Call) and dotted(st.value.func) == "operator.tune":
                c = st.value
                a0 = bool(c.args) and dotted(c.args[0]) == "acceptance_prob"
                a2 = dotted(kw(c, "accepted")) == "accepted" if kw(c, "accepted") is not None else False
                order.append(f"(.tune {sample_ref(kw(c, 'sample'))} {'true' if a0 else 'false'} {'true' if a2 else 'false'})")
                continue
            if src == "completed = self._epoch":
                continue
            if src == "self._epoch += 1":
                incremented = True
                order.append(".counter")
                continue
            if isinstance(st, ast.If) and "self.save_full_state" in cs:
                order.append(".checkpoint")
                continue
            raise Unrecognised("statement in the loop body: " + src.splitlines()[0][:80])
        op_returns = operator_failure_returns()
        mdefaults = mutable_defaults()
        optrows = option_defaults()
    except Unrecognised as e:
        notes.append(str(e))
    except Exception as e:
        notes.append(f"{type(e).__name__}: {e}")
    ok = not notes
    lines = ["import TTModel.C15_MCMC",
             "/-! GENERATED by harness/translators/tr_runorder.py from `MCMC.run` — do not edit.",
             "    " + "; ".join(notes), "-/", "namespace TTGen.C15_RunOrder", "open TT.C15", "",
             f"def translatorOk : Bool := {'true' if ok else 'false'}", "",
             "/-- before the loop -/", "def initial : List Phase := [" + ", ".join(initial) + "]", "",
             "/-- top-level statements of the `while` body, in source order -/",
             "def order : List Phase := [" + ", ".join(order) + "]", "",
             "/-- the decision block has exactly the shape `TT.C15.decideMove` mirrors -/",
             f"def decideBlockOk : Bool := {'true' if decide_ok else 'false'}",
             "/-- the accept / restore block has exactly the shape `TT.C15.mcmcStep` mirrors -/",
             f"def acceptBlockOk : Bool := {'true' if accept_ok else 'false'}", "",
             "/-- values of `hastings_ratio` the first test of the decision block sends to rejection without evaluating -/",
             "def loopFailureTests : List Sentinel := [" + ", ".join("." + t for t in tests) + "]", "",
             "/-- per operator class: the non-finite constants its `_step` returns to say 'no proposal' -/",
             "def operatorFailureReturns : List (String × List Sentinel) := ["
             + ", ".join('("%s", [%s])' % (c, ", ".join("." + x for x in v)) for c, v in op_returns) + "]", "",
             "/-- constructor arguments with a mutable default: (class, argument, default, the constructor mutates it) -/",
             "def mutableDefaults : List (String × String × String × Bool) := ["
             + ", ".join('("%s", "%s", "%s", %s)' % (c, a, d.replace('"', "'"), "true" if m_ else "false") for c, a, d, m_ in mdefaults) + "]", "",
             "/-- option keys with a literal default both in the JSON layer and in the constructor:",
             "    (class, key, default used by from_json when the key is absent, default of the constructor) -/",
             "def optionDefaults : List (String × String × String × String) := ["
             + ", ".join('("%s", "%s", "%s", "%s")' % r for r in optrows) + "]", "",
             "end TTGen.C15_RunOrder", ""]
    return "\n".join(lines), ok, "; ".join(notes)


if __name__ == "__main__":
    import sys

    sys.path.insert(0, "/repo")
    print(translate()[0])
