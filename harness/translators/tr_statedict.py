"""Translator: every state_dict/_state_dict/load_state_dict/_load_state_dict pair under
torchtree/optim and torchtree/inference  ->  lean/TTGen/C17_StateKeys.lean

Pure AST (no import of torchtree).  For every concrete class whose resolved `state_dict` or
`load_state_dict` is defined in those packages it emits

  * keys WRITTEN by state_dict (+ the `_state_dict` it merges in), each with the `self.…` attribute
    the value is taken from and the condition under which it is written;
  * keys READ by load_state_dict (+ `_load_state_dict`), each with the attribute the value is
    stored into and the condition under which it is read;
  * or `delegate attr` when the whole dictionary is handed to / taken from an attribute;

and, for every `while self._epoch <= self.iterations` loop, whether the iteration counter is
incremented BEFORE the checkpoint is written (so that the stored counter names the next iteration).

Recognised shapes (anything else -> Unrecognised -> `translatorOk := false`, which makes
`TTProps.C17.translator_recognised` fail to build; the reason is written in the file header):

  state_dict side
    d = {"k": expr, ...}            d["k"] = expr            d.update(self._state_dict())
    d.update(other_local_dict)      if cond: <the above>     return d / return {"k": expr, ...}
    return self.attr.state_dict()   (delegation)
  load side
    self.a.b = f(sd["k"], ...)      self.a.load_state_dict(sd["k"])     self._load_state_dict(sd)
    x = f(sd["k"]); self.a.tensor = g(x)          (value flows through one local)
    for o in self.xs: for s in sd["k"]: if o.id == s["id"]: o.load_state_dict(s); break
    if cond: <the above>            self.attr.load_state_dict(sd)   (delegation)
    x = {... no sd ...}             (ignored)
    x = f(sd["k"]); x["j"] = g(x["j"]); self.a.load_state_dict(x)   (local copy edited, then handed over)
    y = {}; for k, v in sd.items(): <only locals assigned>; y[k] = v   (y is sd, values rewritten);
    self.attr.load_state_dict(y)    (delegation)

Conditions are normalised:  `X is not None` -> notNone:X ; `hasattr(X, '(load_)state_dict')` -> hasSD:X ;
`len(X) > 0` and `for _ in X` -> nonempty:X ; several conditions are joined with '&'.
The attribute of a value expression is the first `self.…` chain in it, method-call suffixes
(`.state_dict()`, `.tolist()`) and a trailing `.tensor` removed.
"""
from __future__ import annotations

import ast
import copy
from pathlib import Path

PKGS = ("torchtree/optim", "torchtree/inference")
NAMES = ("state_dict", "_state_dict", "load_state_dict", "_load_state_dict")


class Unrecognised(Exception):
    pass


# ----------------------------------------------------------------------------- class table
def collect(repo: Path):
    repo = Path(repo)
    MODFUNCS.clear()
    classes = {}
    for pkg in PKGS:
        for f in sorted((repo / pkg).rglob("*.py")):
            try:
                tree = ast.parse(f.read_text())
            except SyntaxError as e:
                raise Unrecognised(f"syntax error in {f}: {e}")
            for node in tree.body:
                if isinstance(node, ast.FunctionDef):
                    MODFUNCS.setdefault(node.name, node)
                if isinstance(node, ast.ClassDef):
                    bases = []
                    for b in node.bases:
                        if isinstance(b, ast.Name):
                            bases.append(b.id)
                        elif isinstance(b, ast.Attribute):
                            bases.append(b.attr)
                    methods = {}
                    for st in node.body:
                        if isinstance(st, ast.FunctionDef):
                            abstract = any("abstractmethod" in ast.unparse(d) for d in st.decorator_list)
                            # a property getter/setter pair keeps the first definition only
                            methods.setdefault(st.name, (st, abstract))
                    registered = any("register_class" in ast.unparse(d) for d in node.decorator_list)
                    classes[node.name] = {
                        "node": node, "bases": bases, "methods": methods, "registered": registered,
                        "file": str(f.relative_to(repo)),
                    }
    return classes


def mro(classes, name, seen=None):
    seen = seen if seen is not None else []
    if name in seen or name not in classes:
        return seen
    seen.append(name)
    for b in classes[name]["bases"]:
        mro(classes, b, seen)
    return seen


def resolve(classes, name, meth):
    for c in mro(classes, name):
        if meth in classes[c]["methods"]:
            st, abstract = classes[c]["methods"][meth]
            return c, st, abstract
    return None


# ----------------------------------------------------------------------------- expressions
def self_chain(e):
    """`self.a.b` -> 'self.a.b' (None when not rooted at self)"""
    parts = []
    while isinstance(e, ast.Attribute):
        parts.append(e.attr)
        e = e.value
    if isinstance(e, ast.Name) and e.id == "self" and parts:
        return "self." + ".".join(reversed(parts))
    return None


def first_attr(e):
    """first `self.…` chain in expression e (DFS, source order); a chain that is the function of
    a call loses the method name"""
    if isinstance(e, ast.Call) and isinstance(e.func, ast.Attribute):
        r = first_attr(e.func.value) or None
        if r:
            return r
        for a in list(e.args) + [k.value for k in e.keywords]:
            r = first_attr(a)
            if r:
                return r
        return None
    c = self_chain(e)
    if c:
        return c
    if isinstance(e, (ast.ListComp, ast.GeneratorExp)):
        for g in e.generators:
            r = first_attr(g.iter)
            if r:
                return r
        return first_attr(e.elt)
    for ch in ast.iter_child_nodes(e):
        r = first_attr(ch)
        if r:
            return r
    return None


def norm_attr(a):
    if a is None:
        return "?"
    if a.endswith(".tensor"):
        a = a[: -len(".tensor")]
    return a


def norm_cond(e):
    if isinstance(e, ast.Compare) and len(e.ops) == 1:
        l, op, r = e.left, e.ops[0], e.comparators[0]
        if isinstance(op, ast.IsNot) and isinstance(r, ast.Constant) and r.value is None and self_chain(l):
            return "notNone:" + self_chain(l)
        if (isinstance(op, ast.Gt) and isinstance(r, ast.Constant) and r.value == 0 and isinstance(l, ast.Call)
                and isinstance(l.func, ast.Name) and l.func.id == "len" and self_chain(l.args[0])):
            return "nonempty:" + self_chain(l.args[0])
    if (isinstance(e, ast.Call) and isinstance(e.func, ast.Name) and e.func.id == "hasattr" and len(e.args) == 2
            and self_chain(e.args[0]) and isinstance(e.args[1], ast.Constant)
            and e.args[1].value in ("state_dict", "load_state_dict")):
        return "hasSD:" + self_chain(e.args[0])
    if self_chain(e) and not isinstance(e, ast.Call):
        return "nonempty:" + self_chain(e)  # `if self._xs:` for a container attribute
    raise Unrecognised("condition " + ast.unparse(e))


def join(conds):
    return "&".join(dict.fromkeys(c for c in conds if c))


def sd_keys(e, sd):
    """constant keys k of subscripts sd["k"] inside e"""
    out = []
    for n in ast.walk(e):
        if (isinstance(n, ast.Subscript) and isinstance(n.value, ast.Name) and n.value.id == sd):
            if isinstance(n.slice, ast.Constant) and isinstance(n.slice.value, str):
                out.append(n.slice.value)
            else:
                raise Unrecognised("non-constant key " + ast.unparse(n))
    return out


CTX = {"classes": None, "cname": None, "locals": set()}
INCIDENTAL = {"dict"}  # a shallow copy of the saved dictionary before editing it: not a function the value goes through


def call_names(e, depth=3):
    """names of the functions a value goes through inside e (last component). A private helper (module function of the scanned
    packages / method of the same class) is opened and contributes the names ITS body calls instead of its own; names of local
    variables that happen to be called (`klass(...)`) and incidental copies (`dict(...)`) are not functions of the table."""
    out = set()
    for n in ast.walk(e):
        if isinstance(n, ast.Call):
            f = n.func
            h = _helper(CTX["classes"], CTX["cname"], n) if (CTX["classes"] is not None and depth > 0) else None
            if h is not None and not is_index_by_id(h[0]):
                loc = {x.id for b in h[0].body for x in ast.walk(b) if isinstance(x, ast.Name) and isinstance(x.ctx, ast.Store)}
                for b in strip_doc(h[0].body):
                    out |= {c for c in call_names(b, depth - 1) if c not in loc}
                continue
            if isinstance(f, ast.Attribute):
                if f.attr not in ("load_state_dict", "items"):
                    out.add(f.attr)
            elif isinstance(f, ast.Name):
                out.add(f.id)
    return {c for c in out if c not in CTX["locals"] and c not in INCIDENTAL}


def uses_name(e, name):
    return any(isinstance(n, ast.Name) and n.id == name for n in ast.walk(e))



# ----------------------------------------------------------------------------- normalisation (behaviour-preserving spellings)
# Before a state_dict / load_state_dict / run-loop body is read, spellings that mean the same are reduced to one:
#   * a call of a private helper — a module-level function of the scanned packages or a method of the same class — is replaced
#     by the helper's body with the arguments substituted (helpers that are a single `return expr` inside expressions, helpers
#     without a return value as statements; up to 3 levels; `"mean" + suffix` with a constant suffix is folded);
#   * a local that only names an attribute chain (`dual_avg = self._dual_avg`) is replaced by the chain;
#   * `{…, **{…}}` is flattened (dict_literal), `{…, **self._state_dict()}` is the `update(self._state_dict())` of old;
#   * `if self._xs:` is `if len(self._xs) > 0:`.
MODFUNCS = {}


def strip_doc(body):
    return [b for b in body if not (isinstance(b, ast.Expr) and isinstance(b.value, ast.Constant) and isinstance(b.value.value, str))]


class _Sub(ast.NodeTransformer):
    def __init__(self, env, kw=None):
        self.env, self.kw = env, kw or {}

    def visit_Name(self, node):
        if node.id in self.env and isinstance(node.ctx, ast.Load):
            return copy.deepcopy(self.env[node.id])
        return node

    def visit_Call(self, node):
        self.generic_visit(node)
        new = []
        for k in node.keywords:
            if k.arg is None and isinstance(k.value, ast.Name) and k.value.id in self.kw:
                new.extend(copy.deepcopy(self.kw[k.value.id]))
            else:
                new.append(k)
        node.keywords = new
        return node

    def visit_BinOp(self, node):
        self.generic_visit(node)
        if (isinstance(node.op, ast.Add) and isinstance(node.left, ast.Constant) and isinstance(node.right, ast.Constant)
                and isinstance(node.left.value, str) and isinstance(node.right.value, str)):
            return ast.copy_location(ast.Constant(node.left.value + node.right.value), node)
        return node


def _bind(fdef, call, skip_self):
    params = [a.arg for a in fdef.args.args][1 if skip_self else 0:]
    defaults = dict(zip(reversed(params), reversed(fdef.args.defaults)))
    env, extra = {}, []
    if len(call.args) > len(params) or any(isinstance(a, ast.Starred) for a in call.args):
        return None
    for p_, a in zip(params, call.args):
        env[p_] = a
    for k in call.keywords:
        if k.arg is not None and k.arg in params:
            env[k.arg] = k.value
        else:
            extra.append(k)
    for p_ in params:
        if p_ not in env:
            if p_ not in defaults:
                return None
            env[p_] = defaults[p_]
    kw = {}
    if fdef.args.kwarg is not None:
        kw[fdef.args.kwarg.arg] = extra
    elif extra:
        return None
    if fdef.args.vararg is not None or fdef.args.kwonlyargs:
        return None
    return env, kw


def _helper(classes, cname, call):
    """the definition a call refers to, when it is a private helper we may open: (FunctionDef, is_method)"""
    f = call.func
    if isinstance(f, ast.Name) and f.id in MODFUNCS and f.id not in SAVE_CALLS and f.id not in ("process_object", "process_objects"):
        return MODFUNCS[f.id], False
    if (isinstance(f, ast.Attribute) and isinstance(f.value, ast.Name) and f.value.id == "self" and f.attr not in NAMES
            and f.attr not in ("run", "_run", "_run_closure", "save_full_state", "state_dict", "load_state_dict") and cname):
        r = resolve(classes, cname, f.attr)
        if r is not None and not r[2] and not any("property" in ast.unparse(d) for d in r[1].decorator_list):
            return r[1], True
    return None


def _assigned_locals(fdef):
    out = set()
    for n in ast.walk(fdef):
        if isinstance(n, ast.Name) and isinstance(n.ctx, ast.Store):
            out.add(n.id)
    return out


def fold_early_returns(stmts):
    """`if c: return` followed by REST  ==  `if not c: REST`"""
    out = []
    for i, x in enumerate(stmts):
        if (isinstance(x, ast.If) and not x.orelse and len(x.body) == 1 and isinstance(x.body[0], ast.Return)
                and (x.body[0].value is None or (isinstance(x.body[0].value, ast.Constant) and x.body[0].value.value is None))):
            rest = fold_early_returns(stmts[i + 1:])
            if rest:
                out.append(ast.fix_missing_locations(ast.If(test=ast.UnaryOp(op=ast.Not(), operand=x.test), body=rest, orelse=[], lineno=x.lineno, col_offset=0)))
            return out
        out.append(x)
    return out


def normalise_body(classes, cname, body, depth=3, expr_only=False, aliases=True):
    body = strip_doc(body)

    class ExprInline(ast.NodeTransformer):
        def visit_Call(self, node):
            self.generic_visit(node)
            if depth <= 0:
                return node
            h = _helper(classes, cname, node)
            if h is None:
                return node
            fdef, is_m = h
            hb = strip_doc(fdef.body)
            if len(hb) == 1 and isinstance(hb[0], ast.Return) and hb[0].value is not None:
                b = _bind(fdef, node, is_m)
                if b is None:
                    return node
                e = _Sub(*b).visit(copy.deepcopy(hb[0].value))
                e = normalise_body(classes, cname, [ast.Expr(e)], depth - 1, True)[0].value
                return ast.copy_location(e, node)
            return node

    out = []
    for st in body:
        # a helper called for its effect: splice its body
        if isinstance(st, ast.Expr) and isinstance(st.value, ast.Call) and depth > 0 and not expr_only:
            h = _helper(classes, cname, st.value)
            if h is not None:
                fdef, is_m = h
                hb = strip_doc(fdef.body)
                if hb and isinstance(hb[-1], ast.Return) and (hb[-1].value is None or (isinstance(hb[-1].value, ast.Constant) and hb[-1].value.value is None)):
                    hb = hb[:-1]
                hb = fold_early_returns(hb)
                no_return = not any(isinstance(n, ast.Return) for x in hb for n in ast.walk(x))
                b = _bind(fdef, st.value, is_m)
                # the helper's own locals must not collide with the caller's
                if no_return and b is not None and hb:
                    sub = [_Sub(*b).visit(copy.deepcopy(x)) for x in hb]
                    out.extend(normalise_body(classes, cname, sub, depth - 1, aliases=aliases))
                    continue
        st = ExprInline().visit(copy.deepcopy(st))
        for fld in ("body", "orelse"):
            if not expr_only and isinstance(getattr(st, fld, None), list) and getattr(st, fld) and isinstance(getattr(st, fld)[0], ast.stmt):
                setattr(st, fld, normalise_body(classes, cname, getattr(st, fld), depth, aliases=aliases))
        out.append(ast.fix_missing_locations(st))
    if expr_only or not aliases:
        return out
    # locals that only name an attribute chain of self
    counts = {}
    for x in out:
        for n in ast.walk(x):
            if isinstance(n, ast.Name) and isinstance(n.ctx, ast.Store):
                counts[n.id] = counts.get(n.id, 0) + 1
    res, env = [], {}
    for x in out:
        tgt = val = None
        if isinstance(x, ast.Assign) and len(x.targets) == 1 and isinstance(x.targets[0], ast.Name):
            tgt, val = x.targets[0].id, x.value
        elif isinstance(x, ast.AnnAssign) and isinstance(x.target, ast.Name) and x.value is not None:
            tgt, val = x.target.id, x.value
        if tgt and counts.get(tgt) == 1 and self_chain(val) and not isinstance(val, ast.Call):
            env[tgt] = val
            continue
        res.append(ast.fix_missing_locations(_Sub(env).visit(x)) if env else x)
    return res


def normalised(classes, cname, fn):
    new = copy.deepcopy(fn)
    new.body = normalise_body(classes, cname, fn.body)
    return new


def is_index_by_id(fdef):
    """def f(states): d = {}; for s in states: d.setdefault(s["id"], s); return d"""
    b = strip_doc(fdef.body)
    if len(b) != 3 or not isinstance(b[1], ast.For) or not isinstance(b[2], ast.Return):
        return False
    src = ast.unparse(b[1]).replace('"', "'")
    return ".setdefault(" in src and "['id']" in src and len(b[1].body) == 1


# ----------------------------------------------------------------------------- state_dict side
def dict_literal(e, conds, spread=None):
    out = []
    for k, v in zip(e.keys, e.values):
        if k is None and isinstance(v, ast.Dict):
            out.extend(dict_literal(v, conds, spread))  # {**{…}}
            continue
        if k is None and spread is not None:
            sub = spread(v)
            if sub is not None:
                out.extend((k2, at, join(conds + ([c] if c else []))) for k2, at, c in sub)
                continue
        if not (isinstance(k, ast.Constant) and isinstance(k.value, str)):
            raise Unrecognised("dict key " + (ast.unparse(k) if k else "**"))
        out.append((k.value, norm_attr(first_attr(v)), join(conds)))
    return out


def written(classes, cname, meth="state_dict"):
    """-> ('keys', [(key, attr, cond)]) or ('delegate', attr)"""
    r = resolve(classes, cname, meth)
    if r is None:
        raise Unrecognised(f"{cname}.{meth} not found")
    _, fn, abstract = r
    if abstract:
        raise Unrecognised(f"{cname}.{meth} is abstract")
    fn = normalised(classes, cname, fn)
    local = {}  # local dict variable -> list of entries
    result = None

    def spread(v):
        """**self._state_dict() inside a literal == update(self._state_dict())"""
        if (isinstance(v, ast.Call) and isinstance(v.func, ast.Attribute) and isinstance(v.func.value, ast.Name)
                and v.func.value.id == "self" and v.func.attr in ("_state_dict", "state_dict") and v.func.attr != meth):
            kind, sub = written(classes, cname, v.func.attr)
            if kind != "keys":
                raise Unrecognised("** of a delegated dictionary")
            return sub
        if isinstance(v, ast.Name) and v.id in local:
            return local[v.id]
        return None

    def block(stmts, conds):
        nonlocal result
        for st in stmts:
            if isinstance(st, ast.Expr) and isinstance(st.value, ast.Constant):
                continue  # docstring
            if isinstance(st, ast.Pass):
                continue
            if isinstance(st, ast.Assign) and len(st.targets) == 1:
                t = st.targets[0]
                if isinstance(t, ast.Name) and isinstance(st.value, ast.Dict):
                    local[t.id] = dict_literal(st.value, conds, spread)
                    continue
                if (isinstance(t, ast.Subscript) and isinstance(t.value, ast.Name) and t.value.id in local
                        and isinstance(t.slice, ast.Constant) and isinstance(t.slice.value, str)):
                    local[t.value.id].append((t.slice.value, norm_attr(first_attr(st.value)), join(conds)))
                    continue
            if isinstance(st, ast.AnnAssign) and isinstance(st.target, ast.Name) and isinstance(st.value, ast.Dict):
                local[st.target.id] = dict_literal(st.value, conds, spread)
                continue
            if (isinstance(st, ast.Expr) and isinstance(st.value, ast.Call) and isinstance(st.value.func, ast.Attribute)
                    and st.value.func.attr == "update" and isinstance(st.value.func.value, ast.Name)
                    and st.value.func.value.id in local and len(st.value.args) == 1):
                a = st.value.args[0]
                tgt = local[st.value.func.value.id]
                if isinstance(a, ast.Name) and a.id in local:
                    tgt.extend((k, at, join(conds + ([c] if c else []))) for k, at, c in local[a.id])
                    continue
                if (isinstance(a, ast.Call) and isinstance(a.func, ast.Attribute) and isinstance(a.func.value, ast.Name)
                        and a.func.value.id == "self" and a.func.attr in ("_state_dict", "state_dict")
                        and a.func.attr != meth):
                    kind, sub = written(classes, cname, a.func.attr)
                    if kind != "keys":
                        raise Unrecognised("update() with a delegated dictionary")
                    tgt.extend((k, at, join(conds + ([c] if c else []))) for k, at, c in sub)
                    continue
                if isinstance(a, ast.Dict):
                    tgt.extend(dict_literal(a, conds, spread))
                    continue
            if isinstance(st, ast.If) and not st.orelse:
                block(st.body, conds + [norm_cond(st.test)])
                continue
            if isinstance(st, ast.Return):
                if conds:
                    raise Unrecognised("conditional return")
                v = st.value
                if isinstance(v, ast.Name) and v.id in local:
                    result = ("keys", local[v.id])
                elif isinstance(v, ast.Dict):
                    result = ("keys", dict_literal(v, conds, spread))
                elif (isinstance(v, ast.Call) and isinstance(v.func, ast.Attribute)
                      and v.func.attr == "state_dict" and self_chain(v.func.value) and not v.args):
                    result = ("delegate", self_chain(v.func.value))
                else:
                    raise Unrecognised("return " + ast.unparse(st)[:80])
                return
            raise Unrecognised(f"{cname}.{meth}: statement " + ast.unparse(st)[:80])

    block(fn.body, [])
    if result is None:
        raise Unrecognised(f"{cname}.{meth}: no return")
    return result


# ----------------------------------------------------------------------------- load side
def vjoin(*sets):
    out = set()
    for x in sets:
        out |= set(x)
    return ",".join(sorted(out))


def read(classes, cname, meth="load_state_dict"):
    """-> ('keys', [(key, attr, cond, via)]) or ('delegate', attr, via)"""
    r = resolve(classes, cname, meth)
    if r is None:
        raise Unrecognised(f"{cname}.{meth} not found")
    _, fn, abstract = r
    if abstract:
        raise Unrecognised(f"{cname}.{meth} is abstract")
    args = [a.arg for a in fn.args.args]
    if len(args) != 2:
        raise Unrecognised(f"{cname}.{meth}: signature {args}")
    sd = args[1]
    fn = normalised(classes, cname, fn)
    CTX.update(classes=classes, cname=cname,
               locals={n.id for n in ast.walk(fn) if isinstance(n, ast.Name) and isinstance(n.ctx, ast.Store)})
    indexed = {}  # local -> key: D = <index by id>(sd["k"])
    entries = []  # (key, attr, cond, via)
    delegate = None
    pending = {}  # local name -> [(key, cond, via-set)]
    aliases = {}  # locals that hold the whole saved dictionary (values possibly rewritten) -> via-set

    def child_loop(st, conds):
        """for o in self.xs: for s in sd["k"]: if o.id == s["id"]: o.load_state_dict(s); break"""
        outer = self_chain(st.iter)
        if outer is None or not isinstance(st.target, ast.Name) or len(st.body) != 1:
            return False
        inner = st.body[0]
        if not (isinstance(inner, ast.For) and isinstance(inner.target, ast.Name)):
            return False
        ks = sd_keys(inner.iter, sd)
        if len(ks) != 1 or not isinstance(inner.iter, ast.Subscript):
            return False
        o, s = st.target.id, inner.target.id
        if len(inner.body) != 1 or not isinstance(inner.body[0], ast.If):
            return False
        test = inner.body[0]
        t = ast.unparse(test.test).replace('"', "'")
        if t not in (f"{o}.id == {s}['id']", f"{s}['id'] == {o}.id"):
            return False
        body = [ast.unparse(x) for x in test.body]
        if body != [f"{o}.load_state_dict({s})", "break"] or test.orelse:
            return False
        entries.append((ks[0], norm_attr(outer), join(conds + ["nonempty:" + outer]), ""))
        return True

    def indexed_loop(st, conds):
        """D = index_by_id(sd["k"]) … for o in self.xs: if o.id in D: o.load_state_dict(D[o.id])  ==  the nested search of child_loop"""
        outer = self_chain(st.iter)
        if outer is None or not isinstance(st.target, ast.Name) or len(st.body) != 1 or not isinstance(st.body[0], ast.If):
            return False
        o, test = st.target.id, st.body[0]
        for d, key in indexed.items():
            if (ast.unparse(test.test) == f"{o}.id in {d}" and not test.orelse
                    and [ast.unparse(x) for x in test.body] == [f"{o}.load_state_dict({d}[{o}.id])"]):
                entries.append((key, norm_attr(outer), join(conds + ["nonempty:" + outer]), ""))
                return True
        return False

    def only_locals(stmts):
        """statements that assign to local names / items of local names only"""
        for x in stmts:
            if isinstance(x, ast.If):
                if not (only_locals(x.body) and only_locals(x.orelse)):
                    return False
                continue
            if not (isinstance(x, ast.Assign) and len(x.targets) == 1):
                return False
            t = x.targets[0]
            if isinstance(t, ast.Subscript):
                t = t.value
            if not isinstance(t, ast.Name) or t.id == "self":
                return False
        return True

    def rewrite_loop(st):
        """for k, v in sd.items(): <locals only>; y[k] = v   -> y stands for sd"""
        if ast.unparse(st.iter) != f"{sd}.items()" or st.orelse:
            return False
        if not (isinstance(st.target, ast.Tuple) and len(st.target.elts) == 2
                and all(isinstance(e, ast.Name) for e in st.target.elts)):
            return False
        k, v = (e.id for e in st.target.elts)
        if not only_locals(st.body) or not st.body:
            return False
        last = st.body[-1]
        if not (isinstance(last, ast.Assign) and isinstance(last.targets[0], ast.Subscript)
                and isinstance(last.targets[0].value, ast.Name)
                and ast.unparse(last.targets[0].slice) == k and ast.unparse(last.value) == v):
            return False
        via = set()
        for x in st.body[:-1]:
            via |= call_names(x)
        aliases[last.targets[0].value.id] = via
        return True

    def block(stmts, conds):
        nonlocal delegate
        for st in stmts:
            if isinstance(st, ast.Expr) and isinstance(st.value, ast.Constant):
                continue
            if isinstance(st, ast.Pass):
                continue
            if isinstance(st, ast.If) and not st.orelse:
                block(st.body, conds + [norm_cond(st.test)])
                continue
            # a local copy of a saved value edited in place:  x["j"] = g(x["j"])
            if (isinstance(st, ast.Assign) and len(st.targets) == 1 and isinstance(st.targets[0], ast.Subscript)
                    and isinstance(st.targets[0].value, ast.Name) and st.targets[0].value.id in pending
                    and not uses_name(st.value, sd)):
                x = st.targets[0].value.id
                pending[x] = [(k, c, v | call_names(st.value)) for k, c, v in pending[x]]
                continue
            # the (rewritten) whole dictionary / an edited local copy handed to an attribute
            if (isinstance(st, ast.Expr) and isinstance(st.value, ast.Call) and isinstance(st.value.func, ast.Attribute)
                    and st.value.func.attr == "load_state_dict" and self_chain(st.value.func.value)
                    and len(st.value.args) == 1 and isinstance(st.value.args[0], ast.Name)):
                a = st.value.args[0].id
                if a in aliases:
                    if conds or entries:
                        raise Unrecognised("partial delegation")
                    delegate = (self_chain(st.value.func.value), vjoin(aliases[a]))
                    continue
                if a in pending:
                    for k, c, v in pending.pop(a):
                        entries.append((k, norm_attr(self_chain(st.value.func.value)),
                                        join(conds + ([c] if c else [])), vjoin(v)))
                    continue
            if (isinstance(st, ast.Assign) and len(st.targets) == 1 and isinstance(st.targets[0], ast.Name) and isinstance(st.value, ast.Call)
                    and isinstance(st.value.func, ast.Name) and st.value.func.id in MODFUNCS and is_index_by_id(MODFUNCS[st.value.func.id])
                    and len(st.value.args) == 1 and len(sd_keys(st.value.args[0], sd)) == 1 and isinstance(st.value.args[0], ast.Subscript)):
                indexed[st.targets[0].id] = sd_keys(st.value.args[0], sd)[0]
                continue
            if isinstance(st, ast.For):
                if child_loop(st, conds):
                    continue
                if indexed_loop(st, conds):
                    continue
                if rewrite_loop(st):
                    continue
                raise Unrecognised(f"{cname}.{meth}: loop " + ast.unparse(st)[:80])
            keys = sd_keys(st, sd)
            whole = [n for n in ast.walk(st) if isinstance(n, ast.Name) and n.id == sd]
            n_sub = sum(1 for n in ast.walk(st) if isinstance(n, ast.Subscript) and isinstance(n.value, ast.Name)
                        and n.value.id == sd)
            bare = len(whole) - n_sub  # uses of sd that are not sd["k"]
            if (isinstance(st, ast.Expr) and isinstance(st.value, ast.Call) and isinstance(st.value.func, ast.Attribute)
                    and st.value.func.attr == "load_state_dict" and self_chain(st.value.func.value) and len(st.value.args) == 1
                    and isinstance(st.value.args[0], ast.DictComp) and len(st.value.args[0].generators) == 1
                    and ast.unparse(st.value.args[0].generators[0].iter) == f"{sd}.items()" and not keys):
                # X.load_state_dict({k: g(k, v) for k, v in sd.items()}): the whole dictionary, values rewritten by g
                comp = st.value.args[0]
                tk = comp.generators[0].target
                if (isinstance(tk, ast.Tuple) and len(tk.elts) == 2 and ast.unparse(comp.key) == ast.unparse(tk.elts[0])
                        and not comp.generators[0].ifs):
                    if conds or entries:
                        raise Unrecognised("partial delegation")
                    CTX["locals"] -= {ast.unparse(tk.elts[0]), ast.unparse(tk.elts[1])}
                    delegate = (self_chain(st.value.func.value), vjoin(call_names(comp.value)))
                    continue
            if isinstance(st, ast.Expr) and isinstance(st.value, ast.Call) and isinstance(st.value.func, ast.Attribute):
                f = st.value.func
                if bare == 1 and not keys and len(st.value.args) == 1 and isinstance(st.value.args[0], ast.Name):
                    if isinstance(f.value, ast.Name) and f.value.id == "self" and f.attr in NAMES and f.attr != meth:
                        res = read(classes, cname, f.attr)
                        if res[0] != "keys":
                            raise Unrecognised("nested delegation")
                        entries.extend((k, a, join(conds + ([c] if c else [])), v) for k, a, c, v in res[1])
                        continue
                    if f.attr == "load_state_dict" and self_chain(f.value):
                        if conds or entries:
                            raise Unrecognised("partial delegation")
                        delegate = (self_chain(f.value), "")
                        continue
                if bare == 0 and len(set(keys)) == 1 and f.attr == "load_state_dict" and self_chain(f.value):
                    via = set()
                    for a in st.value.args:
                        via |= call_names(a)
                    entries.append((keys[0], norm_attr(self_chain(f.value)), join(conds), vjoin(via)))
                    continue
            if isinstance(st, ast.Assign) and len(st.targets) == 1 and bare == 0:
                t = st.targets[0]
                tc = self_chain(t)
                used = [v for v in pending if uses_name(st.value, v)]
                via = call_names(st.value)
                if tc and (keys or used):
                    for k in keys:
                        entries.append((k, norm_attr(tc), join(conds), vjoin(via)))
                    for v in used:
                        for k, c, pv in pending.pop(v):
                            entries.append((k, norm_attr(tc), join(conds + ([c] if c else [])), vjoin(via, pv)))
                    continue
                if isinstance(t, ast.Name) and keys:
                    pending[t.id] = [(k, join(conds), set(via)) for k in keys]
                    continue
                if isinstance(t, ast.Name) and not keys and not used:
                    continue  # a local that does not depend on the saved state
            raise Unrecognised(f"{cname}.{meth}: statement " + ast.unparse(st)[:80])

    block(fn.body, [])
    if pending:
        raise Unrecognised(f"{cname}.{meth}: value read into {sorted(pending)} is never stored")
    if delegate is not None:
        return ("delegate", delegate[0], delegate[1])
    return ("keys", entries)


# ----------------------------------------------------------------------------- run loops
SAVE_CALLS = ("save_full_state", "save_parameters")
SNAPSHOTS = set()


def classify(st, counter):
    """one top-level statement of a run-loop body -> event name"""
    src = ast.unparse(st)
    if isinstance(st, ast.AugAssign) and ast.unparse(st.target) == counter:
        if not (isinstance(st.op, ast.Add) and ast.unparse(st.value) == "1"):
            raise Unrecognised("counter advanced by something else than `+= 1`: " + src)
        return "increment"
    if isinstance(st, ast.Assign) and ast.unparse(st.value) == counter and isinstance(st.targets[0], ast.Name):
        SNAPSHOTS.add(st.targets[0].id)
        return "snapshot"  # completed = self._epoch
    if (isinstance(st, ast.Assign) and len(st.targets) == 1 and ast.unparse(st.targets[0]) == counter and isinstance(st.value, ast.BinOp)
            and isinstance(st.value.op, ast.Add) and ast.unparse(st.value.right) == "1"
            and (ast.unparse(st.value.left) == counter or ast.unparse(st.value.left) in SNAPSHOTS)):
        return "increment"  # self._epoch = completed + 1, completed being the snapshot just taken
    calls = [ast.unparse(n.func) for n in ast.walk(st) if isinstance(n, ast.Call)]
    if any(c.split(".")[-1] in SAVE_CALLS for c in calls):
        if not isinstance(st, ast.If):
            raise Unrecognised("unconditional checkpoint: " + src[:60])
        return "save"
    if any(c.endswith(".tune") for c in calls):
        return "tune"
    if any(c in ("self.scheduler.step",) for c in calls):
        return "scheduler"
    if any(c.endswith("convergence.check") for c in calls):
        return "convergence"
    if any(c.endswith("warmup_adaptor.learn") for c in calls):
        return "adapt"
    if any(c in ("logger", "logger.log") for c in calls):
        return "logger"
    if any(c in ("self.optimizer.step", "operator.step", "self.integrator") for c in calls):
        return "step"
    if any(c.endswith(".accept") or c.endswith(".reject") or c == "pack_tensor" for c in calls):
        return "decide"
    return "other"


def counter_in_state(classes, cname, counter):
    """state_dict writes a key from the counter attribute and load_state_dict reads it back into it"""
    try:
        w = written(classes, cname) if resolve(classes, cname, "state_dict") else ("keys", [])
        r = read(classes, cname) if resolve(classes, cname, "load_state_dict") else ("keys", [])
    except Unrecognised:
        return False
    if w[0] != "keys" or r[0] != "keys":
        return False
    wk = {k for k, a, *_ in w[1] if a == counter}
    rk = {k for k, a, *_ in r[1] if a == counter}
    return bool(wk & rk)


def saves_state(classes, cname, save_stmt):
    """the checkpoint statement writes the algorithm state (state_dict) and not only the parameters"""
    for n in ast.walk(save_stmt):
        if isinstance(n, ast.Call):
            f = ast.unparse(n.func)
            if f.split(".")[-1] == "save_full_state":
                r = resolve(classes, cname, "save_full_state")
                return bool(r) and "state_dict()" in ast.unparse(r[1])
            if f.split(".")[-1] == "save_parameters":
                return False
    return False


def loops(classes):
    """one row per run loop that checkpoints: (name, [events in source order], counter is an attribute,
    counter saved and restored by the class, checkpoint carries the algorithm state)"""
    out = []
    for cname, c in classes.items():
        for mname, (fn, _abs) in c["methods"].items():
            for node in ast.walk(fn):
                if isinstance(node, ast.While) and "self._epoch" in ast.unparse(node.test):
                    counter, is_attr, implicit_inc = "self._epoch", True, False
                elif (isinstance(node, ast.For) and isinstance(node.target, ast.Name) and isinstance(node.iter, ast.Call)
                      and ast.unparse(node.iter.func) == "range" and "iterations" in ast.unparse(node.iter)):
                    counter, is_attr, implicit_inc = node.target.id, False, True
                else:
                    continue
                node = copy.copy(node)
                node.body = normalise_body(classes, cname, node.body, aliases=False)
                if not any(x in ast.unparse(node) for x in SAVE_CALLS):
                    continue  # a loop that never checkpoints
                try:
                    SNAPSHOTS.clear()
                    events = [classify(st, counter) for st in node.body]
                except Unrecognised as e:
                    raise Unrecognised(f"{cname}.{mname}: {e}")
                if implicit_inc:
                    events.append("increment")  # the `for` header advances the counter after the body
                if events.count("save") != 1:
                    raise Unrecognised(f"{cname}.{mname}: {events.count('save')} checkpoint statements")
                if events.count("increment") != 1:
                    raise Unrecognised(f"{cname}.{mname}: iteration counter advanced {events.count('increment')} times")
                if "step" not in events:
                    raise Unrecognised(f"{cname}.{mname}: no step statement recognised")
                sst = node.body[events.index("save")]
                for n in ast.walk(sst):
                    if isinstance(n, ast.Call) and ast.unparse(n.func).split(".")[-1] in SAVE_CALLS:
                        for a in list(n.args) + [k.value for k in n.keywords]:
                            if "iteration" in ast.unparse(a) or "_epoch +" in ast.unparse(a) or "_epoch -" in ast.unparse(a):
                                raise Unrecognised(f"{cname}.{mname}: counter passed explicitly to the save call")
                out.append({"name": f"{cname}.{mname}", "events": events, "counter_is_attr": is_attr,
                            "counter_saved": is_attr and counter_in_state(classes, cname, counter),
                            "saves_state": saves_state(classes, cname, sst)})
    return sorted(out, key=lambda r: r["name"])


# ----------------------------------------------------------------------------- emit
def lstr(s):
    return '"' + s.replace("\\", "\\\\").replace('"', '\\"') + '"'


def translate(repo: Path):
    """returns (lean_source, ok, note, table) — table is the python view used by the correspondence"""
    notes = []
    ok = True
    table = {"classes": [], "loops": [], "abstract": []}
    try:
        classes = collect(repo)
    except Unrecognised as e:
        classes = {}
        ok = False
        notes.append(f"UNRECOGNISED: {e}")
    for cname in sorted(classes):
        rs, rl = resolve(classes, cname, "state_dict"), resolve(classes, cname, "load_state_dict")
        if rs is None and rl is None:
            continue
        is_base = any(cname in classes[o]["bases"] for o in classes)
        abstract = [m for m in NAMES if (resolve(classes, cname, m) or (None, None, False))[2]]
        if abstract:
            if is_base and not classes[cname]["registered"]:
                continue  # an abstract base class: its methods are resolved through the subclasses
            table["abstract"].append((cname, abstract))
            continue
        try:
            w = written(classes, cname) if rs else ("keys", [])
            r = read(classes, cname) if rl else ("keys", [])
            if w[0] == "keys" and r[0] == "keys":
                # one canonical order: that of the keys written (independent restores may come in any order)
                order = [k for k, *_ in w[1]]
                r = ("keys", sorted(r[1], key=lambda e_: order.index(e_[0]) if e_[0] in order else len(order)))
            if (w[0] == "delegate") != (r[0] == "delegate"):
                raise Unrecognised(f"{cname}: delegation on one side only")
            table["classes"].append({"name": cname, "file": classes[cname]["file"], "written": w, "read": r})
        except Unrecognised as e:
            ok = False
            notes.append(f"UNRECOGNISED: {e}")
    try:
        table["loops"] = loops(classes)
    except Unrecognised as e:
        ok = False
        notes.append(f"UNRECOGNISED: {e}")
    if not table["classes"] or not table["loops"]:
        ok = False
        notes.append("UNRECOGNISED: no state_dict classes or no checkpointing loop found")

    def vlist(v):
        return "[" + ", ".join(lstr(x) for x in v.split(",") if x) + "]"

    def entry(k, a, c, v=""):
        return f"⟨{lstr(k)}, {lstr(a)}, {lstr(c)}, {vlist(v)}⟩"

    cls_src = []
    for c in table["classes"]:
        w, r = c["written"], c["read"]
        if w[0] == "delegate":
            cls_src.append(f"  {{ name := {lstr(c['name'])}, written := [], read := [],\n"
                           f"    delegateW := some {lstr(w[1])}, delegateR := some {lstr(r[1])}, delegateVia := {vlist(r[2])} }}")
        else:
            ws = ",\n      ".join(entry(*e) for e in w[1])
            rs_ = ",\n      ".join(entry(*e) for e in r[1])
            cls_src.append(f"  {{ name := {lstr(c['name'])},\n    written := [\n      {ws}],\n    read := [\n      {rs_}],\n"
                           f"    delegateW := none, delegateR := none }}")
    tf = lambda b: "true" if b else "false"  # noqa: E731
    loops_src = ",\n  ".join(
        f"⟨{lstr(r['name'])}, [{', '.join('.' + e for e in r['events'])}], {tf(r['counter_is_attr'])}, "
        f"{tf(r['counter_saved'])}, {tf(r['saves_state'])}⟩" for r in table["loops"])
    abs_src = ", ".join(f"({lstr(n)}, [{', '.join(lstr(m) for m in ms)}])" for n, ms in table["abstract"])
    header = "\n    ".join(notes)
    lean = (
        "import TTModel.C17_Resume\n"
        "/-! GENERATED by harness/translators/tr_statedict.py from torchtree/optim and torchtree/inference\n"
        "    (state_dict / load_state_dict pairs and checkpointing loops) — do not edit.\n"
        f"    {header}\n-/\n"
        "namespace TTGen.C17_StateKeys\nopen TT.C17\n\n"
        f"def translatorOk : Bool := {'true' if ok else 'false'}\n\n"
        "/-- one entry per concrete class: keys written by state_dict / read by load_state_dict,\n"
        "    each as ⟨key, attribute, condition⟩ -/\n"
        "def classes : List ClassKeys := [\n" + ",\n".join(cls_src) + "]\n\n"
        "/-- checkpointing loops, one row each: ⟨name, top-level statements of the body in source order, the counter is an\n"
        "    attribute, it is saved and restored by the class, the checkpoint carries the algorithm state⟩ -/\n"
        f"def loops : List LoopSpec := [\n  {loops_src}]\n\n"
        "/-- registered/leaf classes that cannot be instantiated (abstract state methods left unimplemented) -/\n"
        f"def notInstantiable : List (String × List String) := [{abs_src}]\n\n"
        "end TTGen.C17_StateKeys\n"
    )
    return lean, ok, "; ".join(notes), table


if __name__ == "__main__":
    import sys

    src, ok, note, table = translate(Path(sys.argv[1] if len(sys.argv) > 1 else "/repo"))
    print(src)
    print("-- ok:", ok, note, file=sys.stderr)
