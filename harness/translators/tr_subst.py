"""Translator for C04: reads the literal tables the substitution models are built from and emits
lean/TTGen/C04Tables.lean.

  * torchtree/evolution/substitution_model/amino_acid.py: the `frequencies` / `rates` literals of
    `LG.__init__` and `WAG.__init__` (AST; each literal's SOURCE TEXT is turned into an exact
    rational, and into the float64 bit pattern Python gives it)
  * torchtree/evolution/datatype.py: `CodonDataType.GENETIC_CODE_TABLES`, `GENETIC_CODE_NAMES`,
    `NUMBER_OF_CODONS`, `CODON_TRIPLETS` (AST)

An unrecognised code shape sets `translatorOk := false` (theorem `translator_recognised` then fails
to build) and the note says why; nothing is defaulted silently.
"""
from __future__ import annotations

import ast
import struct
from decimal import Decimal
from fractions import Fraction
from pathlib import Path


class Unrecognised(Exception):
    pass


def _class(tree, name):
    for node in tree.body:
        if isinstance(node, ast.ClassDef) and node.name == name:
            return node
    raise Unrecognised(f"class {name} not found")


def _tensor_literal(src, cls, var):
    """the list literal assigned to `var` inside cls.__init__ via torch.tensor([...])"""
    init = None
    for node in cls.body:
        if isinstance(node, ast.FunctionDef) and node.name == "__init__":
            init = node
    if init is None:
        raise Unrecognised(f"{cls.name}.__init__ not found")
    found = None
    for node in ast.walk(init):
        if isinstance(node, ast.Assign) and len(node.targets) == 1 and isinstance(node.targets[0], ast.Name) \
                and node.targets[0].id == var:
            if found is not None:
                raise Unrecognised(f"{cls.name}.{var} assigned twice")
            found = node.value
    if found is None:
        raise Unrecognised(f"{cls.name}: no assignment to {var}")
    if not (isinstance(found, ast.Call) and isinstance(found.func, ast.Attribute) and found.func.attr == "tensor"
            and len(found.args) == 1 and not found.keywords and isinstance(found.args[0], ast.List)):
        raise Unrecognised(f"{cls.name}.{var} is not torch.tensor([literal list])")
    out = []
    for el in found.args[0].elts:
        if not (isinstance(el, ast.Constant) and isinstance(el.value, (int, float)) and not isinstance(el.value, bool)):
            raise Unrecognised(f"{cls.name}.{var}: non-literal element")
        text = ast.get_source_segment(src, el)
        try:
            frac = Fraction(Decimal(text.replace("_", "")))
        except Exception:
            raise Unrecognised(f"{cls.name}.{var}: cannot read literal {text!r}")
        if float(frac) != float(el.value):
            raise Unrecognised(f"{cls.name}.{var}: literal {text!r} does not round to its AST value")
        out.append((frac, float(el.value)))
    # super().__init__(id_, rates, frequencies) must pass these very names in this order
    return out


def _super_call_ok(cls):
    for node in ast.walk(cls):
        if isinstance(node, ast.Call) and isinstance(node.func, ast.Attribute) and node.func.attr == "__init__" \
                and isinstance(node.func.value, ast.Call) and getattr(node.func.value.func, "id", "") == "super":
            names = [getattr(a, "id", None) for a in node.args]
            return names[-2:] == ["rates", "frequencies"]
    return False


def _class_tuple(cls, name, kind):
    for node in cls.body:
        if isinstance(node, ast.Assign) and len(node.targets) == 1 and getattr(node.targets[0], "id", None) == name:
            if not isinstance(node.value, ast.Tuple):
                raise Unrecognised(f"CodonDataType.{name} is not a tuple literal")
            vals = []
            for el in node.value.elts:
                if not (isinstance(el, ast.Constant) and isinstance(el.value, kind)):
                    raise Unrecognised(f"CodonDataType.{name}: non-literal element")
                vals.append(el.value)
            return vals
    raise Unrecognised(f"CodonDataType.{name} not found")


def bits(x: float) -> int:
    return struct.unpack("<Q", struct.pack("<d", x))[0]


def _lean_chars(s: str) -> str:
    for ch in s:
        if not (ch.isalnum() or ch in "*?-"):
            raise Unrecognised(f"unexpected character {ch!r} in table")
    return "[" + ", ".join(f"'{ch}'" for ch in s) + "]"


def read_tables(repo: Path):
    aa_src = (repo / "torchtree/evolution/substitution_model/amino_acid.py").read_text()
    aa = ast.parse(aa_src)
    out = {}
    for name in ("LG", "WAG"):
        cls = _class(aa, name)
        if [getattr(b, "id", getattr(b, "attr", None)) for b in cls.bases] != ["EmpiricalSubstitutionModel"]:
            raise Unrecognised(f"{name} does not derive from EmpiricalSubstitutionModel only")
        if not _super_call_ok(cls):
            raise Unrecognised(f"{name}.__init__ does not end in super().__init__(id_, rates, frequencies)")
        fr = _tensor_literal(aa_src, cls, "frequencies")
        ra = _tensor_literal(aa_src, cls, "rates")
        n = len(fr)
        if len(ra) != n * (n - 1) // 2:
            raise Unrecognised(f"{name}: {len(ra)} rates for {n} frequencies")
        out[name] = (fr, ra)
    dt = ast.parse((repo / "torchtree/evolution/datatype.py").read_text())
    cod = _class(dt, "CodonDataType")
    out["tables"] = _class_tuple(cod, "GENETIC_CODE_TABLES", str)
    out["names"] = _class_tuple(cod, "GENETIC_CODE_NAMES", str)
    out["counts"] = _class_tuple(cod, "NUMBER_OF_CODONS", int)
    out["triplets"] = _class_tuple(cod, "CODON_TRIPLETS", str)
    if not (len(out["tables"]) == len(out["names"]) == len(out["counts"])):
        raise Unrecognised("genetic-code tuples differ in length")
    if len(out["triplets"]) < 64 or any(len(t) != 3 for t in out["triplets"]):
        raise Unrecognised("CODON_TRIPLETS: fewer than 64 triplets or a non-triplet")
    return out


def _emit_numbers(name, vals):
    q = ", ".join(f"({f.numerator}, {f.denominator})" for f, _ in vals)
    b = ", ".join("0x%016x" % bits(x) for _, x in vals)
    return (f"/-- exact value of each source literal as (numerator, denominator) -/\n"
            f"def {name}Q : Array (Int × Nat) := #[{q}]\n"
            f"/-- float64 bit pattern Python gives each source literal -/\n"
            f"def {name}Bits : Array UInt64 := #[{b}]\n")


HEADER = """/-! GENERATED by harness/translators/tr_subst.py from torchtree/evolution/substitution_model/amino_acid.py
and torchtree/evolution/datatype.py on every run of ./check C04 — do not edit. -/
namespace TTGen.C04Tables
"""


def translate(repo: Path):
    """-> (lean source, recognised?, note)"""
    try:
        t = read_tables(repo)
    except (Unrecognised, SyntaxError, OSError) as e:
        src = HEADER + (
            f"/-- the translator could not recognise the source: {str(e)[:150].replace('-/', '- /')} -/\n"
            "def translatorOk : Bool := false\n"
            "def lgFreqQ : Array (Int × Nat) := #[]\ndef lgFreqBits : Array UInt64 := #[]\n"
            "def lgRatesQ : Array (Int × Nat) := #[]\ndef lgRatesBits : Array UInt64 := #[]\n"
            "def wagFreqQ : Array (Int × Nat) := #[]\ndef wagFreqBits : Array UInt64 := #[]\n"
            "def wagRatesQ : Array (Int × Nat) := #[]\ndef wagRatesBits : Array UInt64 := #[]\n"
            "def geneticCodeTables : List (List Char) := []\ndef numberOfCodons : List Nat := []\n"
            "def codonTriplets : List (List Char) := []\n"
            "end TTGen.C04Tables\n")
        return src, False, str(e)
    parts = [HEADER, "def translatorOk : Bool := true\n"]
    parts.append(_emit_numbers("lgFreq", t["LG"][0]))
    parts.append(_emit_numbers("lgRates", t["LG"][1]))
    parts.append(_emit_numbers("wagFreq", t["WAG"][0]))
    parts.append(_emit_numbers("wagRates", t["WAG"][1]))
    parts.append("/-- `CodonDataType.GENETIC_CODE_TABLES` (order of `GENETIC_CODE_NAMES`: "
                 + ", ".join(t["names"]) + ") -/\n")
    parts.append("def geneticCodeTables : List (List Char) := [\n  "
                 + ",\n  ".join(_lean_chars(s) for s in t["tables"]) + "]\n")
    parts.append("/-- `CodonDataType.NUMBER_OF_CODONS` -/\n")
    parts.append("def numberOfCodons : List Nat := [" + ", ".join(str(c) for c in t["counts"]) + "]\n")
    parts.append("/-- `CodonDataType.CODON_TRIPLETS[:64]` -/\n")
    parts.append("def codonTriplets : List (List Char) := [\n  "
                 + ",\n  ".join(_lean_chars(s) for s in t["triplets"][:64]) + "]\n")
    parts.append("end TTGen.C04Tables\n")
    return "".join(parts), True, "ok"


if __name__ == "__main__":
    import sys

    src, ok, note = translate(Path(sys.argv[1] if len(sys.argv) > 1 else "/repo"))
    print(src[:3000])
    print(ok, note, file=sys.stderr)
