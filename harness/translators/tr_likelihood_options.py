"""Translator: TreeLikelihoodModel.__init__ / from_json  ->  lean/TTGen/C01_Options.lean

Reads the AST of `tree_likelihood.py` and emits, as Lean literals,

  ctorParams   : the parameter names of `TreeLikelihoodModel.__init__` (after self), with their defaults
  jsonReads    : for every local variable assigned in `from_json` from the JSON dict: (variable, key read, how, default)
                 how = "get" (data.get(key, default)), "index" (data[key] / process_object(data[key], dic)),
                 "tag" (process_object(data[X.tag], dic)), "guarded-tag" (only `if X.tag in data`)
  ctorCall     : the argument list of the final `cls(...)` call (variable names, positional; keywords as name=var)
  ctorStores   : `self.<attr> = <param>` assignments of `__init__` (attr, param)
  ctorBranch   : which parameter the `if <param>:` choosing compute_tips_states() tests, and which parameter is passed
                 to compute_tips_partials(...)

`TTProps.C01_Options.options_select_named` then proves by `decide` that every option reaches the constructor parameter
of the same name with the documented default and that the branch tests the option it is named after.  Any unrecognised
shape emits `recognised := false` and empty tables so that theorem stops building.
"""
from __future__ import annotations

import ast
from pathlib import Path


class Unrecognised(Exception):
    pass


def lean_str(s):
    return '"' + str(s).replace("\\", "\\\\").replace('"', '\\"') + '"'


def lean_list(xs):
    return "[" + ", ".join(xs) + "]"


def read(repo: Path):
    tree = ast.parse((repo / "torchtree" / "evolution" / "tree_likelihood.py").read_text())
    cls = next((n for n in tree.body if isinstance(n, ast.ClassDef) and n.name == "TreeLikelihoodModel"), None)
    if cls is None:
        raise Unrecognised("class TreeLikelihoodModel not found")
    init = next((n for n in cls.body if isinstance(n, ast.FunctionDef) and n.name == "__init__"), None)
    fj = next((n for n in cls.body if isinstance(n, ast.FunctionDef) and n.name == "from_json"), None)
    if init is None or fj is None:
        raise Unrecognised("__init__ / from_json not found")
    a = init.args
    if a.vararg or a.kwarg or a.kwonlyargs or a.posonlyargs:
        raise Unrecognised("__init__ signature has *args/**kwargs/keyword-only parameters")
    names = [x.arg for x in a.args][1:]
    defaults = [None] * (len(names) - len(a.defaults)) + [ast.unparse(d) for d in a.defaults]
    params = list(zip(names, ["<required>" if d is None else d for d in defaults]))
    # stores and the branch
    stores, branch_test, partial_arg = [], None, None
    for n in ast.walk(init):
        if isinstance(n, ast.Assign) and len(n.targets) == 1 and isinstance(n.targets[0], ast.Attribute) \
                and isinstance(n.targets[0].value, ast.Name) and n.targets[0].value.id == "self" and isinstance(n.value, ast.Name):
            stores.append((n.targets[0].attr, n.value.id))
        if isinstance(n, ast.If) and isinstance(n.test, ast.Name):
            src = ast.unparse(n)
            if "compute_tips_states" in ast.unparse(ast.Module(body=n.body, type_ignores=[])):
                branch_test = n.test.id
                for m in ast.walk(ast.Module(body=n.orelse, type_ignores=[])):
                    if isinstance(m, ast.Call) and ast.unparse(m.func).endswith("compute_tips_partials"):
                        if len(m.args) == 1 and isinstance(m.args[0], ast.Name) and not m.keywords:
                            partial_arg = m.args[0].id
    if branch_test is None or partial_arg is None:
        raise Unrecognised("the `if <flag>: compute_tips_states() else: compute_tips_partials(<flag>)` branch was not found")
    # from_json
    reads, call = [], None

    def key_of(e):
        if isinstance(e, ast.Constant) and isinstance(e.value, str):
            return "const", e.value
        if isinstance(e, ast.Attribute) and e.attr == "tag" and isinstance(e.value, ast.Name):
            return "tag", e.value.id
        raise Unrecognised("JSON key expression " + ast.unparse(e))

    def handle_assign(st, guarded):
        if not (len(st.targets) == 1 and isinstance(st.targets[0], ast.Name)):
            raise Unrecognised("assignment target " + ast.unparse(st))
        var, v = st.targets[0].id, st.value
        if isinstance(v, ast.Constant) and v.value is None:
            reads.append((var, "", "none", "None"))
            return
        if isinstance(v, ast.Call) and ast.unparse(v.func) == "data.get" and len(v.args) == 2:
            kind, key = key_of(v.args[0])
            reads.append((var, key, "get", ast.unparse(v.args[1])))
            return
        if isinstance(v, ast.Subscript) and ast.unparse(v.value) == "data":
            kind, key = key_of(v.slice)
            reads.append((var, key, "index" if kind == "const" else "tag", "<required>"))
            return
        if isinstance(v, ast.Call) and ast.unparse(v.func) == "process_object" and len(v.args) == 2 \
                and isinstance(v.args[0], ast.Subscript) and ast.unparse(v.args[0].value) == "data":
            kind, key = key_of(v.args[0].slice)
            how = ("guarded-" if guarded else "") + ("tag" if kind == "tag" else "index")
            reads.append((var, key, how, "<required>" if not guarded else "None"))
            return
        raise Unrecognised("from_json statement " + ast.unparse(st))

    for st in fj.body:
        if isinstance(st, ast.Expr) and isinstance(st.value, ast.Constant):
            continue
        if isinstance(st, ast.Assign):
            handle_assign(st, False)
        elif isinstance(st, ast.If):
            t = st.test
            if not (isinstance(t, ast.Compare) and len(t.ops) == 1 and isinstance(t.ops[0], ast.In) and ast.unparse(t.comparators[0]) == "data"):
                raise Unrecognised("from_json condition " + ast.unparse(t))
            gk = key_of(t.left)
            if st.orelse or len(st.body) != 1 or not isinstance(st.body[0], ast.Assign):
                raise Unrecognised("from_json guarded block " + ast.unparse(st))
            before = len(reads)
            handle_assign(st.body[0], True)
            if reads[before][1] != gk[1]:
                raise Unrecognised("guard tests another key than the one read: " + ast.unparse(st))
        elif isinstance(st, ast.Return):
            c = st.value
            if not (isinstance(c, ast.Call) and isinstance(c.func, ast.Name) and c.func.id == "cls"):
                raise Unrecognised("from_json return " + ast.unparse(st))
            call = []
            for x in c.args:
                if not isinstance(x, ast.Name):
                    raise Unrecognised("cls(...) argument " + ast.unparse(x))
                call.append(("", x.id))
            for kw in c.keywords:
                if kw.arg is None or not isinstance(kw.value, ast.Name):
                    raise Unrecognised("cls(...) keyword " + ast.unparse(kw))
                call.append((kw.arg, kw.value.id))
        else:
            raise Unrecognised("from_json statement " + ast.unparse(st))
    if call is None:
        raise Unrecognised("no `return cls(...)`")
    # the later assignment of a variable wins (clock_model = None, then guarded read)
    return params, stores, branch_test, partial_arg, reads, call


def translate(repo: Path):
    note, ok = "ok", True
    try:
        params, stores, branch_test, partial_arg, reads, call = read(repo)
    except (Unrecognised, SyntaxError, OSError, StopIteration) as e:
        ok, note = False, f"{type(e).__name__}: {e}"
        params, stores, branch_test, partial_arg, reads, call = [], [], "", "", [], []
    q = lean_str
    lines = [
        "/-! GENERATED by harness/translators/tr_likelihood_options.py from torchtree/evolution/tree_likelihood.py — do not edit.",
        f"    translator note: {note.replace('-/', '- /')[:300]} -/",
        "namespace TTGen.C01_Options",
        "",
        f"def recognised : Bool := {'true' if ok else 'false'}",
        "",
        "/-- parameters of `TreeLikelihoodModel.__init__` after `self`: (name, default or `<required>`) -/",
        "def ctorParams : List (String × String) := " + lean_list(f"({q(n)}, {q(d)})" for n, d in params),
        "",
        "/-- `self.<attr> = <param>` in `__init__` -/",
        "def ctorStores : List (String × String) := " + lean_list(f"({q(a)}, {q(p)})" for a, p in stores),
        "",
        "/-- the parameter tested by `if …: compute_tips_states()`, and the one passed to `compute_tips_partials(…)` -/",
        f"def ctorBranchTest : String := {q(branch_test)}",
        f"def ctorPartialsArg : String := {q(partial_arg)}",
        "",
        "/-- `from_json`: (local variable, JSON key or `.tag` owner, how it is read, default) in statement order -/",
        "def jsonReads : List (String × String × String × String) := " + lean_list(f"({q(v)}, {q(k)}, {q(h)}, {q(d)})" for v, k, h, d in reads),
        "",
        "/-- the `cls(...)` call of `from_json`: (keyword or \"\" for positional, variable passed) -/",
        "def ctorCall : List (String × String) := " + lean_list(f"({q(k)}, {q(v)})" for k, v in call),
        "",
        "end TTGen.C01_Options",
        "",
    ]
    return "\n".join(lines), ok, note


if __name__ == "__main__":
    import os
    import sys

    src, ok, note = translate(Path(os.environ.get("TT_REPO", "/repo")))
    print(src)
    print("--", ok, note, file=sys.stderr)
