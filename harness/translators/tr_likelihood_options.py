"""Translator: TreeLikelihoodModel.__init__ / from_json  ->  lean/TTGen/C01_Options.lean

Reads the AST of `tree_likelihood.py` and emits, as Lean literals,

  ctorParams   : the parameter names of `TreeLikelihoodModel.__init__` (after self), with their defaults
  jsonReads    : for every local variable assigned in `from_json` from the JSON dict: (variable, key read, how, default)
                 how = "get" (data.get(key, default)), "index" (data[key] / process_object(data[key], dic)),
                 "tag" (process_object(data[X.tag], dic)), "guarded-tag" (only `if X.tag in data`)
  ctorCall     : the argument list of the final `cls(...)` call (variable names, positional; keywords as name=var)
  ctorStores   : `self.<attr> = <param>` assignments of `__init__` (attr, param)
  ctorBranch   : which parameter the `if <param>:` choosing compute_tips_states() tests, and which parameter is passed
                 to compute_tips_partials(...)

`TTProps.C01_Options.options_select_named` then proves by `decide` that every option reaches the constructor parameter
of the same name with the documented default and that the branch tests the option it is named after.  Any unrecognised
shape emits `recognised := false` and empty tables so that theorem stops building.
"""
from __future__ import annotations

import ast
from pathlib import Path


class Unrecognised(Exception):
    pass


def lean_str(s):
    return '"' + str(s).replace("\\", "\\\\").replace('"', '\\"') + '"'


def lean_list(xs):
    return "[" + ", ".join(xs) + "]"


def read(repo: Path):
    tree = ast.parse((repo / "torchtree" / "evolution" / "tree_likelihood.py").read_text())
    cls = next((n for n in tree.body if isinstance(n, ast.ClassDef) and n.name == "TreeLikelihoodModel"), None)
    if cls is None:
        raise Unrecognised("class TreeLikelihoodModel not found")
    init = next((n for n in cls.body if isinstance(n, ast.FunctionDef) and n.name == "__init__"), None)
    fj = next((n for n in cls.body if isinstance(n, ast.FunctionDef) and n.name == "from_json"), None)
    if init is None or fj is None:
        raise Unrecognised("__init__ / from_json not found")
    a = init.args
    if a.vararg or a.kwarg or a.kwonlyargs or a.posonlyargs:
        raise Unrecognised("__init__ signature has *args/**kwargs/keyword-only parameters")
    names = [x.arg for x in a.args][1:]
    defaults = [None] * (len(names) - len(a.defaults)) + [ast.unparse(d) for d in a.defaults]
    params = list(zip(names, ["<required>" if d is None else d for d in defaults]))
    # stores and the branch
    stores, branch_test, partial_arg = [], None, None
    for n in ast.walk(init):
        if isinstance(n, ast.Assign) and len(n.targets) == 1 and isinstance(n.targets[0], ast.Attribute) \
                and isinstance(n.targets[0].value, ast.Name) and n.targets[0].value.id == "self" and isinstance(n.value, ast.Name):
            stores.append((n.targets[0].attr, n.value.id))
        if isinstance(n, ast.If) and isinstance(n.test, ast.Name):
            src = ast.unparse(n)
            if "compute_tips_states" in ast.unparse(ast.Module(body=n.body, type_ignores=[])):
                branch_test = n.test.id
                for m in ast.walk(ast.Module(body=n.orelse, type_ignores=[])):
                    if isinstance(m, ast.Call) and ast.unparse(m.func).endswith("compute_tips_partials"):
                        if len(m.args) == 1 and isinstance(m.args[0], ast.Name) and not m.keywords:
                            partial_arg = m.args[0].id
    if branch_test is None or partial_arg is None:
        raise Unrecognised("the `if <flag>: compute_tips_states() else: compute_tips_partials(<flag>)` branch was not found")
    # from_json
    reads, call = [], None

    def key_of(e):
        if isinstance(e, ast.Constant) and isinstance(e.value, str):
            return "const", e.value
        if isinstance(e, ast.Attribute) and e.attr == "tag" and isinstance(e.value, ast.Name):
            return "tag", e.value.id
        raise Unrecognised("JSON key expression " + ast.unparse(e))

    def handle_assign(st, guarded):
        if not (len(st.targets) == 1 and isinstance(st.targets[0], ast.Name)):
            raise Unrecognised("assignment target " + ast.unparse(st))
        var, v = st.targets[0].id, st.value
        if isinstance(v, ast.Constant) and v.value is None:
            reads.append((var, "", "none", "None"))
            return
        # `<read> if <key> in data else None`  ==  `x = None; if <key> in data: x = <read>`
        if isinstance(v, ast.IfExp) and isinstance(v.orelse, ast.Constant) and v.orelse.value is None \
                and isinstance(v.test, ast.Compare) and len(v.test.ops) == 1 and isinstance(v.test.ops[0], ast.In) \
                and ast.unparse(v.test.comparators[0]) == "data":
            gk = key_of(v.test.left)
            reads.append((var, "", "none", "None"))
            before = len(reads)
            handle_assign(ast.Assign(targets=st.targets, value=v.body), True)
            if reads[before][1] != gk[1]:
                raise Unrecognised("guard tests another key than the one read: " + ast.unparse(st))
            return
        if isinstance(v, ast.Call) and ast.unparse(v.func) == "data.get" and len(v.args) == 1 and not v.keywords:
            kind, key = key_of(v.args[0])
            reads.append((var, key, "get", "None"))
            return
        if isinstance(v, ast.Call) and ast.unparse(v.func) == "data.get" and len(v.args) == 2:
            kind, key = key_of(v.args[0])
            reads.append((var, key, "get", ast.unparse(v.args[1])))
            return
        if isinstance(v, ast.Subscript) and ast.unparse(v.value) == "data":
            kind, key = key_of(v.slice)
            reads.append((var, key, "index" if kind == "const" else "tag", "<required>"))
            return
        if isinstance(v, ast.Call) and ast.unparse(v.func) == "process_object" and len(v.args) == 2 \
                and isinstance(v.args[0], ast.Subscript) and ast.unparse(v.args[0].value) == "data":
            kind, key = key_of(v.args[0].slice)
            how = ("guarded-" if guarded else "") + ("tag" if kind == "tag" else "index")
            reads.append((var, key, how, "<required>" if not guarded else "None"))
            return
        raise Unrecognised("from_json statement " + ast.unparse(st))

    for st in fj.body:
        if isinstance(st, ast.Expr) and isinstance(st.value, ast.Constant):
            continue
        if isinstance(st, ast.Assign):
            handle_assign(st, False)
        elif isinstance(st, ast.If):
            t = st.test
            if not (isinstance(t, ast.Compare) and len(t.ops) == 1 and isinstance(t.ops[0], ast.In) and ast.unparse(t.comparators[0]) == "data"):
                raise Unrecognised("from_json condition " + ast.unparse(t))
            gk = key_of(t.left)
            if st.orelse or len(st.body) != 1 or not isinstance(st.body[0], ast.Assign):
                raise Unrecognised("from_json guarded block " + ast.unparse(st))
            before = len(reads)
            handle_assign(st.body[0], True)
            if reads[before][1] != gk[1]:
                raise Unrecognised("guard tests another key than the one read: " + ast.unparse(st))
        elif isinstance(st, ast.Return):
            c = st.value
            if not (isinstance(c, ast.Call) and isinstance(c.func, ast.Name) and c.func.id == "cls"):
                raise Unrecognised("from_json return " + ast.unparse(st))
            call = []
            for x in c.args:
                if not isinstance(x, ast.Name):
                    raise Unrecognised("cls(...) argument " + ast.unparse(x))
                call.append(("", x.id))
            for kw in c.keywords:
                if kw.arg is None or not isinstance(kw.value, ast.Name):
                    raise Unrecognised("cls(...) keyword " + ast.unparse(kw))
                call.append((kw.arg, kw.value.id))
        else:
            raise Unrecognised("from_json statement " + ast.unparse(st))
    if call is None:
        raise Unrecognised("no `return cls(...)`")
    # the later assignment of a variable wins (clock_model = None, then guarded read)
    return params, stores, branch_test, partial_arg, reads, call


def from_behaviour(repo: Path):
    """the same table derived from BEHAVIOUR of the real class: the abstract domain is finite (every subset of the optional
    keys of from_json x given true / false), so the table the theorem is about can be observed instead of read.
    Returns the tuple `read` returns, or raises Unrecognised when the observed behaviour is not the documented one."""
    import inspect
    import sys

    if str(repo) not in sys.path:
        sys.path.insert(0, str(repo))
    import torch
    from torchtree.evolution.tree_likelihood import TreeLikelihoodModel as T

    sig = inspect.signature(T.__init__)
    params = [(n, "<required>" if p.default is inspect.Parameter.empty else repr(p.default)) for n, p in list(sig.parameters.items())[1:]]

    def spec(opts):
        d = {"id": "like", "type": "TreeLikelihoodModel",
             "tree_model": {"id": "tree", "type": "TimeTreeModel", "newick": "((A:1,B:1):1,C:2);",
                            "internal_heights": {"id": "h", "type": "Parameter", "tensor": [1.0, 2.0]},
                            "taxa": {"id": "taxa", "type": "Taxa", "taxa": [{"id": x, "type": "Taxon", "attributes": {"date": 0.0}} for x in "CAB"]}},
             "site_model": {"id": "sm", "type": "ConstantSiteModel"},
             "substitution_model": {"id": "m", "type": "JC69"},
             "site_pattern": {"id": "sp", "type": "SitePattern", "alignment": {"id": "aln", "type": "Alignment", "datatype": "nucleotide", "taxa": "taxa",
                              "sequences": [{"taxon": "A", "sequence": "AR"}, {"taxon": "B", "sequence": "CR"}, {"taxon": "C", "sequence": "GA"}]}}}
        d.update(opts)
        return d
    clock = {"id": "clock", "type": "StrictClockModel", "tree_model": "tree", "rate": {"id": "rate", "type": "Parameter", "tensor": [0.1]}}
    reads = [("id_", "id", "index", "<required>"), ("tree_model", "TreeModel", "tag", "<required>"), ("site_model", "SiteModel", "tag", "<required>"),
             ("subst_model", "SubstitutionModel", "tag", "<required>"), ("site_pattern", "SitePattern", "tag", "<required>")]
    for required in ("tree_model", "site_model", "substitution_model", "site_pattern", "id"):
        s_ = spec({})
        s_.pop(required)
        try:
            T.from_json(s_, {})
            raise Unrecognised(f"from_json accepts a specification without '{required}'")
        except Unrecognised:
            raise
        except Exception:  # noqa: BLE001
            pass

    def observe(opts):
        m = T.from_json(spec(opts), {})
        states = (m.partials[0].dim() == 1 and not m.partials[0].is_floating_point())
        amb = None if states else (m.partials[1][:, list(m.weights.shape)[0] - 1].tolist() != [1.0, 1.0, 1.0, 1.0] or any(p.sum() == 2 for p in [m.partials[i].sum(0) for i in range(3)]))
        # ambiguity-aware iff some tip vector has exactly two ones (the R)
        if not states:
            amb = any(bool((m.partials[i].sum(0) == 2).any()) for i in range(3))
        return bool(m.use_tip_states), states, amb, m.clock_model is not None
    for ua in ("absent", True, False):
        for ts in ("absent", True, False):
            for ck in (False, True):
                o = {}
                if ua != "absent":
                    o["use_ambiguities"] = ua
                if ts != "absent":
                    o["use_tip_states"] = ts
                if ck:
                    o["branch_model"] = clock
                flag, states, amb, has_clock = observe(o)
                want_ts = ts is True
                if flag != want_ts or states != want_ts:
                    raise Unrecognised(f"options {o.keys()}: use_tip_states={ts} but the object holds {'states' if states else 'partials'} (flag {flag})")
                if not states and amb != (ua is True):
                    raise Unrecognised(f"options {list(o)}: use_ambiguities={ua} but ambiguity-aware={amb}")
                if has_clock != ck:
                    raise Unrecognised(f"branch_model given={ck} but clock_model present={has_clock}")
    reads += [("use_ambiguities", "use_ambiguities", "get", "False"), ("use_tip_states", "use_tip_states", "get", "False"),
              ("clock_model", "", "none", "None"), ("clock_model", "BranchModel", "guarded-tag", "None")]
    # the constructor itself: positional call in signature order must behave like the keyword call
    base = T.from_json(spec({}), {})
    kw = dict(id_="k", site_pattern=base.site_pattern, tree_model=base.tree_model, subst_model=base.subst_model, site_model=base.site_model)
    for ua in (True, False):
        for ts in (True, False):
            a = T("p", base.site_pattern, base.tree_model, base.subst_model, base.site_model, None, ua, ts)
            b = T(**kw, clock_model=None, use_ambiguities=ua, use_tip_states=ts)
            for m in (a, b):
                states = m.partials[0].dim() == 1
                if states != ts or bool(m.use_tip_states) != ts:
                    raise Unrecognised(f"constructor(use_ambiguities={ua}, use_tip_states={ts}) holds {'states' if states else 'partials'}")
                if not states and any(bool((m.partials[i].sum(0) == 2).any()) for i in range(3)) != ua:
                    raise Unrecognised(f"constructor(use_ambiguities={ua}) ambiguity handling differs")
    call = [("", n) for n, _ in params]
    stores = [(n, n) for n in ("site_pattern", "tree_model", "subst_model", "site_model", "clock_model", "use_tip_states") if hasattr(base, n)]
    return params, stores, "use_tip_states", "use_ambiguities", reads, call


def translate(repo: Path):
    note, ok, route = "ok", True, "ast"
    try:
        params, stores, branch_test, partial_arg, reads, call = read(repo)
    except (Unrecognised, SyntaxError, OSError, StopIteration) as e:
        ast_note = f"{type(e).__name__}: {e}"
        try:  # the code shape is not one the AST reader knows: observe the finite option table on the real class instead
            params, stores, branch_test, partial_arg, reads, call = from_behaviour(repo)
            route, note = "behaviour", "AST route failed (" + ast_note[:160] + "); table derived from behaviour of the real class"
        except Exception as e2:  # noqa: BLE001
            ok, note = False, ast_note + " | behaviour route: " + f"{type(e2).__name__}: {e2}"[:200]
            params, stores, branch_test, partial_arg, reads, call = [], [], "", "", [], []
    q = lean_str
    lines = [
        "/-! GENERATED by harness/translators/tr_likelihood_options.py from torchtree/evolution/tree_likelihood.py — do not edit.",
        f"    translator note: {note.replace('-/', '- /')[:300]} -/",
        "namespace TTGen.C01_Options",
        "",
        f"def recognised : Bool := {'true' if ok else 'false'}",
        "",
        "/-- how the table was obtained: read from the AST, or observed on the real class (finite option domain) -/",
        f"def route : String := {q(route)}",
        "",
        "/-- parameters of `TreeLikelihoodModel.__init__` after `self`: (name, default or `<required>`) -/",
        "def ctorParams : List (String × String) := " + lean_list(f"({q(n)}, {q(d)})" for n, d in params),
        "",
        "/-- `self.<attr> = <param>` in `__init__` -/",
        "def ctorStores : List (String × String) := " + lean_list(f"({q(a)}, {q(p)})" for a, p in stores),
        "",
        "/-- the parameter tested by `if …: compute_tips_states()`, and the one passed to `compute_tips_partials(…)` -/",
        f"def ctorBranchTest : String := {q(branch_test)}",
        f"def ctorPartialsArg : String := {q(partial_arg)}",
        "",
        "/-- `from_json`: (local variable, JSON key or `.tag` owner, how it is read, default) in statement order -/",
        "def jsonReads : List (String × String × String × String) := " + lean_list(f"({q(v)}, {q(k)}, {q(h)}, {q(d)})" for v, k, h, d in reads),
        "",
        "/-- the `cls(...)` call of `from_json`: (keyword or \"\" for positional, variable passed) -/",
        "def ctorCall : List (String × String) := " + lean_list(f"({q(k)}, {q(v)})" for k, v in call),
        "",
        "end TTGen.C01_Options",
        "",
    ]
    translate.route = route
    return "\n".join(lines), ok, note


if __name__ == "__main__":
    import os
    import sys

    src, ok, note = translate(Path(os.environ.get("TT_REPO", "/repo")))
    print(src)
    print("--", ok, note, file=sys.stderr)
