"""Translator: torchtree/core/parameter_utils.py:save_parameters  ->  lean/TTGen/C18_SavePlan.lean

Reads the function's AST and emits a `TT.FS.Prog` (continuation-passing tree of file-system
operations and `if` tests).  Recognised statement shapes:

  with open(P, 'w') as fp: json.dump(..., fp, ...)     -> openTrunc P; writeChunk P; finishWrite P
  os.rename(A, B) / os.replace(A, B)                   -> rename A B
  os.remove(A) / os.unlink(A)                          -> remove A
  if C: ... else: ...                                  -> ite C ... ...
  X = <expr>                                           -> local alias (path, condition or string)
  return                                               -> end of the (inlined) function
  helper(...) defined in the same module               -> inlined (parameters bound symbolically, depth <= 4)
  logger / logging / warnings calls, docstring, pass   -> skipped

Path expressions: file_name, file_name + '.new', file_name + '.old', with the suffixes also as module-level string
constants, through os.fspath/str, or aliases of them.
Conditions: safely, overwrite, not/and/or, os.path.lexists/exists/isfile(P).

Anything else is *unrecognised*: the emitted program is then the trivially unsafe
`openTrunc name` so that the C18 theorems do not build and the check falls through to its
failing-input search on the real code; the reason is recorded in the file header.
"""
from __future__ import annotations

import ast
from pathlib import Path


class Unrecognised(Exception):
    pass


SUFFIX = {"": ".name", ".new": ".new", ".old": ".old"}
NOOP_CALL_PREFIXES = ("_logger.", "logger.", "logging.", "_log.", "log.", "warnings.")
IDENTITY_CALLS = ("os.fspath", "str", "os.fsdecode")
MAX_INLINE_DEPTH = 4


def dotted(e):
    if isinstance(e, ast.Attribute):
        b = dotted(e.value)
        return None if b is None else b + "." + e.attr
    if isinstance(e, ast.Name):
        return e.id
    return None


class Ctx:
    """module-level knowledge: string constants and functions that may be inlined"""

    def __init__(self, tree):
        self.consts, self.funcs = {}, {}
        for n in tree.body:
            if isinstance(n, ast.Assign) and len(n.targets) == 1 and isinstance(n.targets[0], ast.Name) \
                    and isinstance(n.value, ast.Constant) and isinstance(n.value.value, str):
                self.consts[n.targets[0].id] = n.value.value
            if isinstance(n, ast.AnnAssign) and isinstance(n.target, ast.Name) and isinstance(n.value, ast.Constant) \
                    and isinstance(n.value.value, str):
                self.consts[n.target.id] = n.value.value
            if isinstance(n, ast.FunctionDef):
                self.funcs[n.name] = n


def ev(e, env, ctx):
    """symbolic value of an expression: ("path", p) | ("cond", c) | ("str", s) | ("unknown", source)"""
    if isinstance(e, ast.Name):
        if e.id in env:
            return env[e.id]
        if e.id in ctx.consts:
            return ("str", ctx.consts[e.id])
        return ("unknown", e.id)
    if isinstance(e, ast.Constant):
        if isinstance(e.value, str):
            return ("str", e.value)
        if e.value is True:
            return ("cond", ".tt")
        if e.value is False:
            return ("cond", "(.not .tt)")
        return ("unknown", repr(e.value))
    if isinstance(e, ast.BinOp) and isinstance(e.op, ast.Add):
        a, b = ev(e.left, env, ctx), ev(e.right, env, ctx)
        if a == ("path", ".name") and b[0] == "str" and b[1] in SUFFIX:
            return ("path", SUFFIX[b[1]])
        if a[0] == "str" and b[0] == "str":
            return ("str", a[1] + b[1])
        return ("unknown", ast.unparse(e))
    if isinstance(e, ast.JoinedStr):  # f"{file_name}.new"
        vals = e.values
        if len(vals) == 2 and isinstance(vals[0], ast.FormattedValue) and ev(vals[0].value, env, ctx) == ("path", ".name") \
                and isinstance(vals[1], ast.Constant) and vals[1].value in SUFFIX:
            return ("path", SUFFIX[vals[1].value])
        return ("unknown", ast.unparse(e))
    if isinstance(e, ast.UnaryOp) and isinstance(e.op, ast.Not):
        v = ev(e.operand, env, ctx)
        return ("cond", f"(.not {v[1]})") if v[0] == "cond" else ("unknown", ast.unparse(e))
    if isinstance(e, ast.BoolOp):
        vals = [ev(v, env, ctx) for v in e.values]
        if all(v[0] == "cond" for v in vals):
            op = ".and" if isinstance(e.op, ast.And) else ".or"
            out = vals[-1][1]
            for v in reversed(vals[:-1]):
                out = f"({op} {v[1]} {out})"
            return ("cond", out)
        return ("unknown", ast.unparse(e))
    if isinstance(e, ast.Call):
        f = dotted(e.func)
        if f in IDENTITY_CALLS and len(e.args) == 1 and not e.keywords:
            return ev(e.args[0], env, ctx)
        if f in ("os.path.lexists", "os.path.exists", "os.path.isfile") and len(e.args) == 1:
            v = ev(e.args[0], env, ctx)
            if v[0] == "path":
                return ("cond", f"(.pathExists {v[1]})")
    return ("unknown", ast.unparse(e))


def want(kind, e, env, ctx):
    v = ev(e, env, ctx)
    if v[0] != kind:
        raise Unrecognised(f"{kind} expression {ast.unparse(e)}")
    return v[1]


def is_dump_body(body, fp):
    for st in body:
        if not (isinstance(st, ast.Expr) and isinstance(st.value, ast.Call)):
            return False
        f = dotted(st.value.func)
        if f == "json.dump":
            if not any(isinstance(a, ast.Name) and a.id == fp for a in st.value.args):
                return False
        elif f in (fp + ".write", fp + ".flush") or f == "os.fsync":
            pass  # more chunks / pushing data towards the disk: no new file-system state in the model
        else:
            return False
    return True


def bind_call(fn, call, env, ctx):
    """environment of an inlined call: parameters bound to the symbolic values of the arguments"""
    params = [a.arg for a in fn.args.args]
    if fn.args.vararg or fn.args.kwarg or fn.args.posonlyargs or fn.args.kwonlyargs:
        raise Unrecognised("signature of " + fn.name)
    new = {}
    defaults = dict(zip(params[len(params) - len(fn.args.defaults):], fn.args.defaults))
    for name, a in zip(params, call.args):
        new[name] = ev(a, env, ctx)
    for kw in call.keywords:
        if kw.arg is None or kw.arg not in params:
            raise Unrecognised("call " + ast.unparse(call))
        new[kw.arg] = ev(kw.value, env, ctx)
    for name in params:
        if name not in new:
            if name not in defaults:
                raise Unrecognised("call " + ast.unparse(call))
            new[name] = ev(defaults[name], {}, ctx)
    return new


def tr_block(stmts, cont, env, ctx, ret, depth=0):
    """cont: program run after this block; ret: program run after a `return`"""
    if not stmts:
        return cont
    st, rest = stmts[0], stmts[1:]
    go = lambda e=env: tr_block(rest, cont, e, ctx, ret, depth)  # noqa: E731
    if isinstance(st, ast.Expr) and isinstance(st.value, ast.Constant):
        return go()
    if isinstance(st, ast.Pass):
        return go()
    if isinstance(st, ast.Return):
        if st.value is not None and not (isinstance(st.value, ast.Constant) and st.value.value is None):
            raise Unrecognised("return with a value")
        return ret
    if isinstance(st, ast.Assign) and len(st.targets) == 1 and isinstance(st.targets[0], ast.Name):
        return go({**env, st.targets[0].id: ev(st.value, env, ctx)})
    if isinstance(st, ast.AnnAssign) and isinstance(st.target, ast.Name) and st.value is not None:
        return go({**env, st.target.id: ev(st.value, env, ctx)})
    if isinstance(st, ast.If):
        k = go()
        c = want("cond", st.test, env, ctx)
        return (f"(.ite {c}\n  {tr_block(st.body, k, env, ctx, ret, depth)}\n  "
                f"{tr_block(st.orelse, k, env, ctx, ret, depth)})")
    if isinstance(st, ast.With) and len(st.items) == 1:
        it = st.items[0]
        call = it.context_expr
        if (isinstance(call, ast.Call) and dotted(call.func) == "open" and len(call.args) >= 2
                and isinstance(call.args[1], ast.Constant) and call.args[1].value == "w"
                and isinstance(it.optional_vars, ast.Name) and is_dump_body(st.body, it.optional_vars.id)):
            p = want("path", call.args[0], env, ctx)
            return f"(.seq (.openTrunc {p}) (.seq (.writeChunk {p}) (.seq (.finishWrite {p}) {go()})))"
        raise Unrecognised("with statement " + ast.unparse(st)[:80])
    if isinstance(st, ast.Expr) and isinstance(st.value, ast.Call):
        f = dotted(st.value.func) or ""
        a = st.value.args
        if f in ("os.rename", "os.replace") and len(a) == 2:
            return f"(.seq (.rename {want('path', a[0], env, ctx)} {want('path', a[1], env, ctx)}) {go()})"
        if f in ("os.remove", "os.unlink") and len(a) == 1:
            return f"(.seq (.remove {want('path', a[0], env, ctx)}) {go()})"
        if f.startswith(NOOP_CALL_PREFIXES):
            return go()
        if f in ctx.funcs and depth < MAX_INLINE_DEPTH:  # a helper defined in the same module: inline its body
            fn = ctx.funcs[f]
            k = go()
            return tr_block(fn.body, k, bind_call(fn, st.value, env, ctx), ctx, k, depth + 1)
    raise Unrecognised("statement " + ast.unparse(st)[:80])


def find_definition(repo: Path, name: str = "save_parameters", start: str = "torchtree/core/parameter_utils.py", hops: int = 3):
    """(path, module AST, FunctionDef) of `name`, following `from <module> import name` re-exports from `start`"""
    path = repo / start
    for _ in range(hops + 1):
        tree = ast.parse(path.read_text())
        for n in tree.body:
            if isinstance(n, ast.FunctionDef) and n.name == name:
                return path, tree, n
        nxt = None
        for n in tree.body:
            if isinstance(n, ast.ImportFrom) and any(a.name == name and a.asname in (None, name) for a in n.names):
                if n.level:  # relative import
                    base = path.parent
                    for _i in range(n.level - 1):
                        base = base.parent
                    nxt = base.joinpath(*((n.module or "").split("."))) if n.module else base
                else:
                    nxt = repo.joinpath(*n.module.split("."))
                nxt = nxt.with_suffix(".py") if nxt.with_suffix(".py").exists() else nxt / "__init__.py"
        if nxt is None or not nxt.exists():
            break
        path = nxt
    raise Unrecognised(f"definition of {name} not found from {start}")


def translate(repo: Path):
    """returns (lean_source, ok, note)"""
    src_path = repo / "torchtree" / "core" / "parameter_utils.py"
    note = ""
    try:
        src_path, tree, fn = find_definition(repo)
        args = [a.arg for a in fn.args.args]
        if len(args) < 2 or "safely" not in args or "overwrite" not in args:
            raise Unrecognised("signature " + str(args))
        defaults = dict(zip(args[-len(fn.args.defaults):], fn.args.defaults))
        for flag, want in (("safely", True), ("overwrite", False)):
            d = defaults.get(flag)
            if not (isinstance(d, ast.Constant) and d.value is want):
                raise Unrecognised(f"default of {flag} is not {want}")
        env = {args[0]: ("path", ".name"), "safely": ("cond", ".safely"), "overwrite": ("cond", ".overwrite")}
        prog = tr_block(fn.body, ".done", env, Ctx(tree), ".done")
        ok = True
    except (Unrecognised, StopIteration, SyntaxError, OSError) as e:
        ok = False
        note = f"UNRECOGNISED: {type(e).__name__}: {e}"
        prog = "(.seq (.openTrunc .name) .done)"
    lean = (
        "import TTModel.FS\n"
        "/-! GENERATED by harness/translators/tr_saveparams.py from\n"
        "    torchtree/core/parameter_utils.py:save_parameters — do not edit.\n"
        f"    {note}\n-/\n"
        "namespace TTGen.C18_SavePlan\nopen TT.FS\n\n"
        f"def translatorOk : Bool := {'true' if ok else 'false'}\n\n"
        f"def prog : Prog :=\n  {prog}\n\n"
        "end TTGen.C18_SavePlan\n"
    )
    return lean, ok, note


if __name__ == "__main__":
    import sys

    print(translate(Path(sys.argv[1] if len(sys.argv) > 1 else "/repo"))[0])
