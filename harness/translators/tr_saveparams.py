"""Translator: torchtree/core/parameter_utils.py:save_parameters  ->  lean/TTGen/C18_SavePlan.lean

Reads the function's AST and emits a `TT.FS.Prog` (continuation-passing tree of file-system
operations and `if` tests).  Recognised statement shapes:

  with open(P, 'w') as fp: json.dump(..., fp, ...)     -> openTrunc P; writeChunk P; finishWrite P
  os.rename(A, B) / os.replace(A, B)                   -> rename A B
  os.remove(A) / os.unlink(A)                          -> remove A
  if C: ... else: ...                                  -> ite C ... ...
  X = <path expr>                                      -> local alias
  docstring / pass                                     -> skipped

Path expressions: file_name, file_name + '.new', file_name + '.old' (or aliases of them).
Conditions: safely, overwrite, not/and/or, os.path.lexists/exists/isfile(P).

Anything else is *unrecognised*: the emitted program is then the trivially unsafe
`openTrunc name` so that the C18 theorems do not build and the check falls through to its
failing-input search on the real code; the reason is recorded in the file header.
"""
from __future__ import annotations

import ast
from pathlib import Path


class Unrecognised(Exception):
    pass


SUFFIX = {"": ".name", ".new": ".new", ".old": ".old"}


def tr_path(e, env, fname):
    if isinstance(e, ast.Name):
        if e.id == fname:
            return ".name"
        if e.id in env:
            return env[e.id]
    if isinstance(e, ast.BinOp) and isinstance(e.op, ast.Add):
        if isinstance(e.left, ast.Name) and e.left.id == fname and isinstance(e.right, ast.Constant):
            if e.right.value in SUFFIX:
                return SUFFIX[e.right.value]
    if isinstance(e, ast.JoinedStr):  # f"{file_name}.new"
        vals = e.values
        if (len(vals) == 2 and isinstance(vals[0], ast.FormattedValue) and isinstance(vals[0].value, ast.Name)
                and vals[0].value.id == fname and isinstance(vals[1], ast.Constant) and vals[1].value in SUFFIX):
            return SUFFIX[vals[1].value]
    raise Unrecognised("path expression " + ast.unparse(e))


def dotted(e):
    if isinstance(e, ast.Attribute):
        b = dotted(e.value)
        return None if b is None else b + "." + e.attr
    if isinstance(e, ast.Name):
        return e.id
    return None


def tr_cond(e, env, fname):
    if isinstance(e, ast.Name) and e.id in ("safely", "overwrite"):
        return "." + e.id
    if isinstance(e, ast.Constant) and e.value is True:
        return ".tt"
    if isinstance(e, ast.UnaryOp) and isinstance(e.op, ast.Not):
        return f"(.not {tr_cond(e.operand, env, fname)})"
    if isinstance(e, ast.BoolOp):
        op = ".and" if isinstance(e.op, ast.And) else ".or"
        parts = [tr_cond(v, env, fname) for v in e.values]
        out = parts[-1]
        for p in reversed(parts[:-1]):
            out = f"({op} {p} {out})"
        return out
    if isinstance(e, ast.Call) and dotted(e.func) in ("os.path.lexists", "os.path.exists", "os.path.isfile"):
        return f"(.pathExists {tr_path(e.args[0], env, fname)})"
    raise Unrecognised("condition " + ast.unparse(e))


def is_dump_body(body, fp):
    for st in body:
        if not (isinstance(st, ast.Expr) and isinstance(st.value, ast.Call)):
            return False
        f = dotted(st.value.func)
        if f == "json.dump":
            if not any(isinstance(a, ast.Name) and a.id == fp for a in st.value.args):
                return False
        elif f == fp + ".write":
            pass
        else:
            return False
    return True


def tr_block(stmts, cont, env, fname):
    if not stmts:
        return cont
    st, rest = stmts[0], stmts[1:]
    if isinstance(st, ast.Expr) and isinstance(st.value, ast.Constant):
        return tr_block(rest, cont, env, fname)
    if isinstance(st, ast.Pass):
        return tr_block(rest, cont, env, fname)
    if isinstance(st, ast.Assign) and len(st.targets) == 1 and isinstance(st.targets[0], ast.Name):
        env = dict(env)
        env[st.targets[0].id] = tr_path(st.value, env, fname)
        return tr_block(rest, cont, env, fname)
    if isinstance(st, ast.If):
        k = tr_block(rest, cont, env, fname)
        c = tr_cond(st.test, env, fname)
        return f"(.ite {c}\n  {tr_block(st.body, k, env, fname)}\n  {tr_block(st.orelse, k, env, fname)})"
    if isinstance(st, ast.With) and len(st.items) == 1:
        it = st.items[0]
        call = it.context_expr
        if (isinstance(call, ast.Call) and dotted(call.func) == "open" and len(call.args) >= 2
                and isinstance(call.args[1], ast.Constant) and call.args[1].value == "w"
                and isinstance(it.optional_vars, ast.Name) and is_dump_body(st.body, it.optional_vars.id)):
            p = tr_path(call.args[0], env, fname)
            k = tr_block(rest, cont, env, fname)
            return f"(.seq (.openTrunc {p}) (.seq (.writeChunk {p}) (.seq (.finishWrite {p}) {k})))"
        raise Unrecognised("with statement " + ast.unparse(st)[:80])
    if isinstance(st, ast.Expr) and isinstance(st.value, ast.Call):
        f = dotted(st.value.func)
        a = st.value.args
        k = lambda: tr_block(rest, cont, env, fname)
        if f in ("os.rename", "os.replace") and len(a) == 2:
            return f"(.seq (.rename {tr_path(a[0], env, fname)} {tr_path(a[1], env, fname)}) {k()})"
        if f in ("os.remove", "os.unlink") and len(a) == 1:
            return f"(.seq (.remove {tr_path(a[0], env, fname)}) {k()})"
    raise Unrecognised("statement " + ast.unparse(st)[:80])


def translate(repo: Path):
    """returns (lean_source, ok, note)"""
    src_path = repo / "torchtree" / "core" / "parameter_utils.py"
    note = ""
    try:
        tree = ast.parse(src_path.read_text())
        fn = next(n for n in ast.walk(tree) if isinstance(n, ast.FunctionDef) and n.name == "save_parameters")
        args = [a.arg for a in fn.args.args]
        if len(args) < 2 or "safely" not in args or "overwrite" not in args:
            raise Unrecognised("signature " + str(args))
        defaults = dict(zip(args[-len(fn.args.defaults):], fn.args.defaults))
        for flag, want in (("safely", True), ("overwrite", False)):
            d = defaults.get(flag)
            if not (isinstance(d, ast.Constant) and d.value is want):
                raise Unrecognised(f"default of {flag} is not {want}")
        prog = tr_block(fn.body, ".done", {}, args[0])
        ok = True
    except (Unrecognised, StopIteration, SyntaxError, OSError) as e:
        ok = False
        note = f"UNRECOGNISED: {type(e).__name__}: {e}"
        prog = "(.seq (.openTrunc .name) .done)"
    lean = (
        "import TTModel.FS\n"
        "/-! GENERATED by harness/translators/tr_saveparams.py from\n"
        "    torchtree/core/parameter_utils.py:save_parameters — do not edit.\n"
        f"    {note}\n-/\n"
        "namespace TTGen.C18_SavePlan\nopen TT.FS\n\n"
        f"def translatorOk : Bool := {'true' if ok else 'false'}\n\n"
        f"def prog : Prog :=\n  {prog}\n\n"
        "end TTGen.C18_SavePlan\n"
    )
    return lean, ok, note


if __name__ == "__main__":
    import sys

    print(translate(Path(sys.argv[1] if len(sys.argv) > 1 else "/repo"))[0])
