"""Translator: torchtree/core/utils.py:process_object  ->  lean/TTGen/C13_LoaderCfg.lean

Reads the dict branch of `process_object` and records, as a `TT.C13.Cfg`, WHERE the
"already exists" test stands relative to construction and registration:

    if id_ in dic: raise JSONParseError(...)        (before `klass.from_json_safe`)  -> checkBefore
    obj = klass.from_json_safe(data, dic)
    if id_ in dic [and dic[id_] is not obj]: raise  (between construction and registration) -> checkAfter
    dic[id_] = obj

Recognised shape: `if isinstance(data, str): … elif isinstance(data, dict): <body> else: raise`,
where <body> contains exactly one construction statement `obj = <x>.from_json_safe(data, dic)`,
exactly one registration `dic[id_] = obj` after it, and any number of guards of the form
`if id_ in dic: raise …` at the top level of <body>.  Anything else (a registration before the
construction, a second registration, an unconditional overwrite under another key, …) is
*unrecognised*: `recognised := false` is emitted and the C13 theorems, which require
`recognised = true` and `cfg = Cfg.fixed`, stop building; the check then searches the real
loader for a failing specification.
"""
from __future__ import annotations

import ast
from pathlib import Path


class Unrecognised(Exception):
    pass


def _is_id_in_dic(test, id_name, dic_name):
    return (
        isinstance(test, ast.Compare)
        and isinstance(test.left, ast.Name)
        and test.left.id == id_name
        and len(test.ops) == 1
        and isinstance(test.ops[0], ast.In)
        and isinstance(test.comparators[0], ast.Name)
        and test.comparators[0].id == dic_name
    )


def _is_held_by_other(test, id_name, dic_name, obj_name):
    """`id_ in dic and dic[id_] is not obj` — the id is held by a DIFFERENT object (an object whose
    from_json registered itself is let through); for classes that do not self-register this is `id_ in dic`"""
    if not (isinstance(test, ast.BoolOp) and isinstance(test.op, ast.And) and len(test.values) == 2):
        return False
    a, b = test.values
    return (
        _is_id_in_dic(a, id_name, dic_name)
        and isinstance(b, ast.Compare) and len(b.ops) == 1 and isinstance(b.ops[0], ast.IsNot)
        and isinstance(b.left, ast.Subscript) and isinstance(b.left.value, ast.Name) and b.left.value.id == dic_name
        and isinstance(b.left.slice, ast.Name) and b.left.slice.id == id_name
        and isinstance(b.comparators[0], ast.Name) and obj_name is not None and b.comparators[0].id == obj_name
    )


def _only_raises(body):
    return len(body) >= 1 and isinstance(body[-1], ast.Raise) and all(
        isinstance(s, (ast.Raise, ast.Expr)) for s in body
    )


def analyse(src: str):
    tree = ast.parse(src)
    fn = next((n for n in tree.body if isinstance(n, ast.FunctionDef) and n.name == "process_object"), None)
    if fn is None:
        raise Unrecognised("no function process_object")
    args = [a.arg for a in fn.args.args]
    if len(args) != 2:
        raise Unrecognised("process_object does not take (data, dic)")
    data_name, dic_name = args
    top = [s for s in fn.body if not (isinstance(s, ast.Expr) and isinstance(s.value, ast.Constant))]
    if not (len(top) == 2 and isinstance(top[0], ast.If) and isinstance(top[1], ast.Return)):
        raise Unrecognised("top-level shape is not `if … elif … else` + return")
    first = top[0]

    def isinst(test, ty):
        return (
            isinstance(test, ast.Call) and isinstance(test.func, ast.Name) and test.func.id == "isinstance"
            and len(test.args) == 2 and isinstance(test.args[0], ast.Name) and test.args[0].id == data_name
            and isinstance(test.args[1], ast.Name) and test.args[1].id == ty
        )

    if not isinst(first.test, "str"):
        raise Unrecognised("first branch is not isinstance(data, str)")
    if not (len(first.orelse) == 1 and isinstance(first.orelse[0], ast.If) and isinst(first.orelse[0].test, "dict")):
        raise Unrecognised("second branch is not isinstance(data, dict)")
    body = first.orelse[0].body
    # the id variable: `id_ = data["id"]` inside the leading try
    id_name = None
    for s in ast.walk(ast.Module(body=body, type_ignores=[])):
        if (isinstance(s, ast.Assign) and len(s.targets) == 1 and isinstance(s.targets[0], ast.Name)
                and isinstance(s.value, ast.Subscript) and isinstance(s.value.value, ast.Name)
                and s.value.value.id == data_name and isinstance(s.value.slice, ast.Constant)
                and s.value.slice.value == "id"):
            id_name = s.targets[0].id
            break
    if id_name is None:
        raise Unrecognised("no `id_ = data['id']`")
    construct, register, guards = [], [], []
    obj_name = None
    for i, s in enumerate(body):
        if (isinstance(s, ast.Assign) and isinstance(s.value, ast.Call) and isinstance(s.value.func, ast.Attribute)
                and s.value.func.attr == "from_json_safe" and isinstance(s.targets[0], ast.Name)):
            construct.append(i)
            obj_name = s.targets[0].id
        elif (isinstance(s, ast.Assign) and isinstance(s.targets[0], ast.Subscript)
              and isinstance(s.targets[0].value, ast.Name) and s.targets[0].value.id == dic_name):
            tgt = s.targets[0].slice
            if not (isinstance(tgt, ast.Name) and tgt.id == id_name and isinstance(s.value, ast.Name)):
                raise Unrecognised("registration under something else than id_: " + ast.unparse(s))
            register.append((i, s.value.id))
        elif isinstance(s, ast.If) and _is_id_in_dic(s.test, id_name, dic_name) and _only_raises(s.body) and not s.orelse:
            guards.append(i)
        elif (isinstance(s, ast.If) and construct and _is_held_by_other(s.test, id_name, dic_name, obj_name)
              and _only_raises(s.body) and not s.orelse):
            guards.append(i)
    # any other write to dic anywhere in the function
    for n in ast.walk(fn):
        if isinstance(n, (ast.Delete,)):
            raise Unrecognised("del statement in process_object")
        if isinstance(n, ast.Call) and isinstance(n.func, ast.Attribute) and isinstance(n.func.value, ast.Name) \
                and n.func.value.id == dic_name and n.func.attr in ("pop", "update", "setdefault", "clear", "popitem", "__setitem__"):
            raise Unrecognised("mutating call on dic: " + ast.unparse(n))
    n_sub_assign = sum(
        1 for n in ast.walk(fn)
        if isinstance(n, (ast.Assign, ast.AugAssign))
        for t in (n.targets if isinstance(n, ast.Assign) else [n.target])
        if isinstance(t, ast.Subscript) and isinstance(t.value, ast.Name) and t.value.id == dic_name
    )
    if len(construct) != 1 or len(register) != 1 or n_sub_assign != 1:
        raise Unrecognised(f"{len(construct)} construction(s), {n_sub_assign} registration(s)")
    c, (r, regval) = construct[0], register[0]
    if regval != obj_name:
        raise Unrecognised("registers something else than the constructed object")
    if r < c:
        raise Unrecognised("registration precedes construction")
    before = any(g < c for g in guards)
    after = any(c < g < r for g in guards)
    # is the test between construction and registration of the form `… and dic[id_] is not obj` (F01b)?
    identity = any(c < g < r and _is_held_by_other(body[g].test, id_name, dic_name, obj_name) for g in guards)
    return before, after, identity


PROCESS = {"process_object", "process_objects", "process_object_with_key"}


def scan_from_json(repo: Path):
    """every class whose from_json touches the registry `dic` DIRECTLY (not through process_object):
    -> (writers, readers, problems)
       writers : [(class, k_test, k_reg)]  number of process_object(s) calls that lexically precede the class's own
                 `if id_ in dic: raise` test and its `dic[id_] = obj` registration (the model assumes k_test == k_reg:
                 the test stands immediately before the registration)
       readers : [class]  classes that read `dic[...]` themselves (a reference resolved without process_object)"""
    writers, readers, problems = [], [], []
    for f in sorted((Path(repo) / "torchtree").rglob("*.py")):
        try:
            tree = ast.parse(f.read_text())
        except SyntaxError as e:
            problems.append(f"{f.name}: {e}")
            continue
        for cls in [n for n in ast.walk(tree) if isinstance(n, ast.ClassDef)]:
            for fn_ in [n for n in cls.body if isinstance(n, ast.FunctionDef) and n.name in ("from_json", "_parse_json")]:
                if len(fn_.args.args) < 2:
                    continue
                dic = fn_.args.args[-1].arg
                calls = sorted((n.lineno, n.col_offset) for n in ast.walk(fn_)
                               if isinstance(n, ast.Call) and isinstance(n.func, ast.Name) and n.func.id in PROCESS)

                def before(node):
                    return sum(1 for c in calls if c < (node.lineno, node.col_offset))

                stores = [n for n in ast.walk(fn_) if isinstance(n, (ast.Assign, ast.AugAssign))
                          for t in (n.targets if isinstance(n, ast.Assign) else [n.target])
                          if isinstance(t, ast.Subscript) and isinstance(t.value, ast.Name) and t.value.id == dic]
                tests = [n for n in ast.walk(fn_) if isinstance(n, ast.If) and isinstance(n.test, ast.Compare)
                         and len(n.test.ops) == 1 and isinstance(n.test.ops[0], ast.In)
                         and isinstance(n.test.comparators[0], ast.Name) and n.test.comparators[0].id == dic]
                loads = [n for n in ast.walk(fn_) if isinstance(n, ast.Subscript) and isinstance(n.ctx, ast.Load)
                         and isinstance(n.value, ast.Name) and n.value.id == dic]
                other = [n for n in ast.walk(fn_) if isinstance(n, ast.Call) and isinstance(n.func, ast.Attribute)
                         and isinstance(n.func.value, ast.Name) and n.func.value.id == dic]
                dels = [n for n in ast.walk(fn_) if isinstance(n, ast.Delete)
                        for t in n.targets if isinstance(t, ast.Subscript) and isinstance(t.value, ast.Name) and t.value.id == dic]
                if other or dels:
                    problems.append(f"{cls.name}.{fn_.name}: method call / del on the registry")
                if stores:
                    if len(stores) != 1 or len(tests) != 1 or not all(isinstance(s_, ast.Raise) for s_ in tests[0].body):
                        problems.append(f"{cls.name}.{fn_.name}: {len(stores)} registry writes, {len(tests)} membership tests")
                        writers.append((cls.name, 99, before(stores[0])))
                    else:
                        key = stores[0].targets[0].slice
                        tkey = tests[0].test.left
                        if not (isinstance(key, ast.Name) and isinstance(tkey, ast.Name) and key.id == tkey.id):
                            problems.append(f"{cls.name}.{fn_.name}: registers under another key than the one it tests")
                        writers.append((cls.name, before(tests[0]), before(stores[0])))
                elif tests:
                    problems.append(f"{cls.name}.{fn_.name}: tests the registry without registering")
                if loads:
                    readers.append(cls.name)
    return sorted(writers), sorted(set(readers)), problems


def translate(repo: Path):
    """-> (lean source, recognised: bool, note)"""
    src = (Path(repo) / "torchtree" / "core" / "utils.py").read_text()
    try:
        before, after, identity = analyse(src)
        ok, note = True, f"checkBefore={before} checkAfter={after} afterIsIdentity={identity}"
    except Unrecognised as e:
        before, after, identity, ok, note = False, False, False, False, f"unrecognised: {e}"
    except SyntaxError as e:
        before, after, identity, ok, note = False, False, False, False, f"unparsable: {e}"
    writers, readers, problems = scan_from_json(repo)
    if problems:
        ok = False
        note += "; from_json scan: " + "; ".join(problems)
    b = lambda x: "true" if x else "false"  # noqa: E731
    lean = (
        "import TTModel.C13_Loader\n"
        "/-! GENERATED by harness/translators/tr_loader.py from torchtree/core/utils.py:process_object — do not edit.\n"
        f"    {note} -/\n"
        "namespace TTGen.C13\n"
        f"def recognised : Bool := {b(ok)}\n"
        f"def cfg : TT.C13.Cfg := ⟨{b(before)}, {b(after)}, {b(identity)}⟩\n"
        "/-- classes whose from_json writes to the registry itself: (class, process_object calls before its own\n"
        "    duplicate test, process_object calls before its registration) -/\n"
        "def dicWriters : List (String × Nat × Nat) := ["
        + ", ".join(f'("{c}", {kt}, {kr})' for c, kt, kr in writers) + "]\n"
        "/-- classes whose from_json reads `dic[...]` itself -/\n"
        "def dicReaders : List String := [" + ", ".join(f'"{c}"' for c in readers) + "]\n"
        "end TTGen.C13\n"
    )
    return lean, ok, note


if __name__ == "__main__":
    import sys

    print(translate(Path(sys.argv[1] if len(sys.argv) > 1 else "/repo"))[0])
