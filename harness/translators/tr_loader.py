"""Translator: torchtree/core/utils.py:process_object  ->  lean/TTGen/C13_LoaderCfg.lean

Reads the dict branch of `process_object` and records, as a `TT.C13.Cfg`, WHERE the
"already exists" test stands relative to construction and registration:

    if id_ in dic: raise JSONParseError(...)        (before `klass.from_json_safe`)  -> checkBefore
    obj = klass.from_json_safe(data, dic)
    if id_ in dic [and dic[id_] is not obj]: raise  (between construction and registration) -> checkAfter
    dic[id_] = obj

Recognised (round 7: by the ORDER OF EVENTS, not by the shape of the source): the path a dict takes
through `process_object` is followed through `if/elif` or early-return dispatch, try blocks and calls
of private helpers of the same module (inlined up to 4 levels; renamed variables are resolved to the
roles data / dic / id / obj; a helper that only raises counts as a raise).  On that path there must be
exactly one construction `… = <x>.from_json_safe(data, dic)`, exactly one registration `dic[id] = obj`
after it, unconditional, and any number of unconditional guards `if id in dic [and dic[id] is not obj]:
raise`.  Anything else (a registration before the construction or under a condition, a second
registration, a registration under another key, a mutating call on the registry, …) is
*unrecognised*: `recognised := false` is emitted and the C13 theorems, which require
`recognised = true` and `cfg = Cfg.fixed`, stop building; the check then searches the real
loader for a failing specification.
"""
from __future__ import annotations

import ast
from pathlib import Path


class Unrecognised(Exception):
    pass


def _is_id_in_dic(test, id_name, dic_name):
    return (
        isinstance(test, ast.Compare)
        and isinstance(test.left, ast.Name)
        and test.left.id == id_name
        and len(test.ops) == 1
        and isinstance(test.ops[0], ast.In)
        and isinstance(test.comparators[0], ast.Name)
        and test.comparators[0].id == dic_name
    )


def _is_held_by_other(test, id_name, dic_name, obj_name):
    """`id_ in dic and dic[id_] is not obj` — the id is held by a DIFFERENT object (an object whose
    from_json registered itself is let through); for classes that do not self-register this is `id_ in dic`"""
    if not (isinstance(test, ast.BoolOp) and isinstance(test.op, ast.And) and len(test.values) == 2):
        return False
    a, b = test.values
    return (
        _is_id_in_dic(a, id_name, dic_name)
        and isinstance(b, ast.Compare) and len(b.ops) == 1 and isinstance(b.ops[0], ast.IsNot)
        and isinstance(b.left, ast.Subscript) and isinstance(b.left.value, ast.Name) and b.left.value.id == dic_name
        and isinstance(b.left.slice, ast.Name) and b.left.slice.id == id_name
        and isinstance(b.comparators[0], ast.Name) and obj_name is not None and b.comparators[0].id == obj_name
    )


def _only_raises(body):
    return len(body) >= 1 and isinstance(body[-1], ast.Raise) and all(
        isinstance(s, (ast.Raise, ast.Expr)) for s in body
    )


class _Trace:
    """ordered events on the path `data` is a dict takes through process_object, private helpers of the module inlined"""

    def __init__(self, funcs):
        self.funcs = funcs
        self.events = []          # (kind, detail) in execution order; kinds: guard, guard-identity, construct, register
        self.depth = 0

    # ---- roles of expressions: 'data' | 'dic' | 'id' | 'obj' | None
    def role(self, e, env):
        if isinstance(e, ast.Name):
            return env.get(e.id)
        if (isinstance(e, ast.Subscript) and self.role(e.value, env) == "data" and isinstance(e.slice, ast.Constant)
                and e.slice.value == "id"):
            return "id"
        if isinstance(e, ast.Call):
            if isinstance(e.func, ast.Attribute) and e.func.attr == "from_json_safe":
                if [self.role(a, env) for a in e.args] != ["data", "dic"] or e.keywords:
                    raise Unrecognised("from_json_safe is not called with (data, dic): " + ast.unparse(e))
                self.events.append(("construct", ast.unparse(e)))
                return "obj"
            if isinstance(e.func, ast.Name) and e.func.id in self.funcs and e.func.id != "process_object":
                return self.inline(self.funcs[e.func.id], e, env)
            if isinstance(e.func, ast.Attribute) and self.role(e.func.value, env) == "dic" and e.func.attr in (
                    "pop", "update", "setdefault", "clear", "popitem", "__setitem__", "__delitem__"):
                raise Unrecognised("mutating call on dic: " + ast.unparse(e))
        return None

    def never_returns(self, body):
        """every path through `body` ends in a raise (a raise statement, or a call of a module function that never returns)"""
        if not body:
            return False
        last = body[-1]
        if isinstance(last, ast.Raise):
            return True
        if isinstance(last, ast.Expr) and isinstance(last.value, ast.Call) and isinstance(last.value.func, ast.Name) \
                and last.value.func.id in self.funcs:
            return self.never_returns(self.funcs[last.value.func.id].body)
        if isinstance(last, ast.If) and last.orelse:
            return self.never_returns(last.body) and self.never_returns(last.orelse)
        return False

    def inline(self, fn, call, env):
        """walk the body of a module-level helper with its parameters bound to the roles of the arguments; returns the role
        of what it returns (a single role over all return statements, else None)"""
        if self.depth >= 4:
            raise Unrecognised("helpers nested deeper than 4")
        params = [a.arg for a in fn.args.args]
        new = {}
        for prm, a in zip(params, call.args):
            new[prm] = self.role(a, env)
        for kw in call.keywords:
            if kw.arg in params:
                new[kw.arg] = self.role(kw.value, env)
        self.depth += 1
        rets = []
        self.walk(fn.body, new, rets)
        self.depth -= 1
        roles = {r for r in rets}
        return roles.pop() if len(roles) == 1 else None

    def is_guard(self, test, env):
        """-> 'guard' for `id in dic`, 'guard-identity' for `id in dic and dic[id] is not obj`, else None"""
        def id_in_dic(t):
            return (isinstance(t, ast.Compare) and len(t.ops) == 1 and isinstance(t.ops[0], ast.In)
                    and self.role(t.left, env) == "id" and self.role(t.comparators[0], env) == "dic")
        if id_in_dic(test):
            return "guard"
        if isinstance(test, ast.BoolOp) and isinstance(test.op, ast.And) and len(test.values) == 2:
            a, b = test.values
            if (id_in_dic(a) and isinstance(b, ast.Compare) and len(b.ops) == 1 and isinstance(b.ops[0], ast.IsNot)
                    and isinstance(b.left, ast.Subscript) and self.role(b.left.value, env) == "dic"
                    and self.role(b.left.slice, env) == "id" and self.role(b.comparators[0], env) == "obj"):
                return "guard-identity"
        return None

    def isinstance_of(self, test, env):
        if (isinstance(test, ast.Call) and isinstance(test.func, ast.Name) and test.func.id == "isinstance"
                and len(test.args) == 2 and self.role(test.args[0], env) == "data" and isinstance(test.args[1], ast.Name)):
            return test.args[1].id
        return None

    def conditional(self, stmts, env, rets, what):
        n = len(self.events)
        self.walk(stmts, env, rets)
        if any(k in ("construct", "register") for k, _ in self.events[n:]):
            raise Unrecognised(f"construction / registration under {what}")
        del self.events[n:]       # a guard that only holds under a condition is not counted

    def walk(self, stmts, env, rets):
        for s in stmts:
            if isinstance(s, ast.Expr) and isinstance(s.value, ast.Constant):
                continue
            if isinstance(s, ast.Delete):
                raise Unrecognised("del statement in process_object")
            if isinstance(s, ast.If):
                ty = self.isinstance_of(s.test, env)
                if ty == "str":
                    # the reference branch: must not write to the registry (checked), nothing else is read from it
                    n = len(self.events)
                    self.walk(s.body, dict(env), [])
                    if len(self.events) != n:
                        raise Unrecognised("the reference branch constructs / registers / tests ids")
                    self.walk(s.orelse, env, rets)
                    continue
                if ty == "dict":
                    self.walk(s.body, env, rets)
                    # the else branch is the `not valid` error; it must not construct or register
                    self.conditional(s.orelse, dict(env), [], "the not-a-dict branch")
                    continue
                g = self.is_guard(s.test, env)
                if g and not s.orelse and self.never_returns(s.body):
                    self.events.append((g, ast.unparse(s.test)))
                    continue
                self.role(s.test, env)
                self.conditional(s.body, dict(env), rets, "a condition: " + ast.unparse(s.test)[:60])
                self.conditional(s.orelse, dict(env), rets, "a condition: not " + ast.unparse(s.test)[:60])
                continue
            if isinstance(s, (ast.For, ast.While, ast.With)):
                self.conditional(s.body + getattr(s, "orelse", []), dict(env), rets, "a loop / with block")
                continue
            if isinstance(s, ast.Try):
                self.walk(s.body, env, rets)
                for h in s.handlers:
                    self.conditional(h.body, dict(env), rets, "an except clause")
                self.walk(s.orelse, env, rets)
                self.walk(s.finalbody, env, rets)
                continue
            if isinstance(s, ast.Return):
                rets.append(self.role(s.value, env) if s.value is not None else None)
                continue
            if isinstance(s, (ast.Assign, ast.AnnAssign, ast.AugAssign)):
                targets = s.targets if isinstance(s, ast.Assign) else [s.target]
                value = s.value
                r = self.role(value, env) if value is not None else None
                for t in targets:
                    if isinstance(t, ast.Name):
                        env[t.id] = r
                    elif isinstance(t, ast.Subscript) and self.role(t.value, env) == "dic":
                        self.events.append(("register", (self.role(t.slice, env), r, ast.unparse(s))))
                    elif isinstance(t, (ast.Tuple, ast.List)):
                        for el in t.elts:
                            if isinstance(el, ast.Name):
                                env[el.id] = None
                continue
            if isinstance(s, ast.Expr):
                self.role(s.value, env)
                continue
            if isinstance(s, ast.Raise):
                return
            # anything else (nested def, global, …) is not expected on this path
            if isinstance(s, (ast.FunctionDef, ast.ClassDef, ast.Global, ast.Nonlocal)):
                raise Unrecognised("unexpected statement: " + type(s).__name__)


def _dispatch_type(dec, entry):
    """`@<entry>.register(T)` -> 'T'; `@<entry>.register` (type taken from the annotation) -> True; else None"""
    if isinstance(dec, ast.Call) and isinstance(dec.func, ast.Attribute) and dec.func.attr == "register" \
            and isinstance(dec.func.value, ast.Name) and dec.func.value.id == entry and len(dec.args) == 1:
        a = dec.args[0]
        return a.id if isinstance(a, ast.Name) else ast.unparse(a)
    if isinstance(dec, ast.Attribute) and dec.attr == "register" and isinstance(dec.value, ast.Name) and dec.value.id == entry:
        return True
    return None


def _is_singledispatch(fn):
    return any((isinstance(d, ast.Attribute) and d.attr == "singledispatch") or (isinstance(d, ast.Name) and d.id == "singledispatch")
               for d in fn.decorator_list)


def locate(repo: Path, rel: str, name: str, hops: int = 3):
    """the module (path, ast) that DEFINES the top-level function `name`, following re-exports
    (`from pkg.mod import name [as alias]`, `from . import`, `alias = name`) up to `hops` modules away"""
    repo = Path(repo)
    path = repo / rel
    for _ in range(hops + 1):
        tree = ast.parse(path.read_text())
        if any(isinstance(n, ast.FunctionDef) and n.name == name for n in tree.body):
            return path, tree
        nxt = None
        for n in tree.body:
            if isinstance(n, ast.ImportFrom):
                for al in n.names:
                    if (al.asname or al.name) == name:
                        mod = n.module or ""
                        if n.level:
                            base = path.parent
                            for _i in range(n.level - 1):
                                base = base.parent
                            cand = base / (mod.replace(".", "/")) if mod else base
                        else:
                            cand = repo / mod.replace(".", "/")
                        nxt = (cand.with_suffix(".py") if cand.with_suffix(".py").exists() else cand / "__init__.py", al.name)
            elif isinstance(n, ast.Assign) and len(n.targets) == 1 and isinstance(n.targets[0], ast.Name) \
                    and n.targets[0].id == name and isinstance(n.value, ast.Name):
                name = n.value.id
                nxt = (path, name)
        if nxt is None or not Path(nxt[0]).exists():
            raise Unrecognised(f"no function {name} in {path.name} and no re-export to follow")
        path, name = Path(nxt[0]), nxt[1]
    raise Unrecognised(f"{name}: re-exported through more than {hops} modules")


def analyse(src, entry: str = "process_object"):
    """-> (checkBefore, checkAfter, afterIsIdentity).  `src`: source text or a parsed module.  The path a dict takes through
    `process_object` is followed through private helpers of the same module (inlined up to 4 levels, early returns, roles of
    renamed variables resolved): what counts is the ORDER of the events `id in dic -> raise`,
    `obj = klass.from_json_safe(data, dic)`, `dic[id] = obj`, not the shape of the source.  A `functools.singledispatch`
    entry point is read as the isinstance chain it stands for: the implementation registered for `str` is the reference
    branch, the one for `dict` the definition branch, the undecorated default (and any other registered type) the else
    branch."""
    tree = ast.parse(src) if isinstance(src, str) else src
    funcs = {n.name: n for n in tree.body if isinstance(n, ast.FunctionDef)}
    fn = funcs.get(entry)
    if fn is None:
        raise Unrecognised("no function " + entry)
    args = [a.arg for a in fn.args.args]
    if len(args) != 2:
        raise Unrecognised("process_object does not take (data, dic)")
    tr = _Trace(funcs)
    rets = []
    if _is_singledispatch(fn):
        impls = {}
        for g in tree.body:
            if isinstance(g, ast.FunctionDef) and g is not fn:
                for d in g.decorator_list:
                    t = _dispatch_type(d, entry)
                    if t is True:
                        ann = g.args.args[0].annotation if g.args.args else None
                        t = ann.id if isinstance(ann, ast.Name) else None
                    if t:
                        impls.setdefault(t, []).append(g)
        if any(len(v) != 1 for v in impls.values()) or "dict" not in impls:
            raise Unrecognised("singledispatch: no unique implementation registered for dict")
        # later registrations elsewhere (`process_object.register(T, f)` as a call) would change the dispatch
        for n in ast.walk(tree):
            if isinstance(n, ast.Call) and isinstance(n.func, ast.Attribute) and n.func.attr == "register" \
                    and isinstance(n.func.value, ast.Name) and n.func.value.id == entry and len(n.args) == 2:
                raise Unrecognised("singledispatch: implementation registered by a call")
        for t, (g,) in impls.items():
            prm = [a.arg for a in g.args.args]
            if len(prm) != 2:
                raise Unrecognised(f"singledispatch implementation {g.name} does not take (data, dic)")
            env = {prm[0]: "data", prm[1]: "dic"}
            if t == "dict":
                tr.walk(g.body, env, rets)
            else:
                n = len(tr.events)
                tr.walk(g.body, env, [])
                if len(tr.events) != n:
                    raise Unrecognised(f"the branch for {t} constructs / registers / tests ids")
        tr.conditional(fn.body, {args[0]: "data", args[1]: "dic"}, [], "the default (not str, not dict) implementation")
    else:
        tr.walk(fn.body, {args[0]: "data", args[1]: "dic"}, rets)
    ev = tr.events
    construct = [i for i, (k, _) in enumerate(ev) if k == "construct"]
    register = [i for i, (k, _) in enumerate(ev) if k == "register"]
    if len(construct) != 1 or len(register) != 1:
        raise Unrecognised(f"{len(construct)} construction(s), {len(register)} registration(s)")
    c, r = construct[0], register[0]
    key, val, text = ev[r][1]
    if key != "id":
        raise Unrecognised("registration under something else than id_: " + text)
    if val != "obj":
        raise Unrecognised("registers something else than the constructed object")
    if r < c:
        raise Unrecognised("registration precedes construction")
    if "obj" not in rets:
        raise Unrecognised("process_object does not return the constructed object")
    guards = [(i, k) for i, (k, _) in enumerate(ev) if k.startswith("guard")]
    before = any(i < c and k == "guard" for i, k in guards)
    after = any(c < i < r for i, k in guards)
    identity = any(c < i < r and k == "guard-identity" for i, k in guards)
    return before, after, identity


PROCESS = {"process_object", "process_objects", "process_object_with_key"}


def _registry_events(fn_, dic, cls, module_funcs, depth=0):
    """what `fn_` does with the registry `dic`, in source order, helpers that are handed the registry inlined (methods of
    the same class called through cls / the class name / self, functions of the same module): [(kind, node)] with kind in
    process | store | test | load | call | del"""
    out = []
    nodes = sorted((n for n in ast.walk(fn_) if hasattr(n, "lineno")), key=lambda n: (n.lineno, n.col_offset))
    methods = {m.name: m for m in cls.body if isinstance(m, ast.FunctionDef)} if cls is not None else {}
    for n in nodes:
        if isinstance(n, ast.Call):
            if isinstance(n.func, ast.Name) and n.func.id in PROCESS:
                out.append(("process", n))
                continue
            callee = None
            if isinstance(n.func, ast.Name) and n.func.id in module_funcs:
                callee = module_funcs[n.func.id]
            elif (isinstance(n.func, ast.Attribute) and isinstance(n.func.value, ast.Name) and n.func.attr in methods
                  and n.func.value.id in ("cls", "self", cls.name if cls is not None else "")
                  and n.func.attr not in ("from_json", "from_json_safe")):
                callee = methods[n.func.attr]
            if callee is not None and depth < 3 and callee is not fn_:
                params = [a.arg for a in callee.args.args]
                if params and params[0] in ("cls", "self") and not isinstance(n.func, ast.Name):
                    params = params[1:]
                passed = [prm for prm, a in zip(params, n.args) if isinstance(a, ast.Name) and a.id == dic]
                passed += [kw.arg for kw in n.keywords if isinstance(kw.value, ast.Name) and kw.value.id == dic and kw.arg in params]
                if passed:
                    out += _registry_events(callee, passed[0], cls, module_funcs, depth + 1)
                    continue
            if isinstance(n.func, ast.Attribute) and isinstance(n.func.value, ast.Name) and n.func.value.id == dic:
                out.append(("call", n))
        elif isinstance(n, (ast.Assign, ast.AugAssign)):
            for t in (n.targets if isinstance(n, ast.Assign) else [n.target]):
                if isinstance(t, ast.Subscript) and isinstance(t.value, ast.Name) and t.value.id == dic:
                    out.append(("store", n))
        elif isinstance(n, ast.If) and isinstance(n.test, ast.Compare) and len(n.test.ops) == 1 \
                and isinstance(n.test.ops[0], ast.In) and isinstance(n.test.comparators[0], ast.Name) \
                and n.test.comparators[0].id == dic:
            out.append(("test", n))
        elif isinstance(n, ast.Subscript) and isinstance(n.ctx, ast.Load) and isinstance(n.value, ast.Name) and n.value.id == dic:
            out.append(("load", n))
        elif isinstance(n, ast.Delete):
            for t in n.targets:
                if isinstance(t, ast.Subscript) and isinstance(t.value, ast.Name) and t.value.id == dic:
                    out.append(("del", n))
    return out


def scan_from_json(repo: Path):
    """every class whose from_json touches the registry `dic` DIRECTLY (not through process_object):
    -> (writers, readers, problems)
       writers : [(class, k_test, k_reg)]  number of process_object(s) calls that precede (in source order, private helpers
                 that receive the registry inlined) the class's own `if id_ in dic: raise` test and its `dic[id_] = obj`
                 registration (the model assumes k_test == k_reg: the test stands immediately before the registration)
       readers : [class]  classes that read `dic[...]` themselves (a reference resolved without process_object)"""
    writers, readers, problems = [], [], []
    for f in sorted((Path(repo) / "torchtree").rglob("*.py")):
        try:
            tree = ast.parse(f.read_text())
        except SyntaxError as e:
            problems.append(f"{f.name}: {e}")
            continue
        module_funcs = {n.name: n for n in tree.body if isinstance(n, ast.FunctionDef) and n.name not in PROCESS}
        for cls in [n for n in ast.walk(tree) if isinstance(n, ast.ClassDef)]:
            for fn_ in [n for n in cls.body if isinstance(n, ast.FunctionDef) and n.name in ("from_json", "_parse_json")]:
                if len(fn_.args.args) < 2:
                    continue
                dic = fn_.args.args[-1].arg
                ev = _registry_events(fn_, dic, cls, module_funcs)

                def before(i):
                    return sum(1 for k, _ in ev[:i] if k == "process")

                stores = [i for i, (k, _) in enumerate(ev) if k == "store"]
                tests = [i for i, (k, _) in enumerate(ev) if k == "test"]
                if any(k in ("call", "del") for k, _ in ev):
                    problems.append(f"{cls.name}.{fn_.name}: method call / del on the registry")
                if stores:
                    def raises(body):
                        return all(isinstance(s_, ast.Raise) or (isinstance(s_, ast.Expr) and isinstance(s_.value, ast.Call)
                                                                 and isinstance(s_.value.func, ast.Name)
                                                                 and s_.value.func.id in module_funcs
                                                                 and all(isinstance(x, (ast.Raise, ast.Expr)) for x in module_funcs[s_.value.func.id].body)
                                                                 and isinstance(module_funcs[s_.value.func.id].body[-1], ast.Raise))
                                   for s_ in body)
                    if len(stores) != 1 or len(tests) != 1 or not raises(ev[tests[0]][1].body):
                        problems.append(f"{cls.name}.{fn_.name}: {len(stores)} registry writes, {len(tests)} membership tests")
                        writers.append((cls.name, 99, before(stores[0])))
                    else:
                        key = ev[stores[0]][1].targets[0].slice
                        tkey = ev[tests[0]][1].test.left
                        if not (isinstance(key, ast.Name) and isinstance(tkey, ast.Name) and key.id == tkey.id):
                            problems.append(f"{cls.name}.{fn_.name}: registers under another key than the one it tests")
                        writers.append((cls.name, before(tests[0]), before(stores[0])))
                elif tests:
                    problems.append(f"{cls.name}.{fn_.name}: tests the registry without registering")
                if any(k == "load" for k, _ in ev):
                    readers.append(cls.name)
    return sorted(writers), sorted(set(readers)), problems


def translate(repo: Path):
    """-> (lean source, recognised: bool, note)"""
    try:
        where, tree = locate(Path(repo), "torchtree/core/utils.py", "process_object")
        before, after, identity = analyse(tree)
        ok, note = True, f"checkBefore={before} checkAfter={after} afterIsIdentity={identity}"
        if where.name != "utils.py":
            note += f" (process_object is defined in {where.relative_to(Path(repo))}, re-exported by core/utils.py)"
    except Unrecognised as e:
        before, after, identity, ok, note = False, False, False, False, f"unrecognised: {e}"
    except (SyntaxError, OSError) as e:
        before, after, identity, ok, note = False, False, False, False, f"unparsable: {e}"
    writers, readers, problems = scan_from_json(repo)
    if problems:
        ok = False
        note += "; from_json scan: " + "; ".join(problems)
    b = lambda x: "true" if x else "false"  # noqa: E731
    lean = (
        "import TTModel.C13_Loader\n"
        "/-! GENERATED by harness/translators/tr_loader.py from torchtree/core/utils.py:process_object — do not edit.\n"
        f"    {note} -/\n"
        "namespace TTGen.C13\n"
        f"def recognised : Bool := {b(ok)}\n"
        f"def cfg : TT.C13.Cfg := ⟨{b(before)}, {b(after)}, {b(identity)}⟩\n"
        "/-- classes whose from_json writes to the registry itself: (class, process_object calls before its own\n"
        "    duplicate test, process_object calls before its registration) -/\n"
        "def dicWriters : List (String × Nat × Nat) := ["
        + ", ".join(f'("{c}", {kt}, {kr})' for c, kt, kr in writers) + "]\n"
        "/-- classes whose from_json reads `dic[...]` itself -/\n"
        "def dicReaders : List String := [" + ", ".join(f'"{c}"' for c in readers) + "]\n"
        "end TTGen.C13\n"
    )
    return lean, ok, note


if __name__ == "__main__":
    import sys

    print(translate(Path(sys.argv[1] if len(sys.argv) > 1 else "/repo"))[0])
