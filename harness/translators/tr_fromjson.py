"""Translator: BDSKModel / BirthDeathModel (torchtree/evolution/bdsk.py, birth_death.py)  ->  lean/TTGen/C09_Options.lean

Pure AST.  For each class it emits

  * options   : one row per constructor argument that `from_json` fills:
                ⟨constructor parameter, JSON key read, JSON key guarding the read ("" = unconditional),
                 how it is read (object = process_object / Parameter(...), raw = the JSON value itself),
                 what the constructor expects (object when annotated AbstractParameter/TimeTreeModel…, raw for bool…)⟩
  * attrsRead : `self.<name>` read in `_call` / `_sample_shape`
  * attrsDef  : `self.<name>` assigned by `__init__` (own and base classes) + methods/properties of the hierarchy
  * inertHandlers : overridden `handle_model_changed` / `handle_parameter_changed` whose body is only `pass`

Recognised shapes in from_json (anything else -> Unrecognised -> translatorOk := false):
    v = process_object(data[K], dic)             v = data[K]
    optionals[P] = process_object(data[K], dic)  optionals[P] = Parameter(None, data[K])
    optionals[P] = data.get(K, default)          if K in data: <the above>  (also with an isinstance(...) if/else inside)
    optionals = {}   id_ = data['id']            return cls(a, b, …, **optionals)
K is a string constant or `<Class>.tag` (resolved through the class attribute `_tag`).
Behaviour-preserving spellings reduced to the above before reading (round 7): a dict comprehension / for loop over a LITERAL
tuple of keys or over a class-level literal (`cls._FLAG_DEFAULTS`, resolved statically) is unrolled with the loop variables
substituted; `v = data.get(K)` makes `v` an alias of `data[K]` (and `isinstance(v, …)` then implies `K in data`); if/elif chains;
logging / print statements are skipped; `self._helper()` calls are followed when collecting the attributes `_call` reads.
"""
from __future__ import annotations

import ast
import copy
from pathlib import Path

CLASSES = {"BDSKModel": "torchtree/evolution/bdsk.py", "BirthDeathModel": "torchtree/evolution/birth_death.py"}
SEARCH = ("torchtree/core", "torchtree/evolution")
OBJECT_ANN = ("AbstractParameter", "Parameter", "TimeTreeModel", "TreeModel", "CallableModel")


class Unrecognised(Exception):
    pass


def all_classes(repo: Path):
    out = {}
    for d in SEARCH:
        for f in sorted((repo / d).glob("*.py")):
            try:
                tree = ast.parse(f.read_text())
            except SyntaxError:
                continue
            for n in tree.body:
                if isinstance(n, ast.ClassDef):
                    out.setdefault(n.name, n)
    return out


def enum_members(classes):
    """str-valued / plain Enum classes of the scanned modules: {class name: {member: constant}}"""
    out = {}
    for name, c in classes.items():
        if any("Enum" in ast.unparse(b) for b in c.bases):
            out[name] = {t.id: st.value.value for st in c.body if isinstance(st, ast.Assign) and isinstance(st.value, ast.Constant)
                         for t in st.targets if isinstance(t, ast.Name)}
    return out


class ResolveEnums(ast.NodeTransformer):
    """_Key.RHO / _Key.RHO.value -> 'rho' (the members of a str-Enum ARE their values)"""

    def __init__(self, enums):
        self.enums = enums

    def visit_Attribute(self, node):
        if (node.attr == "value" and isinstance(node.value, ast.Attribute) and isinstance(node.value.value, ast.Name)
                and node.value.value.id in self.enums and node.value.attr in self.enums[node.value.value.id]):
            return ast.copy_location(ast.Constant(self.enums[node.value.value.id][node.value.attr]), node)
        if isinstance(node.value, ast.Name) and node.value.id in self.enums and node.attr in self.enums[node.value.id]:
            return ast.copy_location(ast.Constant(self.enums[node.value.id][node.attr]), node)
        self.generic_visit(node)
        return node


def bases_of(classes, name, seen=None):
    seen = seen if seen is not None else []
    if name in seen or name not in classes:
        return seen
    seen.append(name)
    for b in classes[name].bases:
        bn = b.id if isinstance(b, ast.Name) else (b.attr if isinstance(b, ast.Attribute) else None)
        if bn:
            bases_of(classes, bn, seen)
    return seen


def tag_of(classes, cname):
    for c in bases_of(classes, cname):
        for st in classes[c].body:
            if isinstance(st, ast.Assign) and any(isinstance(t, ast.Name) and t.id == "_tag" for t in st.targets):
                if isinstance(st.value, ast.Constant) and isinstance(st.value.value, str):
                    return st.value.value
    raise Unrecognised(f"{cname}.tag cannot be resolved")


def key_of(e, classes):
    """data[K] / 'K' in data: the key expression"""
    if isinstance(e, ast.Constant) and isinstance(e.value, str):
        return e.value
    if isinstance(e, ast.Attribute) and e.attr == "tag" and isinstance(e.value, ast.Name):
        return tag_of(classes, e.value.id)
    raise Unrecognised("key expression " + ast.unparse(e))


MODULE_CLASSES = {}  # every top-level class of the scanned modules (dataclasses holding private state)
ALIASES = {}  # local name -> JSON key it holds (v = data.get(K) / v = data[K]); reset per from_json


def data_keys(e, classes):
    out = [key_of(n.slice, classes) for n in ast.walk(e)
           if isinstance(n, ast.Subscript) and isinstance(n.value, ast.Name) and n.value.id == "data"]
    out += [ALIASES[n.id] for n in ast.walk(e) if isinstance(n, ast.Name) and n.id in ALIASES and isinstance(n.ctx, ast.Load)]
    return out


class Subst(ast.NodeTransformer):
    """replace loop variables by the constants of one iteration"""

    def __init__(self, env):
        self.env = env

    def visit_Name(self, node):
        if isinstance(node.ctx, ast.Load) and node.id in self.env:
            return ast.copy_location(ast.Constant(self.env[node.id]), node)
        return node


def literal_items(e, cls):
    """the elements of a literal tuple/list, or of a class-level literal reached as cls.X / self.X / <Class>.X"""
    if isinstance(e, ast.Attribute) and isinstance(e.value, ast.Name) and e.value.id in ("cls", "self", cls.name):
        for st in cls.body:
            if isinstance(st, ast.Assign) and any(isinstance(t, ast.Name) and t.id == e.attr for t in st.targets):
                return literal_items(st.value, cls)
            if isinstance(st, ast.AnnAssign) and isinstance(st.target, ast.Name) and st.target.id == e.attr and st.value is not None:
                return literal_items(st.value, cls)
        raise Unrecognised("class attribute " + ast.unparse(e))
    if isinstance(e, ast.Call) and ast.unparse(e.func) in ("tuple", "list") and len(e.args) == 1:
        return literal_items(e.args[0], cls)
    if isinstance(e, ast.Call) and isinstance(e.func, ast.Attribute) and e.func.attr == "items" and not e.args:
        d = e.func.value
        if isinstance(d, ast.Attribute):
            name = d.attr
            for st in cls.body:
                if isinstance(st, ast.Assign) and any(isinstance(t, ast.Name) and t.id == name for t in st.targets):
                    d = st.value
                    break
        if isinstance(d, ast.Dict):
            return [(ast.literal_eval(k), ast.literal_eval(v)) for k, v in zip(d.keys, d.values)]
    try:
        v = ast.literal_eval(e)
    except (ValueError, SyntaxError):
        raise Unrecognised("not a literal sequence: " + ast.unparse(e)[:60])
    if isinstance(v, dict):
        return list(v)
    if isinstance(v, (tuple, list)):
        return list(v)
    raise Unrecognised("not a literal sequence: " + ast.unparse(e)[:60])


def bind(target, item):
    if isinstance(target, ast.Name):
        return {target.id: item}
    if isinstance(target, ast.Tuple) and isinstance(item, (tuple, list)) and len(target.elts) == len(item) and all(isinstance(t, ast.Name) for t in target.elts):
        return {t.id: v for t, v in zip(target.elts, item)}
    raise Unrecognised("loop target " + ast.unparse(target))


def is_logging(st):
    if isinstance(st, ast.Expr) and isinstance(st.value, ast.Call):
        f = ast.unparse(st.value.func)
        return f == "print" or f.split(".")[0] in ("logger", "logging", "log", "warnings")
    return False


def read_kind(e, classes):
    """-> (key, kind, default) for a value expression of from_json"""
    if isinstance(e, ast.Call):
        f = ast.unparse(e.func)
        if f in ("process_object", "process_objects") and e.args:
            ks = data_keys(e.args[0], classes)
            if len(ks) == 1:
                return ks[0], "object", ""
        if f == "Parameter" and len(e.args) == 2:
            ks = data_keys(e.args[1], classes)
            if len(ks) == 1:
                return ks[0], "object", ""
        if f == "data.get" and len(e.args) in (1, 2):
            return key_of(e.args[0], classes), "raw", (ast.unparse(e.args[1]) if len(e.args) == 2 else "None")
    if isinstance(e, ast.Subscript):
        ks = data_keys(e, classes)
        if len(ks) == 1 and isinstance(e.value, ast.Name):
            return ks[0], "raw", ""
    raise Unrecognised("value expression " + ast.unparse(e)[:80])


def from_json_rows(cls: ast.ClassDef, classes):
    fn = next((n for n in cls.body if isinstance(n, ast.FunctionDef) and n.name == "from_json"), None)
    init = next((n for n in cls.body if isinstance(n, ast.FunctionDef) and n.name == "__init__"), None)
    if fn is None or init is None:
        raise Unrecognised(f"{cls.name}: from_json/__init__ missing")
    params = [a.arg for a in init.args.args][1:]
    ann = {a.arg: (ast.unparse(a.annotation) if a.annotation else "") for a in init.args.args}
    local = {}  # local variable -> (key, kind, default, guard)
    rows = []  # (param, key, guard, kind)

    ALIASES.clear()

    def unrolled(target, iterable, body_of):
        out = []
        for item in literal_items(iterable, cls):
            env = bind(target, item)
            out += [ast.fix_missing_locations(Subst(env).visit(copy.deepcopy(x))) for x in body_of]
        return out

    def block(stmts, guard):
        for st in stmts:
            if isinstance(st, ast.Expr) and isinstance(st.value, ast.Constant):
                continue
            if is_logging(st):
                continue
            if isinstance(st, ast.For) and not st.orelse:
                block(unrolled(st.target, st.iter, st.body), guard)
                continue
            if isinstance(st, ast.Assign) and len(st.targets) == 1:
                t = st.targets[0]
                if isinstance(t, ast.Name):
                    if isinstance(st.value, ast.Dict) and not st.value.keys:
                        continue  # optionals = {}
                    if t.id == "optionals" and isinstance(st.value, ast.DictComp) and len(st.value.generators) == 1:
                        # optionals = {k: f(data[k]) for k in (…literal…) if k in data}  ==  a sequence of guarded assignments
                        g = st.value.generators[0]
                        asg = ast.Assign(targets=[ast.Subscript(value=ast.Name("optionals", ast.Load()), slice=st.value.key, ctx=ast.Store())],
                                         value=st.value.value, lineno=st.lineno)
                        inner = [asg]
                        for cond in reversed(g.ifs):
                            inner = [ast.If(test=cond, body=inner, orelse=[], lineno=st.lineno)]
                        block(unrolled(g.target, g.iter, inner), guard)
                        continue
                    k, kind, d = read_kind(st.value, classes)
                    local[t.id] = (k, kind, guard)
                    if kind == "raw":
                        ALIASES[t.id] = k  # the local now stands for data[K]
                    continue
                if (isinstance(t, ast.Subscript) and isinstance(t.value, ast.Name) and t.value.id == "optionals"
                        and isinstance(t.slice, ast.Constant)):
                    k, kind, d = read_kind(st.value, classes)
                    rows.append((t.slice.value, k, guard, kind))
                    continue
            if isinstance(st, ast.If):
                test = st.test
                if (isinstance(test, ast.Compare) and len(test.ops) == 1 and isinstance(test.ops[0], ast.In)
                        and isinstance(test.comparators[0], ast.Name) and test.comparators[0].id == "data" and not st.orelse):
                    block(st.body, key_of(test.left, classes))
                    continue
                if isinstance(test, ast.Call) and ast.unparse(test.func) == "isinstance":
                    before = len(rows)
                    # isinstance(v, …) with v = data.get(K): true only when K is present
                    a0 = test.args[0] if test.args else None
                    g_body = ALIASES[a0.id] if (isinstance(a0, ast.Name) and a0.id in ALIASES and not guard) else guard
                    block(st.body, g_body)
                    mid = len(rows)
                    block(st.orelse, guard)
                    # both branches must fill the same parameter from the same key
                    a, b = rows[before:mid], rows[mid:]
                    if [(r[0], r[1]) for r in a] != [(r[0], r[1]) for r in b]:
                        raise Unrecognised("isinstance branches differ: " + ast.unparse(st)[:80])
                    del rows[mid:]
                    continue
            if isinstance(st, ast.Return):
                call = st.value
                if not (isinstance(call, ast.Call) and ast.unparse(call.func) == "cls"):
                    raise Unrecognised("return " + ast.unparse(st)[:80])
                for i, a in enumerate(call.args):
                    if i >= len(params):
                        raise Unrecognised("too many positional arguments")
                    if isinstance(a, ast.Name) and a.id in local:
                        k, kind, g = local[a.id]
                        rows.append((params[i], k, g, kind))
                    elif isinstance(a, ast.Subscript):
                        k, kind, _ = read_kind(a, classes)
                        rows.append((params[i], k, "", kind))
                    else:
                        raise Unrecognised("positional argument " + ast.unparse(a))
                for kw in call.keywords:
                    if kw.arg is None:
                        if not (isinstance(kw.value, ast.Name) and kw.value.id == "optionals"):
                            raise Unrecognised("**" + ast.unparse(kw.value))
                    else:
                        k, kind, _ = read_kind(kw.value, classes)
                        rows.append((kw.arg, k, "", kind))
                continue
            raise Unrecognised(f"{cls.name}.from_json: statement " + ast.unparse(st)[:80])

    block(fn.body, "")
    # one canonical order (that of the constructor's parameters): the order in which independent options are parsed is not
    # part of the table
    rows.sort(key=lambda r: params.index(r[0]) if r[0] in params else len(params))
    out = []
    for p, k, g, kind in rows:
        a = ann.get(p, "")
        expected = "object" if any(o in a for o in OBJECT_ANN) else ("raw" if a in ("bool", "int", "float", "str", "ID") else "?")
        if p == "id_":
            expected = "raw"
        out.append((p, k, g, kind, expected, p in params))
    return out


def self_reads(fn: ast.FunctionDef, cls: ast.ClassDef = None, depth=3):
    """attributes of self read by fn, in source order; a call self._helper(...) of a method of the same class is replaced by
    what the helper reads (up to `depth` levels)"""
    methods = {n.name: n for n in cls.body if isinstance(n, ast.FunctionDef)} if cls is not None else {}
    called = {id(n.func) for n in ast.walk(fn) if isinstance(n, ast.Call) and isinstance(n.func, ast.Attribute)
              and isinstance(n.func.value, ast.Name) and n.func.value.id == "self" and n.func.attr in methods}
    out = []

    def dataclass_fields(attr):
        """self.<attr> = <Dataclass>(...) in __init__ -> the field names of that dataclass (module-level class of the same file)"""
        init = methods.get("__init__")
        if init is None:
            return None
        for n in ast.walk(init):
            if (isinstance(n, ast.Assign) and len(n.targets) == 1 and isinstance(n.targets[0], ast.Attribute)
                    and isinstance(n.targets[0].value, ast.Name) and n.targets[0].value.id == "self" and n.targets[0].attr == attr
                    and isinstance(n.value, ast.Call) and isinstance(n.value.func, ast.Name) and n.value.func.id in MODULE_CLASSES):
                dc = MODULE_CLASSES[n.value.func.id]
                if any("dataclass" in ast.unparse(d) for d in dc.decorator_list):
                    return [st.target.id for st in dc.body if isinstance(st, ast.AnnAssign) and isinstance(st.target, ast.Name)]
        return None

    class V(ast.NodeVisitor):
        def visit_Call(self, n):
            f = ast.unparse(n.func)
            if f in ("dataclasses.asdict", "asdict") and len(n.args) == 1:
                a = n.args[0]
                if isinstance(a, ast.Attribute) and isinstance(a.value, ast.Name) and a.value.id == "self":
                    fields = dataclass_fields(a.attr)
                    if fields is not None and all(f_ in methods for f_ in fields):
                        # every field is exposed as a property of the same name: the quantities read are those public ones
                        for f_ in fields:
                            if f_ not in out:
                                out.append(f_)
                        return
            self.generic_visit(n)

        def visit_Attribute(self, n):
            if isinstance(n.value, ast.Name) and n.value.id == "self" and isinstance(n.ctx, ast.Load):
                if id(n) in called and depth > 0 and n.attr not in ("_call", "_sample_shape"):
                    for r in self_reads(methods[n.attr], cls, depth - 1):
                        if r not in out:
                            out.append(r)
                elif n.attr not in out:
                    out.append(n.attr)
            self.generic_visit(n)

    V().visit(fn)
    return out


def defined_attrs(classes, cname):
    out = []
    for c in bases_of(classes, cname):
        for st in classes[c].body:
            if isinstance(st, ast.FunctionDef):
                if st.name not in out:
                    out.append(st.name)
                if st.name == "__init__":
                    for n in ast.walk(st):
                        if (isinstance(n, ast.Attribute) and isinstance(n.value, ast.Name) and n.value.id == "self"
                                and isinstance(n.ctx, ast.Store) and n.attr not in out):
                            out.append(n.attr)
            if isinstance(st, ast.Assign):
                for t in st.targets:
                    if isinstance(t, ast.Name) and t.id not in out:
                        out.append(t.id)
    return out


def init_assigned(classes, cname):
    out = []
    for c in bases_of(classes, cname):
        for st in classes[c].body:
            if isinstance(st, ast.FunctionDef) and st.name == "__init__":
                for n in ast.walk(st):
                    if (isinstance(n, ast.Attribute) and isinstance(n.value, ast.Name) and n.value.id == "self"
                            and isinstance(n.ctx, ast.Store) and n.attr not in out):
                        out.append(n.attr)
    return out


def inert_handlers(cls: ast.ClassDef):
    out = []
    for st in cls.body:
        if isinstance(st, ast.FunctionDef) and st.name in ("handle_model_changed", "handle_parameter_changed"):
            body = [b for b in st.body if not (isinstance(b, ast.Expr) and isinstance(b.value, ast.Constant))]
            if all(isinstance(b, ast.Pass) for b in body):
                out.append(st.name)
    return out


def lstr(s):
    return '"' + str(s).replace("\\", "\\\\").replace('"', '\\"') + '"'


def translate(repo: Path):
    """-> (lean_source, ok, note, table)"""
    repo = Path(repo)
    notes, ok, table = [], True, {}
    classes = all_classes(repo)
    MODULE_CLASSES.clear()
    MODULE_CLASSES.update(classes)
    src = []
    for cname, rel in CLASSES.items():
        try:
            cls = next(n for n in ast.parse((repo / rel).read_text()).body if isinstance(n, ast.ClassDef) and n.name == cname)
            cls = ast.fix_missing_locations(ResolveEnums(enum_members(classes)).visit(cls))
            rows = from_json_rows(cls, classes)
            reads = []
            for m in ("_call", "_sample_shape"):
                fn = next((n for n in cls.body if isinstance(n, ast.FunctionDef) and n.name == m), None)
                if fn is None:
                    raise Unrecognised(f"{cname}.{m} missing")
                reads = sorted(set(reads) | set(self_reads(fn, cls)))
            init_attrs = init_assigned(classes, cname)
            # what the table needs: public names (attributes, properties, methods) and whatever `_call` reads; private storage
            # (a dataclass behind same-named properties, caches, …) is not part of it. One canonical order.
            defs = sorted(d for d in set(defined_attrs(classes, cname)) | set(init_attrs) if not d.startswith("_") or d in reads)
            inert = inert_handlers(cls)
            table[cname] = {"options": rows, "reads": reads, "defs": defs, "inert": inert}
            opt = ",\n      ".join(f"⟨{lstr(p)}, {lstr(k)}, {lstr(g)}, {lstr(kind)}, {lstr(exp)}, {'true' if isp else 'false'}⟩"
                                   for p, k, g, kind, exp, isp in rows)
            src.append(f"  {{ name := {lstr(cname)},\n    options := [\n      {opt}],\n"
                       f"    attrsRead := [{', '.join(lstr(r) for r in reads)}],\n"
                       f"    attrsDef := [{', '.join(lstr(r) for r in defs)}],\n"
                       f"    inertHandlers := [{', '.join(lstr(r) for r in inert)}] }}")
        except Exception as e:  # whatever the reader trips over is "not recognised", never a crash of the check
            ok = False
            notes.append(f"UNRECOGNISED: {cname}: {type(e).__name__}: {e}")
    lean = (
        "import TTModel.C09_Options\n"
        "/-! GENERATED by harness/translators/tr_fromjson.py from torchtree/evolution/bdsk.py and birth_death.py\n"
        "    (from_json option plumbing, attributes read by _call, inert change handlers) — do not edit.\n"
        f"    {'; '.join(notes)}\n-/\n"
        "namespace TTGen.C09_Options\nopen TT.C09\n\n"
        f"def translatorOk : Bool := {'true' if ok else 'false'}\n\n"
        "def classes : List ClassOptions := [\n" + ",\n".join(src) + "]\n\n"
        "end TTGen.C09_Options\n"
    )
    return lean, ok, "; ".join(notes), table


if __name__ == "__main__":
    import sys

    s, ok, note, _ = translate(Path(sys.argv[1] if len(sys.argv) > 1 else "/repo"))
    print(s)
    print("-- ok:", ok, note, file=sys.stderr)
