"""Translator: BDSKModel / BirthDeathModel (torchtree/evolution/bdsk.py, birth_death.py)  ->  lean/TTGen/C09_Options.lean

Pure AST.  For each class it emits

  * options   : one row per constructor argument that `from_json` fills:
                ⟨constructor parameter, JSON key read, JSON key guarding the read ("" = unconditional),
                 how it is read (object = process_object / Parameter(...), raw = the JSON value itself),
                 what the constructor expects (object when annotated AbstractParameter/TimeTreeModel…, raw for bool…)⟩
  * attrsRead : `self.<name>` read in `_call` / `_sample_shape`
  * attrsDef  : `self.<name>` assigned by `__init__` (own and base classes) + methods/properties of the hierarchy
  * inertHandlers : overridden `handle_model_changed` / `handle_parameter_changed` whose body is only `pass`

Recognised shapes in from_json (anything else -> Unrecognised -> translatorOk := false):
    v = process_object(data[K], dic)             v = data[K]
    optionals[P] = process_object(data[K], dic)  optionals[P] = Parameter(None, data[K])
    optionals[P] = data.get(K, default)          if K in data: <the above>  (also with an isinstance(...) if/else inside)
    optionals = {}   id_ = data['id']            return cls(a, b, …, **optionals)
K is a string constant or `<Class>.tag` (resolved through the class attribute `_tag`).
"""
from __future__ import annotations

import ast
from pathlib import Path

CLASSES = {"BDSKModel": "torchtree/evolution/bdsk.py", "BirthDeathModel": "torchtree/evolution/birth_death.py"}
SEARCH = ("torchtree/core", "torchtree/evolution")
OBJECT_ANN = ("AbstractParameter", "Parameter", "TimeTreeModel", "TreeModel", "CallableModel")


class Unrecognised(Exception):
    pass


def all_classes(repo: Path):
    out = {}
    for d in SEARCH:
        for f in sorted((repo / d).glob("*.py")):
            try:
                tree = ast.parse(f.read_text())
            except SyntaxError:
                continue
            for n in tree.body:
                if isinstance(n, ast.ClassDef):
                    out.setdefault(n.name, n)
    return out


def bases_of(classes, name, seen=None):
    seen = seen if seen is not None else []
    if name in seen or name not in classes:
        return seen
    seen.append(name)
    for b in classes[name].bases:
        bn = b.id if isinstance(b, ast.Name) else (b.attr if isinstance(b, ast.Attribute) else None)
        if bn:
            bases_of(classes, bn, seen)
    return seen


def tag_of(classes, cname):
    for c in bases_of(classes, cname):
        for st in classes[c].body:
            if isinstance(st, ast.Assign) and any(isinstance(t, ast.Name) and t.id == "_tag" for t in st.targets):
                if isinstance(st.value, ast.Constant) and isinstance(st.value.value, str):
                    return st.value.value
    raise Unrecognised(f"{cname}.tag cannot be resolved")


def key_of(e, classes):
    """data[K] / 'K' in data: the key expression"""
    if isinstance(e, ast.Constant) and isinstance(e.value, str):
        return e.value
    if isinstance(e, ast.Attribute) and e.attr == "tag" and isinstance(e.value, ast.Name):
        return tag_of(classes, e.value.id)
    raise Unrecognised("key expression " + ast.unparse(e))


def data_keys(e, classes):
    return [key_of(n.slice, classes) for n in ast.walk(e)
            if isinstance(n, ast.Subscript) and isinstance(n.value, ast.Name) and n.value.id == "data"]


def read_kind(e, classes):
    """-> (key, kind, default) for a value expression of from_json"""
    if isinstance(e, ast.Call):
        f = ast.unparse(e.func)
        if f in ("process_object", "process_objects") and e.args:
            ks = data_keys(e.args[0], classes)
            if len(ks) == 1:
                return ks[0], "object", ""
        if f == "Parameter" and len(e.args) == 2:
            ks = data_keys(e.args[1], classes)
            if len(ks) == 1:
                return ks[0], "object", ""
        if f == "data.get" and len(e.args) in (1, 2):
            return key_of(e.args[0], classes), "raw", (ast.unparse(e.args[1]) if len(e.args) == 2 else "None")
    if isinstance(e, ast.Subscript):
        ks = data_keys(e, classes)
        if len(ks) == 1 and isinstance(e.value, ast.Name):
            return ks[0], "raw", ""
    raise Unrecognised("value expression " + ast.unparse(e)[:80])


def from_json_rows(cls: ast.ClassDef, classes):
    fn = next((n for n in cls.body if isinstance(n, ast.FunctionDef) and n.name == "from_json"), None)
    init = next((n for n in cls.body if isinstance(n, ast.FunctionDef) and n.name == "__init__"), None)
    if fn is None or init is None:
        raise Unrecognised(f"{cls.name}: from_json/__init__ missing")
    params = [a.arg for a in init.args.args][1:]
    ann = {a.arg: (ast.unparse(a.annotation) if a.annotation else "") for a in init.args.args}
    local = {}  # local variable -> (key, kind, default, guard)
    rows = []  # (param, key, guard, kind)

    def block(stmts, guard):
        for st in stmts:
            if isinstance(st, ast.Expr) and isinstance(st.value, ast.Constant):
                continue
            if isinstance(st, ast.Assign) and len(st.targets) == 1:
                t = st.targets[0]
                if isinstance(t, ast.Name):
                    if isinstance(st.value, ast.Dict) and not st.value.keys:
                        continue  # optionals = {}
                    k, kind, d = read_kind(st.value, classes)
                    local[t.id] = (k, kind, guard)
                    continue
                if (isinstance(t, ast.Subscript) and isinstance(t.value, ast.Name) and t.value.id == "optionals"
                        and isinstance(t.slice, ast.Constant)):
                    k, kind, d = read_kind(st.value, classes)
                    rows.append((t.slice.value, k, guard, kind))
                    continue
            if isinstance(st, ast.If):
                test = st.test
                if (isinstance(test, ast.Compare) and len(test.ops) == 1 and isinstance(test.ops[0], ast.In)
                        and isinstance(test.comparators[0], ast.Name) and test.comparators[0].id == "data" and not st.orelse):
                    block(st.body, key_of(test.left, classes))
                    continue
                if isinstance(test, ast.Call) and ast.unparse(test.func) == "isinstance":
                    before = len(rows)
                    block(st.body, guard)
                    mid = len(rows)
                    block(st.orelse, guard)
                    # both branches must fill the same parameter from the same key
                    a, b = rows[before:mid], rows[mid:]
                    if [(r[0], r[1]) for r in a] != [(r[0], r[1]) for r in b]:
                        raise Unrecognised("isinstance branches differ: " + ast.unparse(st)[:80])
                    del rows[mid:]
                    continue
            if isinstance(st, ast.Return):
                call = st.value
                if not (isinstance(call, ast.Call) and ast.unparse(call.func) == "cls"):
                    raise Unrecognised("return " + ast.unparse(st)[:80])
                for i, a in enumerate(call.args):
                    if i >= len(params):
                        raise Unrecognised("too many positional arguments")
                    if isinstance(a, ast.Name) and a.id in local:
                        k, kind, g = local[a.id]
                        rows.append((params[i], k, g, kind))
                    elif isinstance(a, ast.Subscript):
                        k, kind, _ = read_kind(a, classes)
                        rows.append((params[i], k, "", kind))
                    else:
                        raise Unrecognised("positional argument " + ast.unparse(a))
                for kw in call.keywords:
                    if kw.arg is None:
                        if not (isinstance(kw.value, ast.Name) and kw.value.id == "optionals"):
                            raise Unrecognised("**" + ast.unparse(kw.value))
                    else:
                        k, kind, _ = read_kind(kw.value, classes)
                        rows.append((kw.arg, k, "", kind))
                continue
            raise Unrecognised(f"{cls.name}.from_json: statement " + ast.unparse(st)[:80])

    block(fn.body, "")
    out = []
    for p, k, g, kind in rows:
        a = ann.get(p, "")
        expected = "object" if any(o in a for o in OBJECT_ANN) else ("raw" if a in ("bool", "int", "float", "str", "ID") else "?")
        if p == "id_":
            expected = "raw"
        out.append((p, k, g, kind, expected, p in params))
    return out


def self_reads(fn: ast.FunctionDef):
    out = []
    for n in ast.walk(fn):
        if isinstance(n, ast.Attribute) and isinstance(n.value, ast.Name) and n.value.id == "self" and isinstance(n.ctx, ast.Load):
            if n.attr not in out:
                out.append(n.attr)
    return out


def defined_attrs(classes, cname):
    out = []
    for c in bases_of(classes, cname):
        for st in classes[c].body:
            if isinstance(st, ast.FunctionDef):
                if st.name not in out:
                    out.append(st.name)
                if st.name == "__init__":
                    for n in ast.walk(st):
                        if (isinstance(n, ast.Attribute) and isinstance(n.value, ast.Name) and n.value.id == "self"
                                and isinstance(n.ctx, ast.Store) and n.attr not in out):
                            out.append(n.attr)
            if isinstance(st, ast.Assign):
                for t in st.targets:
                    if isinstance(t, ast.Name) and t.id not in out:
                        out.append(t.id)
    return out


def inert_handlers(cls: ast.ClassDef):
    out = []
    for st in cls.body:
        if isinstance(st, ast.FunctionDef) and st.name in ("handle_model_changed", "handle_parameter_changed"):
            body = [b for b in st.body if not (isinstance(b, ast.Expr) and isinstance(b.value, ast.Constant))]
            if all(isinstance(b, ast.Pass) for b in body):
                out.append(st.name)
    return out


def lstr(s):
    return '"' + str(s).replace("\\", "\\\\").replace('"', '\\"') + '"'


def translate(repo: Path):
    """-> (lean_source, ok, note, table)"""
    notes, ok, table = [], True, {}
    classes = all_classes(repo)
    src = []
    for cname, rel in CLASSES.items():
        try:
            cls = next(n for n in ast.parse((repo / rel).read_text()).body if isinstance(n, ast.ClassDef) and n.name == cname)
            rows = from_json_rows(cls, classes)
            reads = []
            for m in ("_call", "_sample_shape"):
                fn = next((n for n in cls.body if isinstance(n, ast.FunctionDef) and n.name == m), None)
                if fn is None:
                    raise Unrecognised(f"{cname}.{m} missing")
                reads += [r for r in self_reads(fn) if r not in reads]
            defs = defined_attrs(classes, cname)
            inert = inert_handlers(cls)
            table[cname] = {"options": rows, "reads": reads, "defs": defs, "inert": inert}
            opt = ",\n      ".join(f"⟨{lstr(p)}, {lstr(k)}, {lstr(g)}, {lstr(kind)}, {lstr(exp)}, {'true' if isp else 'false'}⟩"
                                   for p, k, g, kind, exp, isp in rows)
            src.append(f"  {{ name := {lstr(cname)},\n    options := [\n      {opt}],\n"
                       f"    attrsRead := [{', '.join(lstr(r) for r in reads)}],\n"
                       f"    attrsDef := [{', '.join(lstr(r) for r in defs)}],\n"
                       f"    inertHandlers := [{', '.join(lstr(r) for r in inert)}] }}")
        except (Unrecognised, StopIteration, OSError, SyntaxError) as e:
            ok = False
            notes.append(f"UNRECOGNISED: {cname}: {type(e).__name__}: {e}")
    lean = (
        "import TTModel.C09_Options\n"
        "/-! GENERATED by harness/translators/tr_fromjson.py from torchtree/evolution/bdsk.py and birth_death.py\n"
        "    (from_json option plumbing, attributes read by _call, inert change handlers) — do not edit.\n"
        f"    {'; '.join(notes)}\n-/\n"
        "namespace TTGen.C09_Options\nopen TT.C09\n\n"
        f"def translatorOk : Bool := {'true' if ok else 'false'}\n\n"
        "def classes : List ClassOptions := [\n" + ",\n".join(src) + "]\n\n"
        "end TTGen.C09_Options\n"
    )
    return lean, ok, "; ".join(notes), table


if __name__ == "__main__":
    import sys

    s, ok, note, _ = translate(Path(sys.argv[1] if len(sys.argv) > 1 else "/repo"))
    print(s)
    print("-- ok:", ok, note, file=sys.stderr)
