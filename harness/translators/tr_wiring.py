"""Translator: listener wiring of every torchtree class  ->  lean/TTGen/C11_Wiring.lean

For every subclass of `Model`, `Parametric`, `AbstractParameter` defined in torchtree (plug-ins,
`nf`, `nn`, `cli` excluded) this reads, with `inspect` + `ast`:

* `handle_parameter_changed` / `handle_model_changed` as resolved through the MRO:
    `pass`, `...`, docstrings                      -> nothing
    `self.<flag> = True`                            -> sets <flag>
    `self.fire_model_changed(...)` / `self.fire_parameter_changed(...)`
                                                    -> tail = fire <kind>   if the class has the method
                                                    -> tail = raise         if it has not (AttributeError)
    `self.<m>(...)` where the class has no `<m>`    -> tail = raise
    `super().handle_*_changed(...)`                 -> the parent's handler, inlined
    handler missing altogether                      -> tail = raise (AttributeError at the call)
  anything else (or anything after the tail)        -> recognised = false  (the dependent theorem
                                                       `torchtree_wellwired` / `all_handlers_total`
                                                       then fails to build) and a note is recorded;
* for every function / property of the class the dirty-flag guards it contains:
    `if self.<flag>: ...` (the flag then being reset to False in the same function, or not);
* whether the class registers itself as a listener: subclass of `Parametric` (attribute
  assignment registers), `<x>.add_parameter_listener(self)` / `<x>.add_model_listener(self)` in an
  `__init__` of its MRO.
"""
from __future__ import annotations

import ast
import inspect
import sys
import textwrap
from pathlib import Path

FIRE = {"fire_model_changed": "model", "fire_parameter_changed": "param"}
HANDLERS = {"param": "handle_parameter_changed", "model": "handle_model_changed"}


class Unrec(Exception):
    pass


def _fn_ast(fn):
    src = textwrap.dedent(inspect.getsource(fn))
    tree = ast.parse(src)
    node = tree.body[0]
    if not isinstance(node, (ast.FunctionDef, ast.AsyncFunctionDef)):
        raise Unrec("not a function")
    return node


# ------------------------------------------------------------------------------------------------
# normalisation: private helper OBJECTS holding the state (`self._cache = _CachedValue()`), exposed through public
# properties of the same names as before, are folded back: `self._cache.stale` -> `self.lp_needs_update`,
# `cache = self._cache` aliases are resolved, `self._cache.invalidate()` / `cache.store(x)` are inlined (one level)
# ------------------------------------------------------------------------------------------------
import copy as _copy

_HELPERS = {}


def _helper_info(cls):
    """-> (helpers {attribute: helper class}, alias {(attribute, field): public property name})"""
    if cls in _HELPERS:
        return _HELPERS[cls]
    helpers, alias = {}, {}
    for k in inspect.getmro(cls):
        if not k.__module__.startswith("torchtree"):
            continue
        mod = sys.modules.get(k.__module__)
        init = k.__dict__.get("__init__")
        if inspect.isfunction(init):
            try:
                node = _fn_ast(init)
                for sub in ast.walk(node):
                    if (isinstance(sub, ast.Assign) and len(sub.targets) == 1 and _is_self_attr(sub.targets[0])
                            and isinstance(sub.value, ast.Call) and isinstance(sub.value.func, ast.Name)):
                        hc = getattr(mod, sub.value.func.id, None)
                        if inspect.isclass(hc) and hc.__module__.startswith("torchtree") and not hasattr(hc, "handle_parameter_changed") \
                                and not hasattr(hc, "fire_parameter_changed"):
                            helpers.setdefault(sub.targets[0].attr, hc)
            except (Unrec, OSError, TypeError, SyntaxError, IndentationError):
                pass
        for name, attr in k.__dict__.items():
            if isinstance(attr, property) and attr.fget is not None:
                try:
                    node = _fn_ast(attr.fget)
                except (Unrec, OSError, TypeError, SyntaxError, IndentationError):
                    continue
                body = [st for st in node.body if not (isinstance(st, ast.Expr) and isinstance(st.value, ast.Constant))]
                if (len(body) == 1 and isinstance(body[0], ast.Return) and isinstance(body[0].value, ast.Attribute)
                        and _is_self_attr(body[0].value.value)):
                    alias.setdefault((body[0].value.value.attr, body[0].value.attr), name)
    _HELPERS[cls] = (helpers, alias)
    return helpers, alias


class _Subst(ast.NodeTransformer):
    def __init__(self, mapping):
        self.mapping = mapping

    def visit_Name(self, node):
        if node.id in self.mapping:
            return _copy.deepcopy(self.mapping[node.id])
        return node


def _norm_expr(e, helpers, alias, local):
    class T(ast.NodeTransformer):
        def visit_Attribute(self, node):
            self.generic_visit(node)
            if isinstance(node.value, ast.Name) and node.value.id in local:
                node = ast.Attribute(value=ast.Attribute(value=ast.Name(id="self", ctx=ast.Load()), attr=local[node.value.id],
                                                         ctx=ast.Load()), attr=node.attr, ctx=node.ctx)
            if (isinstance(node.value, ast.Attribute) and _is_self_attr(node.value)
                    and (node.value.attr, node.attr) in alias):
                return ast.Attribute(value=ast.Name(id="self", ctx=ast.Load()), attr=alias[(node.value.attr, node.attr)], ctx=node.ctx)
            return node
    return T().visit(e)


def _norm_block(stmts, helpers, alias, local):
    out = []
    for st in stmts:
        # cache = self._cache
        if (isinstance(st, ast.Assign) and len(st.targets) == 1 and isinstance(st.targets[0], ast.Name)
                and _is_self_attr(st.value) and st.value.attr in helpers):
            local[st.targets[0].id] = st.value.attr
            continue
        st = _norm_expr(st, helpers, alias, local)
        # self._cache.method(args)  -> the helper method's body, inlined
        if isinstance(st, ast.Expr) and isinstance(st.value, ast.Call) and isinstance(st.value.func, ast.Attribute) \
                and _is_self_attr(st.value.func.value) and st.value.func.value.attr in helpers:
            obj = st.value.func.value.attr
            meth = helpers[obj].__dict__.get(st.value.func.attr)
            if inspect.isfunction(meth):
                try:
                    mnode = _fn_ast(meth)
                    params = [a.arg for a in mnode.args.args]
                    mapping = {params[0]: ast.Attribute(value=ast.Name(id="self", ctx=ast.Load()), attr=obj, ctx=ast.Load())}
                    for pn, av in zip(params[1:], st.value.args):
                        mapping[pn] = av
                    body = [_Subst(mapping).visit(_copy.deepcopy(b)) for b in mnode.body
                            if not (isinstance(b, ast.Expr) and isinstance(b.value, ast.Constant)) and not isinstance(b, ast.Return)]
                    out += _norm_block(body, helpers, alias, dict(local))
                    continue
                except (Unrec, OSError, TypeError, SyntaxError, IndentationError):
                    pass
        for field in ("body", "orelse", "finalbody"):
            if isinstance(getattr(st, field, None), list) and not isinstance(st, (ast.FunctionDef, ast.Lambda)):
                setattr(st, field, _norm_block(getattr(st, field), helpers, alias, local))
        if isinstance(st, ast.Try):
            for h in st.handlers:
                h.body = _norm_block(h.body, helpers, alias, local)
        out.append(st)
    return out


def _nfn(cls, fn):
    """the function's AST with the state kept in private helper objects folded back onto the public attribute names"""
    node = _fn_ast(fn)
    helpers, alias = _helper_info(cls)
    if helpers or alias:
        node.body = _norm_block(node.body, helpers, alias, {})
        ast.fix_missing_locations(node)
    return node


def _is_self_attr(e, name=None):
    return (isinstance(e, ast.Attribute) and isinstance(e.value, ast.Name) and e.value.id == "self"
            and (name is None or e.attr == name))


def _resolve(cls, name, after=None):
    """the function `name` as found along the MRO of `cls` (after class `after` if given) + its class"""
    mro = inspect.getmro(cls)
    if after is not None:
        mro = mro[mro.index(after) + 1:]
    for k in mro:
        if name in k.__dict__:
            f = k.__dict__[name]
            if isinstance(f, (staticmethod, classmethod)):
                f = f.__func__
            return f, k
    return None, None


def _private_helper(cls, f):
    """`self._name(...)`: a private (single underscore) method the class has -> its function, else None"""
    if _is_self_attr(f) and f.attr.startswith("_") and not f.attr.startswith("__") and hasattr(cls, f.attr):
        fn, _ = _resolve(cls, f.attr)
        if inspect.isfunction(fn):
            return fn
    return None


def _handler_stmts(cls, kind, name, owner, stmts, out, depth):
    """translate a statement list of a handler (or of a private helper it calls) into out (sets / tail)"""
    for st in stmts:
        if isinstance(st, ast.Pass):
            continue
        if isinstance(st, ast.Expr) and isinstance(st.value, ast.Constant):
            continue  # docstring or `...`
        if isinstance(st, ast.Return) and st.value is None:
            return
        if out["tail"] != "none":
            raise Unrec("statement after the handler fired/raised: " + ast.unparse(st)[:60])
        if (isinstance(st, ast.Assign) and len(st.targets) == 1 and _is_self_attr(st.targets[0])
                and isinstance(st.value, ast.Constant) and st.value.value is True):
            out["sets"].append(st.targets[0].attr)
            continue
        if isinstance(st, ast.Expr) and isinstance(st.value, ast.Call):
            f = st.value.func
            if _is_self_attr(f):
                if not hasattr(cls, f.attr):
                    out["tail"] = "raise"
                    out["note"] = f"calls self.{f.attr} which {cls.__name__} does not have"
                    continue
                if f.attr in FIRE:
                    out["tail"] = "fire:" + FIRE[f.attr]
                    continue
                helper = _private_helper(cls, f)
                if helper is not None and depth < 3:
                    # a private helper shared by the handlers (`self._invalidate()`): its body, inlined
                    _handler_stmts(cls, kind, name, owner, _nfn(cls, helper).body, out, depth + 1)
                    continue
                raise Unrec("call of self." + f.attr)
            # super().handle_x(...)
            if (isinstance(f, ast.Attribute) and f.attr == name and isinstance(f.value, ast.Call)
                    and isinstance(f.value.func, ast.Name) and f.value.func.id == "super"
                    and not f.value.args and depth < 4):
                sub = translate_handler(cls, kind, after=owner, depth=depth + 1)
                if not sub["recognised"]:
                    raise Unrec("super handler: " + sub["note"])
                out["sets"] += sub["sets"]
                out["tail"] = sub["tail"]
                if sub["note"]:
                    out["note"] = sub["note"]
                continue
        raise Unrec(ast.unparse(st)[:80])


def translate_handler(cls, kind, after=None, depth=0):
    """-> dict(recognised, sets[list of flag names], tail ('none'|'fire:<k>'|'raise'), note)"""
    name = HANDLERS[kind]
    fn, owner = _resolve(cls, name, after)
    if fn is None:
        return {"recognised": True, "sets": [], "tail": "raise", "note": f"{name} missing", "owner": None}
    out = {"recognised": True, "sets": [], "tail": "none", "note": "", "owner": owner.__name__}
    try:
        _handler_stmts(cls, kind, name, owner, _nfn(cls, fn).body, out, depth)
        out["sets"] = list(dict.fromkeys(out["sets"]))
    except (Unrec, OSError, TypeError, SyntaxError, IndentationError) as e:
        out["recognised"] = False
        out["note"] = f"UNRECOGNISED {type(e).__name__}: {e}"
    return out


def _flag_of_test(test):
    """`self.F` or `not self.F` -> "F" """
    if _is_self_attr(test):
        return test.attr
    if isinstance(test, ast.UnaryOp) and isinstance(test.op, ast.Not) and _is_self_attr(test.operand):
        return test.operand.attr
    return None


def _tests_and_clears(cls, node, depth=0, seen=None):
    """(flags tested by an `if`, flags reset to False) in a function AND in the private helpers of the class it
    calls (`self._refresh()`, `self._x` read of a private property), up to three levels"""
    seen = seen if seen is not None else set()
    tested, cleared = [], set()
    for sub in ast.walk(node):
        if (isinstance(sub, ast.Assign) and len(sub.targets) == 1 and _is_self_attr(sub.targets[0])
                and isinstance(sub.value, ast.Constant) and sub.value.value is True):
            cleared.add("+" + sub.targets[0].attr)  # "+F": F is set to True here (a re-entrancy guard, not a cache flag)
        if isinstance(sub, ast.If):
            fl = _flag_of_test(sub.test)
            if fl is not None:
                tested.append(fl)
        if (isinstance(sub, ast.Assign) and len(sub.targets) == 1 and _is_self_attr(sub.targets[0])
                and isinstance(sub.value, ast.Constant) and sub.value.value is False):
            cleared.add(sub.targets[0].attr)
        if depth < 3 and _is_self_attr(sub) and sub.attr.startswith("_") and not sub.attr.startswith("__") \
                and sub.attr not in seen:
            target, _ = _resolve(cls, sub.attr)
            fn = target if inspect.isfunction(target) else (target.fget if isinstance(target, property) else None)
            if fn is not None:
                seen.add(sub.attr)
                try:
                    t2, c2 = _tests_and_clears(cls, _nfn(cls, fn), depth + 1, seen)
                except (Unrec, OSError, TypeError, SyntaxError, IndentationError):
                    continue
                tested += t2
                cleared |= c2
    return tested, cleared


def guards_of(cls):
    """[(function name, flag, clears)] for the dirty-flag tests reachable from each function / property of cls
    (through private helpers of the class; public getters called inside are separate quantities)"""
    res = []
    seen = set()
    for k in inspect.getmro(cls):
        if not k.__module__.startswith("torchtree"):
            continue
        for name, attr in k.__dict__.items():
            if name in seen:
                continue
            fns = []
            if inspect.isfunction(attr):
                fns = [attr]
            elif isinstance(attr, property):
                fns = [f for f in (attr.fget,) if f is not None]
            if not fns:
                continue
            seen.add(name)
            for fn in fns:
                try:
                    node = _nfn(cls, fn)
                except (Unrec, OSError, TypeError, SyntaxError, IndentationError):
                    continue
                tested, cleared = _tests_and_clears(cls, node)
                for fl in dict.fromkeys(tested):
                    res.append((name, fl, fl in cleared, "+" + fl in cleared))
    return res


def clears_after_success(cls):
    """[(function, flag, ok)] for every function of cls that tests a dirty flag and resets it: ok = the reset
    `self.<flag> = False` can only be reached after the recomputation SUCCEEDED — it is not in a `finally:` / `except`
    block and, inside the `if self.<flag>:` body, it follows every statement that computes (contains a call)"""
    out = []
    seen = set()
    for k in inspect.getmro(cls):
        if not k.__module__.startswith("torchtree"):
            continue
        for name, attr in k.__dict__.items():
            if name in seen:
                continue
            fn = attr if inspect.isfunction(attr) else (attr.fget if isinstance(attr, property) else None)
            if fn is None:
                continue
            seen.add(name)
            try:
                node = _nfn(cls, fn)
            except (Unrec, OSError, TypeError, SyntaxError, IndentationError):
                continue
            flags = [_flag_of_test(sub.test) for sub in ast.walk(node)
                     if isinstance(sub, ast.If) and _flag_of_test(sub.test) is not None]
            for fl in dict.fromkeys(flags):
                def is_clear(st):
                    return (isinstance(st, ast.Assign) and len(st.targets) == 1 and _is_self_attr(st.targets[0], fl)
                            and isinstance(st.value, ast.Constant) and st.value.value is False)
                clears = [sub for sub in ast.walk(node) if is_clear(sub)]
                if not clears:
                    continue
                ok = True
                for sub in ast.walk(node):
                    if isinstance(sub, ast.Try):
                        for blk in [sub.finalbody] + [h.body for h in sub.handlers]:
                            if any(is_clear(x) for st in blk for x in ast.walk(st)):
                                ok = False
                    for body in [getattr(sub, "body", None), getattr(sub, "orelse", None)]:
                        if not isinstance(body, list):
                            continue
                        pos = [i for i, st in enumerate(body) if is_clear(st)]
                        for i in pos:  # a computing statement AFTER the reset in the same block
                            if any(any(isinstance(x, ast.Call) for x in ast.walk(st)) for st in body[i + 1:]
                                   if not isinstance(st, ast.Return)):
                                ok = False
                out.append((name, fl, ok))
    return out


def shared_flag_consistency(cls, dirty):
    """for every dirty flag: the functions that DIRECTLY test it and reset it; ok = each of them, before the reset,
    UNCONDITIONALLY runs the same recomputation (the same set of self-method calls / cache assignments at the block
    level of the reset — a recomputation nested in a further `if` does not count).  A flag shared by several getters
    (SiteModel.rates / probabilities) may only be reset by a getter that recomputes everything it guards.
    -> [(flag, [function names], ok)]"""
    per_flag = {}
    seen = set()
    for k in inspect.getmro(cls):
        if not k.__module__.startswith("torchtree"):
            continue
        for name, attr in k.__dict__.items():
            if name in seen:
                continue
            fn = attr if inspect.isfunction(attr) else (attr.fget if isinstance(attr, property) else None)
            if fn is None:
                continue
            seen.add(name)
            try:
                node = _nfn(cls, fn)
            except (Unrec, OSError, TypeError, SyntaxError, IndentationError):
                continue

            def is_clear(st, fl):
                return (isinstance(st, ast.Assign) and len(st.targets) == 1 and _is_self_attr(st.targets[0], fl)
                        and isinstance(st.value, ast.Constant) and st.value.value is False)

            def work(stmts, fl):
                """names recomputed unconditionally in a block before the reset of fl, or None if no reset there"""
                pos = [i for i, st in enumerate(stmts) if is_clear(st, fl)]
                if not pos:
                    return None
                names = set()
                for st in stmts[:pos[0]]:
                    if isinstance(st, (ast.If, ast.For, ast.While, ast.Try, ast.With)):
                        continue
                    for sub in ast.walk(st):
                        if isinstance(sub, ast.Call) and _is_self_attr(sub.func):
                            names.add(sub.func.attr + "()")
                        if isinstance(sub, ast.Assign):
                            for t in sub.targets:
                                if _is_self_attr(t):
                                    names.add(t.attr)
                return names

            for sub in ast.walk(node):
                if not isinstance(sub, ast.If):
                    continue
                fl = _flag_of_test(sub.test)
                if fl is None or fl not in dirty:
                    continue
                negated = not _is_self_attr(sub.test)
                w = work(node.body, fl) if negated else work(sub.body, fl)
                if w is not None:
                    per_flag.setdefault(fl, []).append((name, w))
    out = []
    for fl, lst in per_flag.items():
        sets = [w for _, w in lst]
        ok = all(len(w) > 0 for w in sets) and all(w == sets[0] for w in sets)
        out.append((fl, [n for n, _ in lst], ok))
    return out


def explicit_regs(cls):
    p = m = False

    def scan(node, depth, seen):
        nonlocal p, m
        for sub in ast.walk(node):
            if (isinstance(sub, ast.Call) and isinstance(sub.func, ast.Attribute) and len(sub.args) == 1
                    and isinstance(sub.args[0], ast.Name) and sub.args[0].id == "self"):
                if sub.func.attr == "add_parameter_listener":
                    p = True
                if sub.func.attr == "add_model_listener":
                    m = True
            if isinstance(sub, ast.Call) and depth < 3:
                helper = _private_helper(cls, sub.func)
                if helper is not None and helper.__name__ not in seen:
                    seen.add(helper.__name__)
                    try:
                        scan(_fn_ast(helper), depth + 1, seen)
                    except (Unrec, OSError, TypeError, SyntaxError, IndentationError):
                        pass

    for k in inspect.getmro(cls):
        if not k.__module__.startswith("torchtree") or "__init__" not in k.__dict__:
            continue
        try:
            node = _fn_ast(k.__dict__["__init__"])
        except (Unrec, OSError, TypeError, SyntaxError, IndentationError):
            continue
        scan(node, 0, set())
    return p, m


def listener_append_unconditional(cls):
    """for add_parameter_listener / add_model_listener as resolved for `cls`: is the body exactly
    `self.<list>.append(<listener>)` — i.e. every registration is recorded, by identity, with no test that
    could drop it (an equality / membership test would confuse distinct but equal listeners).
    -> None when the class has neither method (or only abstract ones), else True / False"""
    seen_any = False
    for meth in ("add_parameter_listener", "add_model_listener"):
        fn, _ = _resolve(cls, meth)
        if fn is None or getattr(fn, "__isabstractmethod__", False):
            continue
        seen_any = True
        try:
            node = _fn_ast(fn)
        except (Unrec, OSError, TypeError, SyntaxError, IndentationError):
            return False
        args = [a.arg for a in node.args.args]
        body = [st for st in node.body if not (isinstance(st, ast.Expr) and isinstance(st.value, ast.Constant))]
        ok = (len(args) == 2 and len(body) == 1 and isinstance(body[0], ast.Expr) and isinstance(body[0].value, ast.Call)
              and isinstance(body[0].value.func, ast.Attribute) and body[0].value.func.attr == "append"
              and _is_self_attr(body[0].value.func.value) and len(body[0].value.args) == 1
              and isinstance(body[0].value.args[0], ast.Name) and body[0].value.args[0].id == args[1])
        if not ok:
            return False
    return True if seen_any else None


def fire_reaches_every_listener(cls):
    """fire_parameter_changed / fire_model_changed as resolved for `cls`: the body must be the loop
    `for l in self.<list>: l.handle_*_changed(self, ...)` — undecorated — optionally wrapped in a PER-INSTANCE re-entrancy
    guard kept in an attribute of self (`if self.<g>: return; self.<g> = True; try: <loop> finally: self.<g> = False`).
    A guard kept anywhere else (a decorator's closure, a class or module variable) is shared between objects and would
    drop the notification of one object while another one is notifying.  -> None (no such method) / True / False"""
    seen_any = False
    for meth in ("fire_parameter_changed", "fire_model_changed"):
        fn, _ = _resolve(cls, meth)
        if fn is None or getattr(fn, "__isabstractmethod__", False):
            continue
        seen_any = True
        try:
            node = _nfn(cls, inspect.unwrap(fn)) if hasattr(fn, "__wrapped__") else _nfn(cls, fn)
        except (Unrec, OSError, TypeError, SyntaxError, IndentationError):
            return False
        if hasattr(fn, "__wrapped__") or node.decorator_list:
            return False  # decorated: whatever the decorator does happens outside the object

        def is_loop(st):
            return (isinstance(st, ast.For) and _is_self_attr(st.iter) and len(st.body) == 1
                    and isinstance(st.body[0], ast.Expr) and isinstance(st.body[0].value, ast.Call)
                    and isinstance(st.body[0].value.func, ast.Attribute)
                    and st.body[0].value.func.attr in ("handle_parameter_changed", "handle_model_changed")
                    and isinstance(st.body[0].value.func.value, ast.Name) and isinstance(st.target, ast.Name)
                    and st.body[0].value.func.value.id == st.target.id and not st.orelse)

        body = [st for st in node.body if not (isinstance(st, ast.Expr) and isinstance(st.value, ast.Constant))]
        if len(body) == 1 and is_loop(body[0]):
            continue
        ok = False
        if len(body) == 3 and isinstance(body[0], ast.If) and _is_self_attr(body[0].test) and len(body[0].body) == 1 \
                and isinstance(body[0].body[0], ast.Return) and body[0].body[0].value is None and not body[0].orelse:
            g = body[0].test.attr
            sets = (isinstance(body[1], ast.Assign) and len(body[1].targets) == 1 and _is_self_attr(body[1].targets[0], g)
                    and isinstance(body[1].value, ast.Constant) and body[1].value.value is True)
            tr = body[2]
            ok = (sets and isinstance(tr, ast.Try) and len(tr.body) == 1 and is_loop(tr.body[0]) and not tr.handlers
                  and len(tr.finalbody) == 1 and isinstance(tr.finalbody[0], ast.Assign)
                  and _is_self_attr(tr.finalbody[0].targets[0], g) and isinstance(tr.finalbody[0].value, ast.Constant)
                  and tr.finalbody[0].value.value is False)
        if not ok:
            return False
    return True if seen_any else None


def all_classes():
    import importlib
    import pkgutil

    import torchtree
    from torchtree.core.abstractparameter import AbstractParameter
    from torchtree.core.model import Model
    from torchtree.core.parametric import Parametric

    for mi in pkgutil.walk_packages(torchtree.__path__, "torchtree."):
        if any(part in mi.name for part in (".cli", ".nf", ".nn", "plugin")):
            continue
        try:
            importlib.import_module(mi.name)
        except Exception:
            pass
    seen = []

    def subs(c):
        for s in c.__subclasses__():
            if s not in seen:
                seen.append(s)
                subs(s)

    for b in (Parametric, Model, AbstractParameter):
        if b not in seen:
            seen.append(b)
        subs(b)
    out = [c for c in seen if c.__module__.startswith("torchtree")
           and not any(part in c.__module__ for part in (".cli", ".nf", ".nn", "plugin"))]
    out.sort(key=lambda c: (c.__module__, c.__qualname__))
    return out, (Parametric, Model, AbstractParameter)


def describe(cls, bases):
    Parametric, Model, AbstractParameter = bases
    hp = translate_handler(cls, "param")
    hm = translate_handler(cls, "model")
    # a dirty flag is identified by its ROLE, not its spelling: an attribute the handlers set to True (and, for the
    # guards, one a getter tests); other attributes that happen to be tested (`_firing`, `rescale`, options) are not flags
    allg = guards_of(cls)
    dirty = set(hp["sets"] + hm["sets"]) | {g[1] for g in allg if g[2] and not g[3]}
    gs = [g[:3] for g in allg if g[1] in dirty]
    flags = list(dict.fromkeys(hp["sets"] + hm["sets"] + [g[1] for g in gs]))
    ep, em = explicit_regs(cls)
    return {
        "name": cls.__name__,
        "module": cls.__module__,
        "emits": "param" if issubclass(cls, AbstractParameter) else "model",
        "parametric": issubclass(cls, Parametric),
        "explicitParam": ep,
        "explicitModel": em,
        "flags": flags,
        "onParam": hp,
        "onModel": hm,
        "guards": gs,
        "appends": listener_append_unconditional(cls),
        "fires_all": fire_reaches_every_listener(cls),
        "clears_ok": clears_after_success(cls),
        "shared": shared_flag_consistency(cls, set(flags)),
    }


def lean_str(s):
    return '"' + s.replace("\\", "\\\\").replace('"', '\\"') + '"'


def lean_handler(h, flags):
    tail = {"none": ".none", "raise": ".raise", "fire:param": ".fire .param", "fire:model": ".fire .model"}[h["tail"]]
    sets = ", ".join(str(flags.index(f)) for f in h["sets"])
    return f"{{ recognised := {'true' if h['recognised'] else 'false'}, sets := [{sets}], tail := {tail} }}"


def translate(repo: Path = None):
    """returns (lean_source, ok, notes, table) — torchtree must already be importable"""
    classes, bases = all_classes()
    table = [describe(c, bases) for c in classes]
    names = [d["name"] for d in table]
    notes = []
    if len(set(names)) != len(names):
        dup = sorted({n for n in names if names.count(n) > 1})
        notes.append("duplicate class names (kept first by module order): " + ",".join(dup))
        seen = set()
        table = [d for d in table if not (d["name"] in seen or seen.add(d["name"]))]
    ok = True
    rows = []
    for d in table:
        for hk in ("onParam", "onModel"):
            if not d[hk]["recognised"]:
                ok = False
                notes.append(f"{d['name']}.{hk}: {d[hk]['note']}")
        guards = ", ".join(
            f"⟨{lean_str(g[0])}, {d['flags'].index(g[1])}, {'true' if g[2] else 'false'}⟩" for g in d["guards"])
        cmt = "; ".join(f"{hk}: {d[hk]['note']}" for hk in ("onParam", "onModel") if d[hk]["note"])
        rows.append(
            f"  -- {d['module']}.{d['name']}" + (f"   [{cmt}]" if cmt else "") + "\n"
            f"  {{ name := {lean_str(d['name'])}, emits := .{d['emits']}, parametric := {'true' if d['parametric'] else 'false'},\n"
            f"    explicitParam := {'true' if d['explicitParam'] else 'false'}, explicitModel := {'true' if d['explicitModel'] else 'false'},\n"
            f"    flags := [{', '.join(lean_str(f) for f in d['flags'])}],\n"
            f"    onParam := {lean_handler(d['onParam'], d['flags'])},\n"
            f"    onModel := {lean_handler(d['onModel'], d['flags'])},\n"
            f"    guards := [{guards}] }}"
        )
    lean = (
        "import TTModel.C11_Cache\n"
        "/-! GENERATED by harness/translators/tr_wiring.py from the handler / getter / constructor source of every\n"
        "    subclass of Model, Parametric, AbstractParameter in torchtree — do not edit.\n"
        + "".join(f"    NOTE {n}\n" for n in notes) +
        "-/\n"
        "namespace TTGen.C11_Wiring\nopen TT.C11\n\n"
        f"def translatorOk : Bool := {'true' if ok else 'false'}\n\n"
        "def classes : List ClassSpec := [\n" + ",\n".join(rows) + "\n]\n\n"
        "/-- (class, its add_parameter_listener / add_model_listener are exactly `self.<list>.append(listener)`) -/\n"
        "def listenerAppends : List (String × Bool) := [\n"
        + ",\n".join(f"  ({lean_str(d['name'])}, {'true' if d['appends'] else 'false'})" for d in table if d["appends"] is not None)
        + "\n]\n\n"
        "/-- (class, its fire_*_changed is the plain loop over its listeners, at most behind a PER-INSTANCE re-entrancy guard) -/\n"
        "def fireLoops : List (String × Bool) := [\n"
        + ",\n".join(f"  ({lean_str(d['name'])}, {'true' if d['fires_all'] else 'false'})" for d in table if d["fires_all"] is not None)
        + "\n]\n\n"
        "/-- (class, function, flag, the flag is reset only after the recomputation succeeded: not in finally/except, not\n"
        "    before a computing statement) -/\n"
        "def flagResets : List (String × String × String × Bool) := [\n"
        + ",\n".join(f"  ({lean_str(d['name'])}, {lean_str(fn)}, {lean_str(fl)}, {'true' if okc else 'false'})"
                      for d in table for fn, fl, okc in d["clears_ok"]
                      if fl in d["flags"])  # dirty flags: the ones a handler sets
        + "\n]\n\n"
        "/-- (class, dirty flag, every function that directly tests and resets it runs, unconditionally and before the\n"
        "    reset, the same recomputation) -/\n"
        "def sharedFlags : List (String × String × Bool) :=\n"
        + "\n".join(f"  ({lean_str(d['name'])}, {lean_str(fl)}, {'true' if okc else 'false'}) ::   -- " + ", ".join(fns)
                      for d in table for fl, fns, okc in d["shared"])
        + "\n  []\n\n"
        "def find (n : String) : ClassSpec :=\n"
        "  (classes.find? fun c => c.name == n).getD { (default : ClassSpec) with name := \"?\", "
        "onParam := ⟨false, [], .raise⟩, onModel := ⟨false, [], .raise⟩ }\n\n"
        "end TTGen.C11_Wiring\n"
    )
    return lean, ok, notes, table


if __name__ == "__main__":
    sys.path.insert(0, str(Path(__file__).resolve().parent.parent))
    import common

    common.use_repo()
    src, ok, notes, _ = translate()
    print(src)
    print("-- ok:", ok, notes, file=sys.stderr)


# ------------------------------------------------------------------------------------------------
# Parametric.__setattr__ / register_parameter / register_model  ->  lean/TTGen/C11_Setattr.lean
# ------------------------------------------------------------------------------------------------
def _sx_cond(e, env):
    """symbolic value of a condition: True / False / None (not understood)"""
    if isinstance(e, ast.Call) and isinstance(e.func, ast.Name) and e.func.id == "isinstance" and len(e.args) == 2 \
            and isinstance(e.args[0], ast.Name) and e.args[0].id == env["value"] and isinstance(e.args[1], ast.Name):
        if e.args[1].id == "AbstractParameter":
            return env["kind"] == "param"
        if e.args[1].id == "Model":
            return env["kind"] == "model"
        return None
    if isinstance(e, ast.Compare) and len(e.ops) == 1 and len(e.comparators) == 1:
        l, op, r = e.left, e.ops[0], e.comparators[0]
        if isinstance(op, (ast.Is, ast.IsNot)) and isinstance(l, ast.Name) and l.id in env["dictvars"] \
                and isinstance(r, ast.Constant) and r.value is None:
            return isinstance(op, ast.IsNot)  # the object is initialised: its dictionaries exist
        if isinstance(op, (ast.In, ast.NotIn)) and isinstance(l, ast.Name) and l.id == env["name"] \
                and isinstance(r, ast.Attribute) and _is_self_attr(r, "__dict__"):
            return env["inDict"] if isinstance(op, ast.In) else not env["inDict"]
        return None
    if isinstance(e, ast.UnaryOp) and isinstance(e.op, ast.Not):
        v = _sx_cond(e.operand, env)
        return None if v is None else not v
    if isinstance(e, ast.BoolOp):
        vs = [_sx_cond(v, env) for v in e.values]
        if any(v is None for v in vs):
            return None
        return all(vs) if isinstance(e.op, ast.And) else any(vs)
    return None


def _sx_register(cls, meth, env_kind):
    """acts of Parametric.register_parameter / register_model"""
    fn, _ = _resolve(cls, meth)
    if fn is None:
        return ["raise"]
    node = _fn_ast(fn)
    args = [a.arg for a in node.args.args]
    if len(args) != 3:
        return ["unknown"]
    _, nm, obj = args
    acts = []
    for st in node.body:
        if isinstance(st, ast.Expr) and isinstance(st.value, ast.Constant):
            continue
        if (isinstance(st, ast.Assign) and len(st.targets) == 1 and isinstance(st.targets[0], ast.Subscript)
                and _is_self_attr(st.targets[0].value) and isinstance(st.targets[0].slice, ast.Name)
                and st.targets[0].slice.id == nm and isinstance(st.value, ast.Name) and st.value.id == obj):
            acts.append({"_parameters": "storeParams", "_models": "storeModels"}.get(st.targets[0].value.attr, "unknown"))
            continue
        if (isinstance(st, ast.Expr) and isinstance(st.value, ast.Call) and isinstance(st.value.func, ast.Attribute)
                and isinstance(st.value.func.value, ast.Name) and st.value.func.value.id == obj
                and len(st.value.args) == 1 and isinstance(st.value.args[0], ast.Name) and st.value.args[0].id == "self"):
            acts.append({"add_parameter_listener": "addParamListener", "add_model_listener": "addModelListener"}
                        .get(st.value.func.attr, "unknown"))
            continue
        acts.append("unknown")
    return acts


def _sx_block(cls, stmts, env):
    """-> (acts, finished)"""
    acts = []
    for st in stmts:
        if isinstance(st, (ast.Import, ast.ImportFrom, ast.Pass)):
            continue
        if isinstance(st, ast.Expr) and isinstance(st.value, ast.Constant):
            continue
        if isinstance(st, ast.FunctionDef):
            env["helpers"].add(st.name)
            continue
        if isinstance(st, ast.Return):
            return acts, True
        if isinstance(st, ast.Raise):
            return acts + ["raise"], True
        if isinstance(st, ast.Assign) and len(st.targets) == 1 and isinstance(st.targets[0], ast.Name):
            v = st.value
            if (isinstance(v, ast.Call) and isinstance(v.func, ast.Attribute) and v.func.attr == "get"
                    and _is_self_attr(v.func.value, "__dict__")):
                env["dictvars"].add(st.targets[0].id)
                continue
            acts.append("unknown")
            continue
        if isinstance(st, ast.If):
            c = _sx_cond(st.test, env)
            if c is None:
                acts.append("unknown")
                continue
            a, fin = _sx_block(cls, st.body if c else st.orelse, env)
            acts += a
            if fin:
                return acts, True
            continue
        if isinstance(st, ast.Expr) and isinstance(st.value, ast.Call):
            f = st.value.func
            if isinstance(f, ast.Name) and f.id in env["helpers"] and f.id == "remove_from":
                for a in st.value.args:
                    if _is_self_attr(a, "__dict__"):
                        acts.append("removeFromDict")
                    elif _is_self_attr(a, "_parameters"):
                        acts.append("removeFromParams")
                    elif _is_self_attr(a, "_models"):
                        acts.append("removeFromModels")
                    else:
                        acts.append("unknown")
                continue
            if _is_self_attr(f) and f.attr in ("register_parameter", "register_model"):
                acts += _sx_register(cls, f.attr, env["kind"])
                continue
            if (isinstance(f, ast.Attribute) and f.attr == "__setattr__" and isinstance(f.value, ast.Name)
                    and f.value.id == "object"):
                acts.append("storeDict")
                continue
        acts.append("unknown")
    return acts, False


def translate_setattr():
    """symbolic execution of Parametric.__setattr__ for every (kind of value, name already in the instance
    dictionary) -> (lean source, ok, table)"""
    from torchtree.core.parametric import Parametric

    table = []
    ok = True
    note = ""
    try:
        fn, _ = _resolve(Parametric, "__setattr__")
        node = _fn_ast(fn)
        args = [a.arg for a in node.args.args]
        for kind in ("param", "model", "other"):
            for in_dict in (False, True):
                env = {"kind": kind, "inDict": in_dict, "name": args[1], "value": args[2], "dictvars": set(), "helpers": set()}
                acts, _ = _sx_block(Parametric, node.body, env)
                table.append((kind, in_dict, acts))
                if "unknown" in acts:
                    ok = False
    except (Unrec, OSError, TypeError, SyntaxError, IndexError) as e:
        ok = False
        note = f"UNRECOGNISED {type(e).__name__}: {e}"
        table = [(k, d, ["unknown"]) for k in ("param", "model", "other") for d in (False, True)]
    rows = ",\n".join(
        f"  ⟨.{k}, {'true' if d else 'false'}, [{', '.join('.' + a for a in acts)}]⟩" for k, d, acts in table)
    lean = (
        "import TTModel.C11_Setattr\n"
        "/-! GENERATED by harness/translators/tr_wiring.py (translate_setattr) by symbolic execution of\n"
        "    Parametric.__setattr__ (with register_parameter / register_model inlined) for every kind of assigned value\n"
        "    and for a name that is / is not already in the instance dictionary — do not edit.\n"
        f"    {note}\n-/\n"
        "namespace TTGen.C11_Setattr\nopen TT.C11\n\n"
        f"def translatorOk : Bool := {'true' if ok else 'false'}\n\n"
        "def table : List SetattrCase := [\n" + rows + "\n]\n\nend TTGen.C11_Setattr\n"
    )
    return lean, ok, table


# ------------------------------------------------------------------------------------------------
# ELBO._call: which branch each (score, entropy, rank of the sample shape, last dimension == 1) takes
# ------------------------------------------------------------------------------------------------
ELBO_ROUTE = ["ast"]


def _elbo_cond(e, env):
    """symbolic value (True / False / None) of a branch condition of ELBO._call"""
    if _is_self_attr(e, "score"):
        return env["score"]
    if _is_self_attr(e, "entropy"):
        return env["entropy"]
    if isinstance(e, ast.Compare) and len(e.ops) == 1 and len(e.comparators) == 1 and isinstance(e.comparators[0], ast.Constant):
        l, op, c = e.left, e.ops[0], e.comparators[0].value
        val = None
        if (isinstance(l, ast.Call) and isinstance(l.func, ast.Name) and l.func.id == "len" and len(l.args) == 1
                and isinstance(l.args[0], ast.Name) and l.args[0].id == "samples"):
            val = env["rank"]
        elif (isinstance(l, ast.Subscript) and isinstance(l.value, ast.Name) and l.value.id == "samples"
              and isinstance(l.slice, ast.UnaryOp) and isinstance(l.slice.op, ast.USub)
              and isinstance(l.slice.operand, ast.Constant) and l.slice.operand.value == 1):
            val = 1 if env["last1"] else 5  # "some K > 1"
        if val is None or not isinstance(c, int):
            return None
        return {ast.Eq: val == c, ast.NotEq: val != c, ast.Gt: val > c, ast.GtE: val >= c, ast.Lt: val < c,
                ast.LtE: val <= c}.get(type(op))
    if isinstance(e, ast.BoolOp):
        vs = [_elbo_cond(v, env) for v in e.values]
        if any(v is None for v in vs):
            return None
        return all(vs) if isinstance(e.op, ast.And) else any(vs)
    if isinstance(e, ast.UnaryOp) and isinstance(e.op, ast.Not):
        v = _elbo_cond(e.operand, env)
        return None if v is None else not v
    return None


def _elbo_block(stmts, env, cls=None, depth=0):
    """the estimator the block computes: recognised by the reductions it contains; private helpers of the class
    (`return self._multi_sample_bound(samples)`) are followed, early returns fall through"""
    for st in stmts:
        if isinstance(st, ast.If):
            c = _elbo_cond(st.test, env)
            if c is None:
                return "unknown"
            r = _elbo_block(st.body if c else st.orelse, env, cls, depth)
            if r is not None:
                return r
            continue
        src = ast.unparse(st)
        if "logsumexp" in src:
            return "multi"
        if "entropy()" in src:
            return "analytic"
        if "cost * log_q" in src:
            return "score"
        if cls is not None and depth < 3:
            for sub in ast.walk(st):
                if isinstance(sub, ast.Call):
                    helper = _private_helper(cls, sub.func)
                    if helper is not None and helper.__name__ not in ("_call",):
                        r = _elbo_block(_fn_ast(helper).body, env, cls, depth + 1)
                        if r is not None:
                            return r
        if (".mean()" in src or "torch.mean(" in src) and isinstance(st, (ast.Return, ast.Assign)):
            return "mc"
    return None


def _elbo_branch_by_behaviour(score, entropy, rank, last1):
    """the estimator ELBO computes for one cell of the finite domain, DERIVED from the behaviour of the real class driven
    with stub p / q (public observables only): q.sample vs q.rsample, whether q.entropy() is consulted, and the value
    on prescribed log-weights (multi-sample bound vs mean).  Where the two formulas coincide (K = 1) the label follows
    the rank, as the model's `expected` does."""
    import math

    import torch

    from torchtree.core.model import CallableModel
    from torchtree.core.parameter import Parameter
    from torchtree.distributions.distributions import DistributionModel
    from torchtree.variational.kl import ELBO

    shape = {(1, False): (3,), (1, True): (1,), (2, False): (2, 3), (2, True): (3, 1)}[(rank, last1)]
    n = 1
    for d_ in shape:
        n *= d_
    w = torch.tensor([0.25 * i * i - 0.5 * i for i in range(n)], dtype=torch.float64).reshape(shape)
    calls = []
    x = Parameter("x", torch.zeros(1, dtype=torch.float64))

    class Q(DistributionModel):
        def __init__(self):
            super().__init__("q")
            self.x = x

        def rsample(self, sample_shape=torch.Size()):
            calls.append("rsample")
            self.x.tensor = torch.ones(1, dtype=torch.float64)

        def sample(self, sample_shape=torch.Size()):
            calls.append("sample")
            self.x.tensor = torch.ones(1, dtype=torch.float64)

        def log_prob(self, x=None):
            return self._call()

        def entropy(self):
            calls.append("entropy")
            return torch.tensor([0.125], dtype=torch.float64)

        def _call(self, *a, **k):
            return torch.zeros(shape, dtype=torch.float64)

        def _sample_shape(self):
            return torch.Size(shape)

        @classmethod
        def from_json(cls, data, dic):
            raise NotImplementedError

    class P(CallableModel):
        def __init__(self):
            super().__init__("p")
            self.x = x

        def _call(self, *a, **k):
            return w

        def _sample_shape(self):
            return torch.Size(shape)

        @classmethod
        def from_json(cls, data, dic):
            raise NotImplementedError

    obj = ELBO(None, Q(), P(), torch.Size(shape), entropy=entropy, score=score)
    v = float(obj())
    if "sample" in calls:
        return "score"
    if "entropy" in calls:
        return "analytic"
    rows = w.reshape(-1, shape[-1])
    multi = float((torch.logsumexp(rows, -1) - math.log(shape[-1])).mean())
    mc = float(w.mean())
    is_multi, is_mc = abs(v - multi) < 1e-12, abs(v - mc) < 1e-12
    if is_multi and is_mc:
        return "multi" if rank == 2 else "mc"
    return "multi" if is_multi else "mc" if is_mc else "unknown"


def translate_elbo_branches():
    """-> (lean source, ok, table [(score, entropy, rank, last1, branch)]); ELBO_ROUTE[0] says how the table was obtained"""
    from torchtree.variational.kl import ELBO

    table, ok, note = [], True, ""
    ELBO_ROUTE[0] = "ast (symbolic evaluation of the branch conditions of ELBO._call)"
    try:
        node = _fn_ast(ELBO.__dict__["_call"])
        for score in (False, True):
            for entropy in (False, True):
                for rank in (1, 2):
                    for last1 in (False, True):
                        b = _elbo_block(node.body, {"score": score, "entropy": entropy, "rank": rank, "last1": last1}, ELBO)
                        b = b or "unknown"
                        ok = ok and b != "unknown"
                        table.append((score, entropy, rank, last1, b))
    except (Unrec, OSError, TypeError, SyntaxError, KeyError) as e:
        ok, note = False, f"UNRECOGNISED {type(e).__name__}: {e}"
        table = [(s_, e_, r_, l_, "unknown") for s_ in (False, True) for e_ in (False, True) for r_ in (1, 2) for l_ in (False, True)]
    if not ok:
        # the source no longer has the if-chain shape (Enum selector + dispatch table, singledispatch …): the domain is
        # finite (16 cells), so the table is DERIVED from the behaviour of the real class instead
        try:
            table = [(s_, e_, r_, l_, _elbo_branch_by_behaviour(s_, e_, r_, l_))
                     for s_ in (False, True) for e_ in (False, True) for r_ in (1, 2) for l_ in (False, True)]
            ok = all(t[4] != "unknown" for t in table)
            note = "branch table derived from the behaviour of the real class (source shape not recognised: " + (note or "unknown branch") + ")"
            ELBO_ROUTE[0] = "behaviour (real ELBO driven with stub p/q on each of the 16 cells)"
        except Exception as e:  # noqa: BLE001
            ok = False
            note += f"; behavioural derivation failed: {type(e).__name__}: {e}"
    tf = lambda b: "true" if b else "false"  # noqa: E731
    rows = ",\n".join(f"  ⟨{tf(s_)}, {tf(e_)}, {r_}, {tf(l_)}, .{b}⟩" for s_, e_, r_, l_, b in table)
    lean = (
        "import TTModel.C14_Protocol\n"
        "/-! GENERATED by harness/translators/tr_wiring.py (translate_elbo_branches) by symbolic evaluation of the branch\n"
        "    conditions of ELBO._call for score x entropy x rank of the sample shape x (last dimension = 1) — do not edit.\n"
        f"    {note}\n-/\n"
        "namespace TTGen.C14_Branch\nopen TT.C14\n\n"
        f"def translatorOk : Bool := {tf(ok)}\n\n"
        "def table : List ElboCase := [\n" + rows + "\n]\n\nend TTGen.C14_Branch\n"
    )
    return lean, ok, table
