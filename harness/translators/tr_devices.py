"""Translator: cuda()/cpu()/to() of the time-tree models  ->  lean/TTGen/C06_Devices.lean

For every tree-model class that can carry a node-height transform and every device/dtype method
(`cuda`, `cpu`, `to`) the method actually resolved through the class's MRO is read (AST of its
source, following `super().m(...)` and calls of helper methods `self._x()`), and what it does to
`self.transform` is classified as a `TT.C06.DevAction`:

  (no assignment to self.transform)                              -> .keep
  self.transform = GeneralNodeHeightTransform(self, ...)         -> .install .ratio
  self.transform = DifferenceNodeHeightTransform(self, ...)      -> .install .difference
  self.transform = type(self.transform)(self, ...)               -> .reinstall
  self.transform = self.transform.__class__(self, ...)           -> .reinstall
  if isinstance(self.transform, K1): self.transform = K1(...)
  [elif isinstance(self.transform, K2): self.transform = K2(...)]
  else: self.transform = K2(...)        (every branch rebuilds the class it tested for, and the
                                         else-branch the only remaining class)  -> .reinstall
  the same reached through private helpers of the class (also as factories: `self.transform = self._make(flag)`
  with `flag = not isinstance(self.transform, K)`), local variables, conditional expressions: every method is
  EVALUATED once per current parameterisation (there are two), following super() and self._helper() calls
  anything else that stores to / deletes `.transform` or calls setattr(..., 'transform', ...), or a test whose value
  cannot be determined around such a store                       -> .unrecognised

The constructor is read the same way: which class `__init__` installs for which argument
(`ratios_root_height is not None` -> ratio, else -> difference).

`.unrecognised` makes `TTProps.C06.device_keeps_kind` fail to build (DevAction.apply = none).
"""
from __future__ import annotations

import ast
import importlib
import inspect
import sys
import textwrap
from pathlib import Path

KINDS = {"GeneralNodeHeightTransform": "ratio", "DifferenceNodeHeightTransform": "difference"}
METHODS = ("cuda", "cpu", "to")


class Unrecognised(Exception):
    pass


class _Return(Exception):
    def __init__(self, value):
        self.value = value


UNKNOWN = ("unknown",)


def _is_self_transform(e):
    return (isinstance(e, ast.Attribute) and e.attr == "transform"
            and isinstance(e.value, ast.Name) and e.value.id == "self")


def _kind_name(k):
    name = k.id if isinstance(k, ast.Name) else (k.attr if isinstance(k, ast.Attribute) else None)
    return KINDS.get(name)


def _touches_transform(node):
    for n in ast.walk(node):
        if isinstance(n, ast.Attribute) and n.attr == "transform" and isinstance(n.ctx, (ast.Store, ast.Del)):
            return True
        if isinstance(n, ast.Call) and isinstance(n.func, ast.Name) and n.func.id in ("setattr", "delattr") and any(
                isinstance(a, ast.Constant) and a.value == "transform" for a in n.args):
            return True
        if isinstance(n, ast.Return):
            return True
    return False


class Reader:
    """Concrete evaluation of a method body for ONE current parameterisation (`kind`): there are only two, so the
    effect of a method on `self.transform` is obtained by running it once per kind. Followed: `super().m(...)`, helper
    methods `self._x(...)` of the torchtree.evolution classes in the MRO (also as factories whose return value is
    assigned), local variables, `isinstance(self.transform, K)`, `not/and/or`, `x is (not) None`, conditional
    expressions, `type(self.transform)(self, …)`, `self.transform.__class__(self, …)`, tuple assignments, local variables
    holding one of the two transform classes, module-level torchtree functions (also re-exported from another module) and
    `functools.singledispatch` functions (the implementation registered for the class of the first argument). A test whose value cannot be
    determined and whose branches store to `.transform` (or return) is UNRECOGNISED."""

    def __init__(self, cls):
        self.cls = cls
        self.mro = cls.__mro__
        self.depth = 0
        self.kind = None        # current parameterisation (None before __init__ installs one)
        self.assigned = False

    # ---- source access
    def func_ast(self, owner, name):
        fn = owner.__dict__[name]
        fn = getattr(fn, "__func__", fn)
        src = textwrap.dedent(inspect.getsource(fn))
        node = ast.parse(src).body[0]
        if not isinstance(node, ast.FunctionDef):
            raise Unrecognised(f"{owner.__name__}.{name} is not a plain function")
        return node

    def resolve(self, name, after=None):
        seen = after is None
        for c in self.mro:
            if seen and name in c.__dict__ and c.__module__.startswith("torchtree."):
                return c
            if c is after:
                seen = True
        return None

    # ---- calls
    def call_method(self, name, args, kwargs, after=None):
        owner = self.resolve(name, after)
        if owner is None:
            return None
        self.depth += 1
        if self.depth > 12:
            raise Unrecognised("call chain too deep")
        try:
            fn = self.func_ast(owner, name)
            params = [a.arg for a in fn.args.args][1:]  # drop self
            env = {}
            defaults = fn.args.defaults
            for p_, d in zip(params[len(params) - len(defaults):], defaults):
                env[p_] = d.value if isinstance(d, ast.Constant) else UNKNOWN
            for p_, v in zip(params, args):
                env[p_] = v
            for k_, v in kwargs.items():
                env[k_] = v
            for p_ in params:
                env.setdefault(p_, UNKNOWN)
            try:
                self.block(fn.body, owner, env)
            except _Return as r:
                return r.value
            return None
        finally:
            self.depth -= 1

    def kind_class(self, kind):
        import importlib

        mod = importlib.import_module("torchtree.evolution.tree_height_transform")
        name = next(n for n, k in KINDS.items() if k == kind)
        for m_ in (sys.modules.get(self.cls.__module__), mod):
            c = getattr(m_, name, None)
            if c is not None:
                return c
        raise Unrecognised("class of kind " + kind + " not found")

    def call_function(self, fn_obj, args, kwargs):
        """evaluate a plain (module-level) function of torchtree on already evaluated arguments"""
        self.depth += 1
        if self.depth > 12:
            raise Unrecognised("call chain too deep")
        try:
            fn_obj = getattr(fn_obj, "__wrapped__", fn_obj)
            node = ast.parse(textwrap.dedent(inspect.getsource(fn_obj))).body[0]
            if not isinstance(node, ast.FunctionDef):
                return UNKNOWN
            params = [a.arg for a in node.args.args]
            env = {}
            for p_, d in zip(params[len(params) - len(node.args.defaults):], node.args.defaults):
                env[p_] = d.value if isinstance(d, ast.Constant) else UNKNOWN
            for p_, v in zip(params, args):
                env[p_] = v
            env.update(kwargs)
            for p_ in params:
                env.setdefault(p_, UNKNOWN)
            owner = type("_M", (), {"__module__": fn_obj.__module__})
            try:
                self.block(node.body, owner, env)
            except _Return as r:
                return r.value
            return None
        finally:
            self.depth -= 1

    # ---- expressions
    def ev(self, e, owner, env):
        if isinstance(e, ast.Constant):
            return e.value
        if isinstance(e, ast.Name):
            if e.id in env:
                return env[e.id]
            if e.id == "self":
                return ("self",)
            if e.id in KINDS:
                return ("cls", KINDS[e.id])
            return UNKNOWN
        if isinstance(e, ast.Tuple):
            return ("tuple", [self.ev(v, owner, env) for v in e.elts])
        if _is_self_transform(e):
            return ("tr", self.kind)
        if isinstance(e, ast.UnaryOp) and isinstance(e.op, ast.Not):
            v = self.ev(e.operand, owner, env)
            return UNKNOWN if v is UNKNOWN or isinstance(v, tuple) else (not v)
        if isinstance(e, ast.BoolOp):
            vals = [self.ev(v, owner, env) for v in e.values]
            if any(v is UNKNOWN or isinstance(v, tuple) for v in vals):
                return UNKNOWN
            return all(vals) if isinstance(e.op, ast.And) else any(vals)
        if isinstance(e, ast.IfExp):
            t = self.ev(e.test, owner, env)
            if t is UNKNOWN or isinstance(t, tuple):
                return UNKNOWN
            return self.ev(e.body if t else e.orelse, owner, env)
        if isinstance(e, ast.Compare) and len(e.ops) == 1 and isinstance(e.ops[0], (ast.Is, ast.IsNot)) \
                and isinstance(e.comparators[0], ast.Constant) and e.comparators[0].value is None:
            v = self.ev(e.left, owner, env)
            if v is UNKNOWN:
                return UNKNOWN
            return (v is None) if isinstance(e.ops[0], ast.Is) else (v is not None)
        if isinstance(e, ast.Call):
            f = e.func
            if isinstance(f, ast.Name) and f.id == "isinstance" and len(e.args) == 2:
                v = self.ev(e.args[0], owner, env)
                if isinstance(v, tuple) and v[0] == "tr" and v[1] is not None:
                    ks = e.args[1].elts if isinstance(e.args[1], ast.Tuple) else [e.args[1]]
                    names = [_kind_name(k) for k in ks]
                    if all(n is not None for n in names):
                        return v[1] in names
                return UNKNOWN
            # constructors of the two transforms, built for this tree
            kn = _kind_name(f)
            fv = self.ev(f, owner, env) if isinstance(f, ast.Name) else None
            if kn is None and isinstance(fv, tuple) and fv[0] == "cls":
                kn = fv[1]  # a local variable holding one of the two transform classes
            if kn is not None and not (isinstance(f, ast.Name) and f.id in env and not (isinstance(fv, tuple) and fv[0] == "cls")):
                if not (e.args and self.ev(e.args[0], owner, env) == ("self",)):
                    raise Unrecognised("transform built for another tree: " + ast.unparse(e))
                return ("tr", kn)
            # module-level functions of torchtree (also re-exported ones), incl. functools.singledispatch functions:
            # the implementation registered for the class of the first argument is the one evaluated
            if isinstance(f, ast.Name) and f.id not in env:
                obj = getattr(sys.modules.get(owner.__module__), f.id, None)
                args = [self.ev(a, owner, env) for a in e.args]
                kwargs = {k.arg: self.ev(k.value, owner, env) for k in e.keywords if k.arg}
                if obj is not None and hasattr(obj, "dispatch") and hasattr(obj, "registry"):
                    if not (args and isinstance(args[0], tuple) and args[0][0] == "tr" and args[0][1] is not None):
                        return UNKNOWN
                    klass = self.kind_class(args[0][1])
                    return self.call_function(obj.dispatch(klass), args, kwargs)
                if inspect.isfunction(obj) and getattr(obj, "__module__", "").startswith("torchtree."):
                    return self.call_function(obj, args, kwargs)
            if (isinstance(f, ast.Call) and isinstance(f.func, ast.Name) and f.func.id == "type"
                    and len(f.args) == 1) or (isinstance(f, ast.Attribute) and f.attr == "__class__"):
                inner = f.args[0] if isinstance(f, ast.Call) else f.value
                v = self.ev(inner, owner, env)
                if isinstance(v, tuple) and v[0] == "tr" and v[1] is not None:
                    return ("tr", v[1])
                return UNKNOWN
            if isinstance(f, ast.Attribute) and isinstance(f.value, ast.Name) and f.value.id == "self" and self.resolve(f.attr):
                args = [self.ev(a, owner, env) for a in e.args]
                kwargs = {k.arg: self.ev(k.value, owner, env) for k in e.keywords if k.arg}
                r = self.call_method(f.attr, args, kwargs)
                return UNKNOWN if r is None and False else r
            if isinstance(f, ast.Attribute) and isinstance(f.value, ast.Call) and isinstance(f.value.func, ast.Name) \
                    and f.value.func.id == "super":
                args = [self.ev(a, owner, env) for a in e.args]
                kwargs = {k.arg: self.ev(k.value, owner, env) for k in e.keywords if k.arg}
                return self.call_method(f.attr, args, kwargs, after=owner)
            # explicit base-class call: Base.method(self, ...)
            if isinstance(f, ast.Attribute) and isinstance(f.value, ast.Name) and e.args \
                    and isinstance(e.args[0], ast.Name) and e.args[0].id == "self":
                base = next((c for c in self.mro if c.__name__ == f.value.id and f.attr in c.__dict__
                             and c.__module__.startswith("torchtree.")), None)
                if base is not None:
                    saved = self.mro
                    try:
                        self.mro = tuple(c for c in saved[saved.index(base):])
                        args = [self.ev(a, owner, env) for a in e.args[1:]]
                        kwargs = {k.arg: self.ev(k.value, owner, env) for k in e.keywords if k.arg}
                        return self.call_method(f.attr, args, kwargs)
                    finally:
                        self.mro = saved
            return UNKNOWN
        return UNKNOWN

    # ---- statements
    def block(self, stmts, owner, env):
        for st in stmts:
            self.stmt(st, owner, env)

    def stmt(self, st, owner, env):
        if isinstance(st, ast.Return):
            raise _Return(self.ev(st.value, owner, env) if st.value is not None else None)
        if isinstance(st, (ast.Assign, ast.AnnAssign)):
            targets = st.targets if isinstance(st, ast.Assign) else [st.target]
            if any(_is_self_transform(t) for t in targets):
                if len(targets) != 1 or st.value is None:
                    raise Unrecognised(ast.unparse(st))
                v = self.ev(st.value, owner, env)
                if not (isinstance(v, tuple) and v[0] == "tr" and v[1] is not None):
                    raise Unrecognised("self.transform = " + ast.unparse(st.value)[:80])
                self.kind, self.assigned = v[1], True
                return
            if st.value is not None:
                v = self.ev(st.value, owner, env)
                for t in targets:
                    if isinstance(t, ast.Tuple) and isinstance(v, tuple) and v[0] == "tuple" and len(v[1]) == len(t.elts):
                        for te, tv in zip(t.elts, v[1]):
                            if isinstance(te, ast.Name):
                                env[te.id] = tv
                        continue
                    if isinstance(t, ast.Name):
                        env[t.id] = v
                    elif _touches_transform(t):
                        raise Unrecognised(ast.unparse(st)[:100])
            return
        if isinstance(st, ast.If):
            t = self.ev(st.test, owner, env)
            if t is UNKNOWN or isinstance(t, tuple):
                if _touches_transform(st):
                    raise Unrecognised("condition " + ast.unparse(st.test)[:80])
                return
            self.block(st.body if t else st.orelse, owner, env)
            return
        if isinstance(st, ast.Expr):
            if isinstance(st.value, ast.Call):
                self.ev(st.value, owner, env)
            if _touches_transform(st):
                raise Unrecognised(ast.unparse(st)[:100])
            return
        if isinstance(st, (ast.Pass,)):
            return
        if _touches_transform(st):
            raise Unrecognised(ast.unparse(st)[:100])

    # ---- effect of a whole method for one current kind
    def effect(self, name, kind):
        self.kind, self.assigned = kind, False
        self.call_method(name, [UNKNOWN] * 0, {})
        return self.kind, self.assigned


def method_action(cls, name):
    """DevAction of `cls.name` obtained by running it once per current parameterisation"""
    kinds = sorted(set(KINDS.values()))
    after, assigned = {}, False
    for k in kinds:
        r = Reader(cls)
        after[k], a = r.effect(name, k)
        assigned = assigned or a
    if all(after[k] == k for k in kinds):
        return ("reinstall",) if assigned else ("keep",)
    if len(set(after.values())) == 1:
        return ("install", next(iter(after.values())))
    raise Unrecognised(f"{name} maps {after}")


def init_kinds(cls):
    """which parameterisation __init__ installs for which argument: __init__ is run with exactly one of its
    parameter arguments given -> [(argument name given, kind)]"""
    r = Reader(cls)
    fn = r.func_ast(cls, "__init__")
    args = [a.arg for a in fn.args.args]
    cands = [a for a in args if a not in ("self", "id_", "tree", "taxa")]
    out = []
    for given in cands:
        rd = Reader(cls)
        rd.kind, rd.assigned = None, False
        rd.call_method("__init__", [], {a: ("given" if a == given else None) for a in cands} | {a: UNKNOWN for a in ("id_", "tree", "taxa")})
        if rd.kind is None:
            raise Unrecognised(f"__init__ with {given} installs no transform")
        out.append((given, rd.kind))
    if not out:
        raise Unrecognised("__init__ has no parameter argument")
    return out


def lean_action(a):
    return {"keep": ".keep", "reinstall": ".reinstall", "unrecognised": ".unrecognised"}.get(a[0]) or f"(.install .{a[1]})"


def translate(repo: Path):
    """returns (lean_source, ok, note, table) — table: [(class, method, action tuple)]"""
    notes = []
    table = []
    inits = []
    ok = True
    try:
        p = str(repo)
        if p not in sys.path:
            sys.path.insert(0, p)
        tm = importlib.import_module("torchtree.evolution.tree_model")
        if not str(Path(inspect.getsourcefile(tm)).resolve()).startswith(str(Path(repo).resolve())):
            raise Unrecognised(f"torchtree imported from {inspect.getsourcefile(tm)}, not {repo}")
        importlib.import_module("torchtree.evolution.tree_model_flexible")
        base = tm.TimeTreeModel

        def subclasses(c):
            out = []
            for s in c.__subclasses__():
                out.append(s)
                out += subclasses(s)
            return out

        classes = [base] + [c for c in dict.fromkeys(subclasses(base)) if c.__module__.startswith("torchtree.")]
        for c in classes:
            carries = any("self.transform" in inspect.getsource(k.__dict__["__init__"])
                          for k in c.__mro__
                          if k.__module__.startswith("torchtree.evolution") and "__init__" in k.__dict__)
            if not carries:
                continue
            try:
                inits += [(c.__name__, a, k) for a, k in init_kinds(c)]
            except Unrecognised as e:
                ok = False
                notes.append(f"{c.__name__}.__init__: {e}")
            for m in METHODS:
                try:
                    act = method_action(c, m)
                except (Unrecognised, OSError, TypeError, SyntaxError) as e:
                    act = ("unrecognised",)
                    ok = False
                    notes.append(f"{c.__name__}.{m}: {type(e).__name__}: {e}")
                table.append((c.__name__, m, act))
        if not table:
            raise Unrecognised("no tree model carrying a transform found")
    except Exception as e:  # import failure or shape not understood at all
        ok = False
        notes.append(f"UNRECOGNISED: {type(e).__name__}: {e}")
        table = table or [("?", "?", ("unrecognised",))]
    note = "; ".join(notes)
    rows = ",\n  ".join(f'("{c}", "{m}", {lean_action(a)})' for c, m, a in table)
    irows = ",\n  ".join(f'("{c}", "{a}", .{k})' for c, a, k in inits)
    src = f"""import TTModel.C06_Heights
/-!
GENERATED by harness/translators/tr_devices.py from torchtree/evolution/tree_model.py
(cuda/cpu/to as resolved through each class's MRO). Do not edit: rewritten on every ./check C06.
translator note: {note or "every method body recognised"}
-/
namespace TTGen.C06Devices
open TT.C06

def translatorOk : Bool := {"true" if ok else "false"}

/-- (class, method, what the method does to `self.transform`) -/
def table : List (String × String × DevAction) := [
  {rows}]

/-- (class, constructor argument given, parameterisation `__init__` installs) -/
def inits : List (String × String × Kind) := [
  {irows}]

end TTGen.C06Devices
"""
    return src, ok, note, table


if __name__ == "__main__":
    import os
    s, ok, note, table = translate(Path(os.environ.get("TT_REPO", "/repo")))
    print(s)
    print(ok, note, file=sys.stderr)
