"""Translator: cuda()/cpu()/to() of the time-tree models  ->  lean/TTGen/C06_Devices.lean

For every tree-model class that can carry a node-height transform and every device/dtype method
(`cuda`, `cpu`, `to`) the method actually resolved through the class's MRO is read (AST of its
source, following `super().m(...)` and calls of helper methods `self._x()`), and what it does to
`self.transform` is classified as a `TT.C06.DevAction`:

  (no assignment to self.transform)                              -> .keep
  self.transform = GeneralNodeHeightTransform(self, ...)         -> .install .ratio
  self.transform = DifferenceNodeHeightTransform(self, ...)      -> .install .difference
  self.transform = type(self.transform)(self, ...)               -> .reinstall
  self.transform = self.transform.__class__(self, ...)           -> .reinstall
  if isinstance(self.transform, K1): self.transform = K1(...)
  [elif isinstance(self.transform, K2): self.transform = K2(...)]
  else: self.transform = K2(...)        (every branch rebuilds the class it tested for, and the
                                         else-branch the only remaining class)  -> .reinstall
  anything else that stores to / deletes `.transform` or calls setattr(..., 'transform', ...)
                                                                 -> .unrecognised

The constructor is read the same way: which class `__init__` installs for which argument
(`ratios_root_height is not None` -> ratio, else -> difference).

`.unrecognised` makes `TTProps.C06.device_keeps_kind` fail to build (DevAction.apply = none).
"""
from __future__ import annotations

import ast
import importlib
import inspect
import sys
import textwrap
from pathlib import Path

KINDS = {"GeneralNodeHeightTransform": "ratio", "DifferenceNodeHeightTransform": "difference"}
METHODS = ("cuda", "cpu", "to")


class Unrecognised(Exception):
    pass


def _is_self_transform(e):
    return (isinstance(e, ast.Attribute) and e.attr == "transform"
            and isinstance(e.value, ast.Name) and e.value.id == "self")


def _ctor_kind(call):
    """value assigned to self.transform -> ('install', kind) | ('reinstall',)"""
    if not isinstance(call, ast.Call):
        raise Unrecognised("self.transform = " + ast.unparse(call))
    f = call.func
    if not (call.args and isinstance(call.args[0], ast.Name) and call.args[0].id == "self"):
        raise Unrecognised("transform built for another tree: " + ast.unparse(call))
    if isinstance(f, ast.Name) and f.id in KINDS:
        return ("install", KINDS[f.id])
    if isinstance(f, ast.Attribute) and f.attr in KINDS:
        return ("install", KINDS[f.attr])
    if (isinstance(f, ast.Call) and isinstance(f.func, ast.Name) and f.func.id == "type"
            and len(f.args) == 1 and _is_self_transform(f.args[0])):
        return ("reinstall",)
    if isinstance(f, ast.Attribute) and f.attr == "__class__" and _is_self_transform(f.value):
        return ("reinstall",)
    raise Unrecognised("self.transform = " + ast.unparse(call))


def compose(a, b):
    """effect of doing a then b"""
    if a[0] == "unrecognised" or b[0] == "unrecognised":
        return ("unrecognised",)
    if b[0] == "keep":
        return a
    if b[0] == "install":
        return b
    # b == reinstall
    if a[0] == "keep":
        return b
    return a


def _isinstance_test(test):
    """isinstance(self.transform, K) -> kind"""
    if (isinstance(test, ast.Call) and isinstance(test.func, ast.Name) and test.func.id == "isinstance"
            and len(test.args) == 2 and _is_self_transform(test.args[0])):
        k = test.args[1]
        name = k.id if isinstance(k, ast.Name) else (k.attr if isinstance(k, ast.Attribute) else None)
        if name in KINDS:
            return KINDS[name]
    return None


class Reader:
    def __init__(self, cls):
        self.cls = cls
        self.mro = cls.__mro__
        self.depth = 0

    def func_ast(self, owner, name):
        fn = owner.__dict__[name]
        fn = getattr(fn, "__func__", fn)
        src = textwrap.dedent(inspect.getsource(fn))
        node = ast.parse(src).body[0]
        if not isinstance(node, ast.FunctionDef):
            raise Unrecognised(f"{owner.__name__}.{name} is not a plain function")
        return node

    def resolve(self, name, after=None):
        """class in the MRO (strictly after `after`) defining `name`"""
        seen = after is None
        for c in self.mro:
            if seen and name in c.__dict__:
                return c
            if c is after:
                seen = True
        return None

    def method_action(self, name, after=None):
        owner = self.resolve(name, after)
        if owner is None:
            return ("keep",)
        self.depth += 1
        if self.depth > 12:
            raise Unrecognised("call chain too deep")
        try:
            fn = self.func_ast(owner, name)
            return self.block(fn.body, owner)
        finally:
            self.depth -= 1

    def block(self, stmts, owner):
        act = ("keep",)
        for st in stmts:
            act = compose(act, self.stmt(st, owner))
        return act

    def stmt(self, st, owner):
        # assignment to self.transform
        if isinstance(st, ast.Assign) and any(_is_self_transform(t) for t in st.targets):
            if len(st.targets) != 1:
                raise Unrecognised(ast.unparse(st))
            return _ctor_kind(st.value)
        if isinstance(st, ast.If):
            return self.if_action(st, owner)
        # super().m(...) and self._helper(...)
        act = ("keep",)
        for call in [n for n in ast.walk(st) if isinstance(n, ast.Call)]:
            f = call.func
            if isinstance(f, ast.Attribute):
                if (isinstance(f.value, ast.Call) and isinstance(f.value.func, ast.Name)
                        and f.value.func.id == "super"):
                    act = compose(act, self.method_action(f.attr, after=owner))
                elif isinstance(f.value, ast.Name) and f.value.id == "self" and self.resolve(f.attr):
                    tgt = self.resolve(f.attr)
                    if tgt.__module__.startswith("torchtree.evolution"):
                        act = compose(act, self.method_action(f.attr))
            if isinstance(f, ast.Name) and f.id in ("setattr", "delattr"):
                if any(isinstance(a, ast.Constant) and a.value == "transform" for a in call.args):
                    raise Unrecognised(ast.unparse(st))
        # any other store / delete of a `.transform` attribute
        for n in ast.walk(st):
            if isinstance(n, ast.Attribute) and n.attr == "transform" and isinstance(n.ctx, (ast.Store, ast.Del)):
                raise Unrecognised(ast.unparse(st)[:100])
        return act

    def if_action(self, st, owner):
        """if/elif chain on isinstance(self.transform, K): every branch must rebuild K"""
        mentions = any(isinstance(n, ast.Attribute) and n.attr == "transform" and isinstance(n.ctx, (ast.Store, ast.Del))
                       for n in ast.walk(st))
        if not mentions:
            a = self.block(st.body, owner)
            b = self.block(st.orelse, owner)
            if a == b:
                return a
            raise Unrecognised("branches differ: " + ast.unparse(st.test))
        remaining = set(KINDS.values())
        cur = st
        while True:
            k = _isinstance_test(cur.test)
            if k is None or k not in remaining:
                raise Unrecognised("condition " + ast.unparse(cur.test))
            a = self.block(cur.body, owner)
            if a not in (("install", k), ("reinstall",)):
                raise Unrecognised(f"branch for {k} does {a}")
            remaining.discard(k)
            if len(cur.orelse) == 1 and isinstance(cur.orelse[0], ast.If):
                cur = cur.orelse[0]
                continue
            if cur.orelse:
                a = self.block(cur.orelse, owner)
                if len(remaining) == 1 and a in (("install", next(iter(remaining))), ("reinstall",)):
                    remaining.clear()
                elif not (len(remaining) == 0 and a == ("keep",)):
                    raise Unrecognised(f"else branch does {a} with {sorted(remaining)} untested")
            break
        if remaining:
            # kinds not tested keep the transform that was installed before the move
            pass
        return ("reinstall",)


def init_kinds(cls):
    """__init__: `if <arg> is not None: ...self.transform = K1(self) else: ...self.transform = K2(self)`
    -> [(argument name given, kind)]"""
    rd = Reader(cls)
    fn = rd.func_ast(cls, "__init__")
    out = []
    for st in fn.body:
        if isinstance(st, ast.If) and any(_is_self_transform(t) for n in ast.walk(st) if isinstance(n, ast.Assign)
                                          for t in n.targets):
            t = st.test
            if not (isinstance(t, ast.Compare) and isinstance(t.left, ast.Name) and len(t.ops) == 1
                    and isinstance(t.ops[0], ast.IsNot) and isinstance(t.comparators[0], ast.Constant)
                    and t.comparators[0].value is None):
                raise Unrecognised("__init__ condition " + ast.unparse(t))
            argname = t.left.id
            args = [a.arg for a in fn.args.args]
            others = [a for a in args if a not in ("self", "id_", "tree", "taxa", argname)]
            a = rd.block(st.body, cls)
            b = rd.block(st.orelse, cls)
            if a[0] != "install" or b[0] != "install" or len(others) != 1:
                raise Unrecognised(f"__init__ installs {a} / {b}")
            out = [(argname, a[1]), (others[0], b[1])]
    if not out:
        raise Unrecognised("__init__ does not install a transform under an `is not None` test")
    return out


def lean_action(a):
    return {"keep": ".keep", "reinstall": ".reinstall", "unrecognised": ".unrecognised"}.get(a[0]) or f"(.install .{a[1]})"


def translate(repo: Path):
    """returns (lean_source, ok, note, table) — table: [(class, method, action tuple)]"""
    notes = []
    table = []
    inits = []
    ok = True
    try:
        p = str(repo)
        if p not in sys.path:
            sys.path.insert(0, p)
        tm = importlib.import_module("torchtree.evolution.tree_model")
        if not str(Path(inspect.getsourcefile(tm)).resolve()).startswith(str(Path(repo).resolve())):
            raise Unrecognised(f"torchtree imported from {inspect.getsourcefile(tm)}, not {repo}")
        importlib.import_module("torchtree.evolution.tree_model_flexible")
        base = tm.TimeTreeModel

        def subclasses(c):
            out = []
            for s in c.__subclasses__():
                out.append(s)
                out += subclasses(s)
            return out

        classes = [base] + [c for c in dict.fromkeys(subclasses(base)) if c.__module__.startswith("torchtree.")]
        for c in classes:
            carries = any("self.transform" in inspect.getsource(k.__dict__["__init__"])
                          for k in c.__mro__
                          if k.__module__.startswith("torchtree.evolution") and "__init__" in k.__dict__)
            if not carries:
                continue
            try:
                inits += [(c.__name__, a, k) for a, k in init_kinds(c)]
            except Unrecognised as e:
                ok = False
                notes.append(f"{c.__name__}.__init__: {e}")
            for m in METHODS:
                try:
                    act = Reader(c).method_action(m)
                except (Unrecognised, OSError, TypeError, SyntaxError) as e:
                    act = ("unrecognised",)
                    ok = False
                    notes.append(f"{c.__name__}.{m}: {type(e).__name__}: {e}")
                table.append((c.__name__, m, act))
        if not table:
            raise Unrecognised("no tree model carrying a transform found")
    except Exception as e:  # import failure or shape not understood at all
        ok = False
        notes.append(f"UNRECOGNISED: {type(e).__name__}: {e}")
        table = table or [("?", "?", ("unrecognised",))]
    note = "; ".join(notes)
    rows = ",\n  ".join(f'("{c}", "{m}", {lean_action(a)})' for c, m, a in table)
    irows = ",\n  ".join(f'("{c}", "{a}", .{k})' for c, a, k in inits)
    src = f"""import TTModel.C06_Heights
/-!
GENERATED by harness/translators/tr_devices.py from torchtree/evolution/tree_model.py
(cuda/cpu/to as resolved through each class's MRO). Do not edit: rewritten on every ./check C06.
translator note: {note or "every method body recognised"}
-/
namespace TTGen.C06Devices
open TT.C06

def translatorOk : Bool := {"true" if ok else "false"}

/-- (class, method, what the method does to `self.transform`) -/
def table : List (String × String × DevAction) := [
  {rows}]

/-- (class, constructor argument given, parameterisation `__init__` installs) -/
def inits : List (String × String × Kind) := [
  {irows}]

end TTGen.C06Devices
"""
    return src, ok, note, table


if __name__ == "__main__":
    import os
    s, ok, note, table = translate(Path(os.environ.get("TT_REPO", "/repo")))
    print(s)
    print(ok, note, file=sys.stderr)
