"""Translator: torchtree/evolution/datatype.py  ->  lean/TTGen/C01_Alphabet.lean

Emits, as Lean literals, the tables the tip vectors are read from

  NucleotideDataType.NUCLEOTIDE_STATES            (128 ints: ord(char) -> code)
  NucleotideDataType.NUCLEOTIDE_AMBIGUITY_STATES  (18 rows of 4 zero/one floats: code -> tip vector)
  the literal string of `partial`'s `string not in '...'` test and the states tuple of __init__
  AminoAcidDataType.AMINO_ACIDS_STATES / AMINO_ACIDS_AMBIGUITY_STATES (values after the class body ran)

The two tuple literals are read from the AST of the file; the amino-acid ambiguity table is built by
straight-line code in the class body, so its *value* is read from the imported class.  The methods
`encoding` and `partial` are hand-modelled in TTModel/C01_Patterns.lean; the translator compares the
AST of the real methods with the shape that model mirrors.  Anything unrecognised makes the emitted
file carry `recognised := false` and EMPTY tables, so that `TTProps.C01.iupac_table` (a `decide`
over the generated table) no longer builds; the reason is recorded in the header.
"""
from __future__ import annotations

import ast
import importlib.util
import sys
from pathlib import Path


class Unrecognised(Exception):
    pass


EXPECT_ENCODING = "return NucleotideDataType.NUCLEOTIDE_STATES[ord(string)]"
EXPECT_PARTIAL = (
    "if not use_ambiguities and string not in {lit!r}:\n"
    "    return (1.0,) * 4\n"
    "return NucleotideDataType.NUCLEOTIDE_AMBIGUITY_STATES[NucleotideDataType.NUCLEOTIDE_STATES[ord(string)]]"
)
EXPECT_AA_ENCODING = "return AminoAcidDataType.AMINO_ACIDS_STATES[ord(string)]"
EXPECT_AA_PARTIAL = (
    "if not use_ambiguities and string not in {lit!r}:\n"
    "    return AminoAcidDataType.AMINO_ACIDS_AMBIGUITY_STATES[-1]\n"
    "return AminoAcidDataType.AMINO_ACIDS_AMBIGUITY_STATES[AminoAcidDataType.AMINO_ACIDS_STATES[ord(string)]]"
)


EXPECT_CODON_ENCODING = (
    "n1 = NucleotideDataType.NUCLEOTIDE_STATES[ord(codon[0])]\n"
    "n2 = NucleotideDataType.NUCLEOTIDE_STATES[ord(codon[1])]\n"
    "n3 = NucleotideDataType.NUCLEOTIDE_STATES[ord(codon[2])]\n"
    "encoding = 65\n"
    "if n1 <= 3 and n2 <= 3 and (n3 <= 3):\n"
    "    encoding = n1 * 16 + n2 * 4 + n3\n"
    "    encoding -= self.stop_count[encoding]\n"
    "return encoding"
)
EXPECT_CODON_PARTIAL = (
    "encoding = self.encoding(string)\n"
    "if encoding == 65:\n"
    "    p = [1.0] * self._state_count\n"
    "else:\n"
    "    p = [0.0] * self._state_count\n"
    "    p[encoding] = 1.0\n"
    "return tuple(p)"
)
EXPECT_CODON_INIT = (
    "index = [code.lower() for code in CodonDataType.GENETIC_CODE_NAMES].index(genetic_code.lower())\n"
    "self.name = CodonDataType.GENETIC_CODE_NAMES[index]\n"
    "self._state_count = CodonDataType.NUMBER_OF_CODONS[index]\n"
    "self.table = CodonDataType.GENETIC_CODE_TABLES[index]\n"
    "self.triplets = CodonDataType.CODON_TRIPLETS\n"
    "nuc_type = NucleotideDataType(None)\n"
    "fn = lambda codon: nuc_type.encoding(codon[0]) * 16 + nuc_type.encoding(codon[1]) * 4 + nuc_type.encoding(codon[2])\n"
    "states = tuple((codon for i, codon in enumerate(self.triplets[:64]) if self.table[fn(codon)] != '*'))\n"
    "self.stop_count = np.array([int(codon == '*') for codon in self.table]).cumsum()\n"
    "super().__init__(id_, states)"
)
EXPECT_GENERAL_INIT = (
    "super().__init__(id_, codes)\n"
    "self.codes = {code: idx for idx, code in enumerate(codes)}\n"
    "self._encoding = self.codes.copy()\n"
    "self.ambiguities = ambiguities\n"
    "for ambiguity in ambiguities.keys():\n"
    "    self.codes[ambiguity] = np.array([self.codes[s] for s in ambiguities[ambiguity]])\n"
    "    if not isinstance(ambiguities[ambiguity], list) or len(ambiguities[ambiguity]) == 1:\n"
    "        self._encoding[ambiguity] = self.codes[ambiguities[ambiguity]]"
)
EXPECT_GENERAL_ENCODING = "return self._encoding.get(string, self.state_count)"
EXPECT_GENERAL_PARTIAL = (
    "if string in self.codes:\n"
    "    p = np.zeros(self.state_count)\n"
    "    p[self.codes[string]] = 1.0\n"
    "else:\n"
    "    p = np.ones(self.state_count)\n"
    "return tuple(p)"
)
EXPECT_ABSTRACT_INIT = (
    "super().__init__(id_)\n"
    "self._states = states\n"
    "self._state_count = len(states)\n"
    "self._size = len(states[0])"
)


def body_src(fn: ast.FunctionDef) -> str:
    body = fn.body
    if body and isinstance(body[0], ast.Expr) and isinstance(body[0].value, ast.Constant) and isinstance(body[0].value.value, str):
        body = body[1:]
    return "\n".join(ast.unparse(s) for s in body)


def find_class(tree, name):
    for n in tree.body:
        if isinstance(n, ast.ClassDef) and n.name == name:
            return n
    raise Unrecognised(f"class {name} not found")


def class_assign(cls, name):
    for n in cls.body:
        if isinstance(n, ast.Assign) and len(n.targets) == 1 and isinstance(n.targets[0], ast.Name) and n.targets[0].id == name:
            return n.value
    raise Unrecognised(f"{cls.name}.{name} not assigned by a simple statement")


def method(cls, name):
    for n in cls.body:
        if isinstance(n, ast.FunctionDef) and n.name == name:
            return n
    raise Unrecognised(f"{cls.name}.{name} not found")


def args_of(fn):
    a = fn.args
    return [x.arg for x in a.args], [ast.unparse(d) for d in a.defaults]


def membership_literal(fn):
    """the string literal of `string not in '<lit>'` in the first statement"""
    for n in ast.walk(fn):
        if isinstance(n, ast.Compare) and len(n.ops) == 1 and isinstance(n.ops[0], ast.NotIn):
            c = n.comparators[0]
            if isinstance(c, ast.Constant) and isinstance(c.value, str):
                return c.value
    raise Unrecognised(f"{fn.name}: no `string not in '<literal>'` test")


def zero_one_rows(rows, width, what):
    out = []
    for r in rows:
        r = list(r)
        if len(r) != width:
            raise Unrecognised(f"{what}: row of width {len(r)} (expected {width})")
        row = []
        for v in r:
            if isinstance(v, bool) or not isinstance(v, (int, float)) or v not in (0, 1):
                raise Unrecognised(f"{what}: entry {v!r} is not 0.0/1.0")
            row.append(int(v))
        out.append(row)
    return out


def lean_nat_list(xs):
    return "[" + ", ".join(str(int(x)) for x in xs) + "]"


def lean_char_list(s):
    """characters as their code points (`ord`)"""
    return "[" + ", ".join(str(ord(c)) for c in s) + "]"


def load_module(repo: Path):
    """import the datatype module of the tree under check (values of class-body computed tables)"""
    p = str(repo)
    if p not in sys.path:
        sys.path.insert(0, p)
    import importlib

    mod = importlib.import_module("torchtree.evolution.datatype")
    if not str(Path(mod.__file__).resolve()).startswith(str(repo.resolve())):
        raise Unrecognised(f"torchtree.evolution.datatype imported from {mod.__file__}, not from {repo}")
    return mod


def translate(repo: Path):
    """-> (lean source, recognised?, note)"""
    src_path = repo / "torchtree" / "evolution" / "datatype.py"
    note = "ok"
    try:
        tree = ast.parse(src_path.read_text())
        nuc = find_class(tree, "NucleotideDataType")
        states = ast.literal_eval(class_assign(nuc, "NUCLEOTIDE_STATES"))
        ambig = ast.literal_eval(class_assign(nuc, "NUCLEOTIDE_AMBIGUITY_STATES"))
        if not (isinstance(states, tuple) and all(isinstance(x, int) and not isinstance(x, bool) and x >= 0 for x in states)):
            raise Unrecognised("NUCLEOTIDE_STATES is not a tuple of non-negative ints")
        ambig_rows = zero_one_rows(ambig, 4, "NUCLEOTIDE_AMBIGUITY_STATES")
        enc, par, ini = method(nuc, "encoding"), method(nuc, "partial"), method(nuc, "__init__")
        if args_of(enc) != (["self", "string"], []):
            raise Unrecognised("NucleotideDataType.encoding signature " + str(args_of(enc)))
        if body_src(enc) != EXPECT_ENCODING:
            raise Unrecognised("NucleotideDataType.encoding body: " + body_src(enc))
        if args_of(par) != (["self", "string", "use_ambiguities"], ["True"]):
            raise Unrecognised("NucleotideDataType.partial signature " + str(args_of(par)))
        lit = membership_literal(par)
        if body_src(par) != EXPECT_PARTIAL.format(lit=lit):
            raise Unrecognised("NucleotideDataType.partial body: " + body_src(par))
        ini_src = body_src(ini)
        m = None
        for n in ast.walk(ini):
            if isinstance(n, ast.Call) and ast.unparse(n.func) == "super().__init__" and len(n.args) == 2:
                m = ast.literal_eval(n.args[1])
        if m is None or ini_src != f"super().__init__(id_, {m!r})":
            raise Unrecognised("NucleotideDataType.__init__ body: " + ini_src)
        nuc_states_tuple = m
        if not all(isinstance(s, str) and len(s) == 1 for s in nuc_states_tuple):
            raise Unrecognised("NucleotideDataType states tuple " + repr(nuc_states_tuple))

        aa = find_class(tree, "AminoAcidDataType")
        aa_states = ast.literal_eval(class_assign(aa, "AMINO_ACIDS_STATES"))
        aenc, apar = method(aa, "encoding"), method(aa, "partial")
        if body_src(aenc) != EXPECT_AA_ENCODING:
            raise Unrecognised("AminoAcidDataType.encoding body: " + body_src(aenc))
        alit = membership_literal(apar)
        if body_src(apar) != EXPECT_AA_PARTIAL.format(lit=alit):
            raise Unrecognised("AminoAcidDataType.partial body: " + body_src(apar))
        mod = load_module(repo)
        aa_cls = mod.AminoAcidDataType
        if tuple(aa_cls.AMINO_ACIDS_STATES) != tuple(aa_states):
            raise Unrecognised("AMINO_ACIDS_STATES: AST literal differs from imported value")
        if tuple(mod.NucleotideDataType.NUCLEOTIDE_STATES) != tuple(states):
            raise Unrecognised("NUCLEOTIDE_STATES: AST literal differs from imported value (reassigned later?)")
        if tuple(map(tuple, mod.NucleotideDataType.NUCLEOTIDE_AMBIGUITY_STATES)) != tuple(map(tuple, ambig)):
            raise Unrecognised("NUCLEOTIDE_AMBIGUITY_STATES: AST literal differs from imported value")
        aa_rows = zero_one_rows(aa_cls.AMINO_ACIDS_AMBIGUITY_STATES, 20, "AMINO_ACIDS_AMBIGUITY_STATES")
        aa_alphabet = aa_cls.AMINO_ACIDS
        # ---- CodonDataType: every genetic code shipped
        cod = find_class(tree, "CodonDataType")
        code_tables = ast.literal_eval(class_assign(cod, "GENETIC_CODE_TABLES"))
        code_names = ast.literal_eval(class_assign(cod, "GENETIC_CODE_NAMES"))
        n_codons = ast.literal_eval(class_assign(cod, "NUMBER_OF_CODONS"))
        triplets = ast.literal_eval(class_assign(cod, "CODON_TRIPLETS"))
        if not (isinstance(code_tables, tuple) and all(isinstance(t, str) and len(t) == 64 and all(ord(c) < 128 for c in t) for t in code_tables)):
            raise Unrecognised("GENETIC_CODE_TABLES is not a tuple of 64-character ASCII strings")
        if not (len(code_names) == len(code_tables) == len(n_codons) and all(isinstance(x, int) for x in n_codons)):
            raise Unrecognised("GENETIC_CODE_NAMES / NUMBER_OF_CODONS do not match GENETIC_CODE_TABLES")
        if not (isinstance(triplets, tuple) and all(isinstance(t, str) and len(t) == 3 for t in triplets)):
            raise Unrecognised("CODON_TRIPLETS is not a tuple of 3-character strings")
        for meth, want in (("encoding", EXPECT_CODON_ENCODING), ("partial", EXPECT_CODON_PARTIAL), ("__init__", EXPECT_CODON_INIT)):
            got = body_src(method(cod, meth))
            if got != want:
                raise Unrecognised(f"CodonDataType.{meth} body: " + got)
        if tuple(mod.CodonDataType.GENETIC_CODE_TABLES) != tuple(code_tables) or tuple(mod.CodonDataType.CODON_TRIPLETS) != tuple(triplets):
            raise Unrecognised("codon tables: AST literal differs from imported value")
        absd = find_class(tree, "AbstractDataType")
        if body_src(method(absd, "__init__")) != EXPECT_ABSTRACT_INIT:
            raise Unrecognised("AbstractDataType.__init__ body: " + body_src(method(absd, "__init__")))
        # ---- GeneralDataType: no table, the three methods are hand-modelled; their shape is checked
        gen = find_class(tree, "GeneralDataType")
        for meth, want in (("__init__", EXPECT_GENERAL_INIT), ("encoding", EXPECT_GENERAL_ENCODING), ("partial", EXPECT_GENERAL_PARTIAL)):
            got = body_src(method(gen, meth))
            if got != want:
                raise Unrecognised(f"GeneralDataType.{meth} body: " + got)
        recognised = True
    except (Unrecognised, SyntaxError, ValueError, OSError, ImportError, AttributeError) as e:
        recognised = False
        note = f"{type(e).__name__}: {e}"
        states, ambig_rows, lit, nuc_states_tuple = (), [], "", ()
        aa_states, aa_rows, alit, aa_alphabet = (), [], "", ""
        code_tables, code_names, n_codons, triplets = (), (), (), ()

    hdr_note = note.replace("-/", "- /").replace("\n", " ")[:400]
    lines = [
        "/-! GENERATED by harness/translators/tr_datatype.py from torchtree/evolution/datatype.py — do not edit.",
        f"    translator note: {hdr_note} -/",
        "namespace TTGen.C01",
        "",
        f"def recognised : Bool := {'true' if recognised else 'false'}",
        "",
        "/-- `NucleotideDataType.NUCLEOTIDE_STATES`: `ord(char)` → code -/",
        f"def nucStates : List Nat := {lean_nat_list(states)}",
        "",
        "/-- `NucleotideDataType.NUCLEOTIDE_AMBIGUITY_STATES`: code → tip vector over A,C,G,T -/",
        "def nucAmbig : List (List Nat) := [" + ", ".join(lean_nat_list(r) for r in ambig_rows) + "]",
        "",
        "/-- the literal of `string not in '…'` in `NucleotideDataType.partial` (code points) -/",
        f"def nucPlain : List Nat := {lean_char_list(lit)}",
        "",
        "/-- the states tuple passed to `AbstractDataType.__init__` -/",
        f"def nucStateChars : List Nat := {lean_char_list(''.join(nuc_states_tuple))}",
        "",
        "/-- `AminoAcidDataType.AMINO_ACIDS_STATES` -/",
        f"def aaStates : List Nat := {lean_nat_list(aa_states)}",
        "",
        "/-- `AminoAcidDataType.AMINO_ACIDS_AMBIGUITY_STATES` (value after the class body ran) -/",
        "def aaAmbig : List (List Nat) := [" + ",\n  ".join(lean_nat_list(r) for r in aa_rows) + "]",
        "",
        f"def aaPlain : List Nat := {lean_char_list(alit)}",
        "",
        "/-- `AminoAcidDataType.AMINO_ACIDS[:20]` -/",
        f"def aaStateChars : List Nat := {lean_char_list(aa_alphabet[:20])}",
        "",
        "/-- `CodonDataType.GENETIC_CODE_TABLES`: per genetic code, the amino acid (code point; `*` = 42 = stop) of the",
        "    64 triplets in the order AAA, AAC, AAG, AAT, ACA, … -/",
        "def geneticCodes : List (List Nat) := [" + ",\n  ".join(lean_char_list(t) for t in code_tables) + "]",
        "",
        "/-- `CodonDataType.GENETIC_CODE_NAMES` -/",
        "def geneticCodeNames : List String := [" + ", ".join('"' + nm.replace('"', "") + '"' for nm in code_names) + "]",
        "",
        "/-- `CodonDataType.NUMBER_OF_CODONS` -/",
        f"def numberOfCodons : List Nat := {lean_nat_list(n_codons)}",
        "",
        "/-- `CodonDataType.CODON_TRIPLETS` (code points) -/",
        "def codonTriplets : List (List Nat) := [" + ", ".join(lean_char_list(t) for t in triplets) + "]",
        "",
        "end TTGen.C01",
        "",
    ]
    return "\n".join(lines), recognised, note


if __name__ == "__main__":
    import os

    src, ok, note = translate(Path(os.environ.get("TT_REPO", "/repo")))
    print(src)
    print("--", ok, note, file=sys.stderr)
