"""Translator: torchtree/evolution/tree_likelihood.py:TreeLikelihoodModel._underflow -> lean/TTGen/C03_Underflow.lean

Reads the AST of the switch test (when does the model abandon the unrescaled pass) and emits its structure as data:

  recognised        the body has exactly the shape  [isinf guard; root = self.partials[<root>]; return bool(Q(R(root) < T))]
  stmtCount         number of statements (docstring excluded)
  isinfGuard        first statement is `if torch.any(torch.isinf(log_p)): return True`
  earlyFalseExits   number of `return False` anywhere (an early "no underflow" exit skips the per-site test)
  siteQuantifier    the reduction applied to the comparison ("any" / "all" / …): over sites and samples
  statistic         the reduction applied to the root partial ("amax" / "mean" / "sum" / "amin" / …)
  statDims          its `dim` (the code's [K,S,N] layout: (-3,-2) = category and state, per site)
  comparison        "<" …;  thresholdAttr  the attribute compared with

`TTProofs/Props/C03_Switch.lean: underflow_source_shape` states the expected values by `decide`, so replacing the
per-site max by a mean, `any` by `all`, other dims, or adding an early exit re-opens the obligation.  A body of any other
shape (or a missing method) is emitted with `recognised := false` and the reason.
"""
from __future__ import annotations

import ast
from pathlib import Path


def _call_name(e):
    """torch.any(x) -> ('any', [x]) ; bool(x) -> ('bool', [x])"""
    if isinstance(e, ast.Call):
        if isinstance(e.func, ast.Attribute) and isinstance(e.func.value, ast.Name) and e.func.value.id == "torch":
            return e.func.attr, e
        if isinstance(e.func, ast.Name):
            return e.func.id, e
    return None, None


def _lean_str(x):
    return '"' + str(x).replace("\\", "\\\\").replace('"', '\\"') + '"'


def translate(repo: Path):
    src_path = Path(repo) / "torchtree" / "evolution" / "tree_likelihood.py"
    f = {"recognised": False, "stmtCount": 0, "isinfGuard": False, "earlyFalseExits": 0, "siteQuantifier": "",
         "statistic": "", "statDims": [], "comparison": "", "thresholdAttr": ""}
    note = ""
    try:
        tree = ast.parse(src_path.read_text())
        fn = None
        for node in ast.walk(tree):
            if isinstance(node, ast.ClassDef) and node.name == "TreeLikelihoodModel":
                for b in node.body:
                    if isinstance(b, ast.FunctionDef) and b.name == "_underflow":
                        fn = b
        if fn is None:
            raise ValueError("TreeLikelihoodModel._underflow not found")
        body = list(fn.body)
        if body and isinstance(body[0], ast.Expr) and isinstance(getattr(body[0], "value", None), ast.Constant) \
                and isinstance(body[0].value.value, str):
            body = body[1:]
        f["stmtCount"] = len(body)
        f["earlyFalseExits"] = sum(1 for n in ast.walk(fn) if isinstance(n, ast.Return) and isinstance(n.value, ast.Constant)
                                   and n.value.value is False)
        # isinf guard
        if body and isinstance(body[0], ast.If) and not body[0].orelse and len(body[0].body) == 1 \
                and isinstance(body[0].body[0], ast.Return) and isinstance(body[0].body[0].value, ast.Constant) \
                and body[0].body[0].value.value is True:
            n1, c1 = _call_name(body[0].test)
            if n1 == "any" and len(c1.args) == 1:
                n2, c2 = _call_name(c1.args[0])
                if n2 == "isinf" and len(c2.args) == 1 and isinstance(c2.args[0], ast.Name) and c2.args[0].id == fn.args.args[1].arg:
                    f["isinfGuard"] = True
        # final return: bool(Q(R(root, dim=D) < self.T))
        ret = body[-1] if body else None
        shape_ok = False
        if isinstance(ret, ast.Return):
            e = ret.value
            n0, c0 = _call_name(e)
            if n0 == "bool" and len(c0.args) == 1:
                e = c0.args[0]
            nq, cq = _call_name(e)
            if nq and len(cq.args) == 1 and isinstance(cq.args[0], ast.Compare) and len(cq.args[0].ops) == 1:
                f["siteQuantifier"] = nq
                cmp_ = cq.args[0]
                f["comparison"] = {ast.Lt: "<", ast.LtE: "<=", ast.Gt: ">", ast.GtE: ">="}.get(type(cmp_.ops[0]), "?")
                rhs = cmp_.comparators[0]
                if isinstance(rhs, ast.Attribute) and isinstance(rhs.value, ast.Name) and rhs.value.id == "self":
                    f["thresholdAttr"] = rhs.attr
                ns, cs = _call_name(cmp_.left)
                if ns:
                    f["statistic"] = ns
                    dims = None
                    for kw in cs.keywords:
                        if kw.arg == "dim":
                            dims = ast.literal_eval(kw.value)
                    if dims is None and len(cs.args) > 1:
                        dims = ast.literal_eval(cs.args[1])
                    if dims is not None:
                        f["statDims"] = [int(d) for d in (dims if isinstance(dims, (tuple, list)) else [dims])]
                    root_name = cs.args[0].id if cs.args and isinstance(cs.args[0], ast.Name) else None
                    # middle: root = self.partials[self.tree_model.postorder[-1][0]]
                    mid = body[1:-1]
                    if len(mid) == 1 and isinstance(mid[0], ast.Assign) and len(mid[0].targets) == 1 \
                            and isinstance(mid[0].targets[0], ast.Name) and mid[0].targets[0].id == root_name \
                            and ast.unparse(mid[0].value).replace(" ", "") == "self.partials[self.tree_model.postorder[-1][0]]":
                        shape_ok = True
        f["recognised"] = bool(shape_ok and f["isinfGuard"] and len(body) == 3)
        if not f["recognised"]:
            note = "body of _underflow does not have the shape [isinf guard; root := root partial; return bool(Q(R(root) < T))]: " \
                   + " | ".join(ast.unparse(b).replace("\n", " ")[:90] for b in body)
    except Exception as e:  # unreadable source: never a silent default
        note = "%s: %s" % (type(e).__name__, e)
    lean = f"""/-! GENERATED by harness/translators/tr_c03_underflow.py from
    torchtree/evolution/tree_likelihood.py:TreeLikelihoodModel._underflow — do not edit.
    {note.replace('-/', '- /')}
-/
namespace TTGen.C03_Underflow

def recognised : Bool := {'true' if f['recognised'] else 'false'}
def stmtCount : Nat := {f['stmtCount']}
def isinfGuard : Bool := {'true' if f['isinfGuard'] else 'false'}
def earlyFalseExits : Nat := {f['earlyFalseExits']}
def siteQuantifier : String := {_lean_str(f['siteQuantifier'])}
def statistic : String := {_lean_str(f['statistic'])}
def statDims : List Int := [{', '.join(str(d) for d in f['statDims'])}]
def comparison : String := {_lean_str(f['comparison'])}
def thresholdAttr : String := {_lean_str(f['thresholdAttr'])}

end TTGen.C03_Underflow
"""
    return lean, f["recognised"], note, f
