"""Translator: the switch test of torchtree/evolution/tree_likelihood.py:TreeLikelihoodModel -> lean/TTGen/C03_Underflow.lean

The test is found by ROLE, not by name: the method (or inline expression) whose result gates the statement
`self.rescale = True` in the methods of `TreeLikelihoodModel` (today `calculate_with_tip_partials` and
`calculate_with_tip_states`; all gating sites must use the same test).  Its body is evaluated symbolically:

  * `name = expr`                       -> alias, substituted into later expressions (named intermediates);
  * `if G: return True`                 -> `G` becomes a disjunct of the test;
  * `return False` (anywhere)           -> counted in `earlyFalseExits` (an early "no underflow" exit skips the per-site test);
  * `return E`                          -> the last disjunct;
  * `self._helper(args)`                -> one level of private helpers of the class is inlined (body = aliases + `return E`);
  * `torch.f(x, ...)` and `x.f(...)`, `bool(x)`, `a > b` / `b < a`, `dim=(..)`/`dim=[..]`/positional dims are normalised.

Emitted structure (what the Lean obligation `underflow_source_shape` pins down):

  recognised        the test is  any(isinf(log_p))  OR  Q_sites( R(root partial, dims) < self.T )  and nothing else
  disjuncts         number of disjuncts (2)
  isinfGuard        one disjunct is `any(isinf(<the log-likelihood argument>))`
  earlyFalseExits   number of `return False`
  siteQuantifier    Q: "any" / "all" …        statistic  R: "amax" / "mean" / "sum" …     statDims  its dims
  comparison        "<" …                     thresholdAttr  T
  rootIsRootPartial the reduced tensor is `self.partials[self.tree_model.postorder[-1][0]]`

Renaming the method, naming intermediates, method-call spellings, early returns or `*arguments` at the call sites do not
change the output; replacing the per-site max by a mean, `any` by `all`, other dims, another tensor, or adding an early exit
does.  Anything that cannot be interpreted is emitted with `recognised := false` and the reason (never a silent default).
"""
from __future__ import annotations

import ast
import copy
from pathlib import Path


class Unrecognised(Exception):
    pass


def _lean_str(x):
    return '"' + str(x).replace("\\", "\\\\").replace('"', '\\"') + '"'


class _Subst(ast.NodeTransformer):
    def __init__(self, env):
        self.env = env

    def visit_Name(self, node):
        if isinstance(node.ctx, ast.Load) and node.id in self.env:
            return copy.deepcopy(self.env[node.id])
        return node


def subst(e, env):
    return _Subst(env).visit(copy.deepcopy(e))


def strip_doc(body):
    body = list(body)
    if body and isinstance(body[0], ast.Expr) and isinstance(getattr(body[0], "value", None), ast.Constant) \
            and isinstance(body[0].value.value, str):
        body = body[1:]
    return body


def inline_helpers(e, methods, depth=1):
    """replace `self._h(args)` by the helper's returned expression (one level)"""
    if depth <= 0:
        return e

    class T(ast.NodeTransformer):
        def visit_Call(self, node):
            self.generic_visit(node)
            f = node.func
            if isinstance(f, ast.Attribute) and isinstance(f.value, ast.Name) and f.value.id == "self" and f.attr in methods \
                    and not node.keywords:
                fn = methods[f.attr]
                params = [a.arg for a in fn.args.args][1:]
                if len(params) != len(node.args):
                    return node
                env = dict(zip(params, node.args))
                ret = None
                for st in strip_doc(fn.body):
                    if isinstance(st, ast.Assign) and len(st.targets) == 1 and isinstance(st.targets[0], ast.Name):
                        env[st.targets[0].id] = subst(st.value, env)
                    elif isinstance(st, ast.Return) and st.value is not None:
                        ret = subst(st.value, env)
                        break
                    else:
                        return node
                return ret if ret is not None else node
            return node

    return T().visit(copy.deepcopy(e))


def norm_call(e):
    """-> (fname, receiver/first arg, other args, keywords) for torch.f(x, ...) / x.f(...) / f(x)"""
    if not isinstance(e, ast.Call):
        return None
    f = e.func
    if isinstance(f, ast.Attribute):
        if isinstance(f.value, ast.Name) and f.value.id == "torch":
            if not e.args:
                return None
            return f.attr, e.args[0], e.args[1:], e.keywords
        return f.attr, f.value, e.args, e.keywords
    if isinstance(f, ast.Name):
        if not e.args:
            return None
        return f.id, e.args[0], e.args[1:], e.keywords
    return None


def unbool(e):
    c = norm_call(e)
    while c and c[0] == "bool" and not c[2]:
        e = c[1]
        c = norm_call(e)
    return e


def disjuncts_of(e):
    e = unbool(e)
    if isinstance(e, ast.BoolOp) and isinstance(e.op, ast.Or):
        out = []
        for v in e.values:
            out += disjuncts_of(v)
        return out
    return [e]


def dims_of(rest, kws):
    d = None
    for kw in kws:
        if kw.arg in ("dim", "axis"):
            d = ast.literal_eval(kw.value)
    if d is None and rest:
        d = ast.literal_eval(rest[0])
    if d is None:
        return None
    return [int(x) for x in (d if isinstance(d, (tuple, list)) else [d])]


def find_gate(cls):
    """the tests that gate `self.rescale = True`; returns list of (method, test expr)"""
    gates = []
    for m in cls.body:
        if not isinstance(m, ast.FunctionDef):
            continue
        for node in ast.walk(m):
            if isinstance(node, ast.If):
                for st in node.body:
                    if isinstance(st, ast.Assign) and len(st.targets) == 1 and isinstance(st.targets[0], ast.Attribute) \
                            and isinstance(st.targets[0].value, ast.Name) and st.targets[0].value.id == "self" \
                            and st.targets[0].attr == "rescale" and isinstance(st.value, ast.Constant) and st.value.value is True:
                        gates.append((m, node.test))
    return gates


def predicate_expr(cls, methods):
    """-> (list of disjunct expressions, earlyFalseExits, name of the log-likelihood argument expression source)"""
    gates = find_gate(cls)
    if not gates:
        raise Unrecognised("no `if …: self.rescale = True` in TreeLikelihoodModel")
    forms = set()
    result = None
    for m, test in gates:
        t = unbool(test)
        if isinstance(t, ast.Call) and isinstance(t.func, ast.Attribute) and isinstance(t.func.value, ast.Name) \
                and t.func.value.id == "self" and t.func.attr in methods and len(t.args) == 1 and not t.keywords:
            fn = methods[t.func.attr]
            forms.add("method:" + t.func.attr)
            params = [a.arg for a in fn.args.args][1:]
            if len(params) != 1:
                raise Unrecognised(f"switch test {fn.name} takes {len(params)} arguments")
            lp = params[0]
            env, disj, early_false, final = {}, [], 0, None
            early_false = sum(1 for n in ast.walk(fn) if isinstance(n, ast.Return) and isinstance(n.value, ast.Constant)
                              and n.value.value is False)
            for st in strip_doc(fn.body):
                if final is not None:
                    raise Unrecognised("statements after the final return")
                if isinstance(st, ast.Assign) and len(st.targets) == 1 and isinstance(st.targets[0], ast.Name):
                    env[st.targets[0].id] = inline_helpers(subst(st.value, env), methods)
                elif isinstance(st, ast.AnnAssign) and isinstance(st.target, ast.Name) and st.value is not None:
                    env[st.target.id] = inline_helpers(subst(st.value, env), methods)
                elif isinstance(st, ast.If) and not st.orelse and len(st.body) == 1 and isinstance(st.body[0], ast.Return) \
                        and isinstance(st.body[0].value, ast.Constant) and st.body[0].value.value is True:
                    disj += disjuncts_of(inline_helpers(subst(st.test, env), methods))
                elif isinstance(st, ast.If) and not st.orelse and len(st.body) == 1 and isinstance(st.body[0], ast.Return) \
                        and isinstance(st.body[0].value, ast.Constant) and st.body[0].value.value is False:
                    continue  # counted in early_false; the obligation requires 0
                elif isinstance(st, ast.Return) and st.value is not None:
                    final = inline_helpers(subst(st.value, env), methods)
                    disj += disjuncts_of(final)
                else:
                    raise Unrecognised("statement not understood: " + ast.unparse(st).replace("\n", " ")[:80])
            if final is None:
                raise Unrecognised("no final return")
            result = (disj, early_false, lp)
        else:
            # inline test at the call site (the pre-F21 form): the log-likelihood is whatever name the test mentions
            forms.add("inline:" + ast.unparse(t))
            names = [n.id for n in ast.walk(t) if isinstance(n, ast.Name) and n.id not in ("torch", "self", "bool")]
            result = (disjuncts_of(t), 0, names[0] if names else "log_p")
    if len(forms) != 1:
        raise Unrecognised("the sites that set self.rescale use different tests: " + "; ".join(sorted(forms)))
    return result


ROOT_CANON = "self.partials[self.tree_model.postorder[-1][0]]"


def translate(repo: Path):
    src_path = Path(repo) / "torchtree" / "evolution" / "tree_likelihood.py"
    f = {"recognised": False, "disjuncts": 0, "isinfGuard": False, "earlyFalseExits": 0, "siteQuantifier": "",
         "statistic": "", "statDims": [], "comparison": "", "thresholdAttr": "", "rootIsRootPartial": False}
    note = ""
    try:
        tree = ast.parse(src_path.read_text())
        cls = next((n for n in ast.walk(tree) if isinstance(n, ast.ClassDef) and n.name == "TreeLikelihoodModel"), None)
        if cls is None:
            raise Unrecognised("class TreeLikelihoodModel not found")
        methods = {m.name: m for m in cls.body if isinstance(m, ast.FunctionDef)}
        disj, early_false, lp = predicate_expr(cls, methods)
        f["disjuncts"] = len(disj)
        f["earlyFalseExits"] = early_false
        rest = []
        for d in disj:
            c = norm_call(unbool(d))
            if c and c[0] == "any" and not c[2]:
                c2 = norm_call(c[1])
                if c2 and c2[0] == "isinf" and isinstance(c2[1], ast.Name) and c2[1].id == lp:
                    f["isinfGuard"] = True
                    continue
            rest.append(d)
        shape_ok = False
        if len(rest) == 1:
            c = norm_call(unbool(rest[0]))
            if c and not c[2] and isinstance(c[1], ast.Compare) and len(c[1].ops) == 1:
                f["siteQuantifier"] = c[0]
                cmp_ = c[1]
                lhs, op, rhs = cmp_.left, cmp_.ops[0], cmp_.comparators[0]
                sym = {ast.Lt: "<", ast.LtE: "<=", ast.Gt: ">", ast.GtE: ">="}.get(type(op), "?")
                is_thr = lambda x: isinstance(x, ast.Attribute) and isinstance(x.value, ast.Name) and x.value.id == "self"  # noqa: E731
                if is_thr(lhs) and not is_thr(rhs):  # T > stat  ==  stat < T
                    lhs, rhs = rhs, lhs
                    sym = {"<": ">", ">": "<", "<=": ">=", ">=": "<="}.get(sym, "?")
                f["comparison"] = sym
                if is_thr(rhs):
                    f["thresholdAttr"] = rhs.attr
                cs = norm_call(lhs)
                if cs:
                    f["statistic"] = cs[0]
                    dims = dims_of(cs[2], cs[3])
                    if dims is not None:
                        f["statDims"] = dims
                    f["rootIsRootPartial"] = ast.unparse(cs[1]).replace(" ", "") == ROOT_CANON
                    shape_ok = True
        f["recognised"] = bool(shape_ok and f["isinfGuard"] and len(disj) == 2)
        if not f["recognised"]:
            note = "switch test is not `any(isinf(log_p)) or Q(R(root partial) < self.T)`: " \
                   + " || ".join(ast.unparse(d).replace("\n", " ")[:100] for d in disj)
    except Unrecognised as e:
        note = str(e)
    except Exception as e:  # unreadable source: never a silent default
        note = "%s: %s" % (type(e).__name__, e)
    lean = f"""/-! GENERATED by harness/translators/tr_c03_underflow.py from the switch test of
    torchtree/evolution/tree_likelihood.py:TreeLikelihoodModel (found by role: the test that gates `self.rescale = True`) — do not edit.
    {note.replace('-/', '- /')}
-/
namespace TTGen.C03_Underflow

def recognised : Bool := {'true' if f['recognised'] else 'false'}
def disjuncts : Nat := {f['disjuncts']}
def isinfGuard : Bool := {'true' if f['isinfGuard'] else 'false'}
def earlyFalseExits : Nat := {f['earlyFalseExits']}
def siteQuantifier : String := {_lean_str(f['siteQuantifier'])}
def statistic : String := {_lean_str(f['statistic'])}
def statDims : List Int := [{', '.join(str(d) for d in f['statDims'])}]
def comparison : String := {_lean_str(f['comparison'])}
def thresholdAttr : String := {_lean_str(f['thresholdAttr'])}
def rootIsRootPartial : Bool := {'true' if f['rootIsRootPartial'] else 'false'}

end TTGen.C03_Underflow
"""
    return lean, f["recognised"], note, f
