"""Translator for the construction route of C04/C05: how every `from_json` of the site models and the
substitution models carries JSON keys into constructor parameters.

Reads (AST) `torchtree/evolution/site_model.py` and `torchtree/evolution/substitution_model/*.py`.
For each class with a `from_json` classmethod it resolves, for every argument of the final `cls(...)` call:
  * the JSON key it comes from (`data['k']`, `process_object(data['k'], dic)`,
    `process_object_with_key('k', data, dic[, default])`, `data.get('k'[, default])`, or a local name assigned from
    one of these; an `if 'k' not in data: … elif … else …` chain counts as optional with a computed default),
  * whether the key is optional and what is forwarded when it is absent,
  * the constructor parameter it reaches (positional index, or keyword name resolved against `__init__`),
  * the constructor parameter the key NAMES (same name; aliases id -> id_, shape -> parameter) and its default.
Emits `lean/TTGen/C05Options.lean` and `lean/TTGen/C04Options.lean` (a table of numbers, names kept for the reader).
Anything it cannot resolve (a starred argument, an unknown expression) sets `translatorOk := false` and is recorded.
"""
from __future__ import annotations

import ast
from pathlib import Path

ALIASES = {"id": "id_", "shape": "parameter"}
NONE, TRUE, FALSE, COMPUTED, OTHER = 0, 1, 2, 3, 4
CODE_NAMES = {NONE: "None", TRUE: "True", FALSE: "False", COMPUTED: "computed", OTHER: "literal"}


class Unrecognised(Exception):
    pass


def lit_code(node):
    if node is None:
        return NONE
    if isinstance(node, ast.Constant):
        if node.value is None:
            return NONE
        if node.value is True:
            return TRUE
        if node.value is False:
            return FALSE
    return OTHER


def _key_of_subscript(node):
    if isinstance(node, ast.Subscript) and isinstance(node.value, ast.Name) and node.value.id == "data":
        sl = node.slice
        if isinstance(sl, ast.Constant) and isinstance(sl.value, str):
            return sl.value
    return None


def _call_name(node):
    if isinstance(node, ast.Call):
        f = node.func
        if isinstance(f, ast.Name):
            return f.id
        if isinstance(f, ast.Attribute):
            return f.attr
    return None


def resolve(expr, fn, depth=0):
    """-> (key, optional, absent_default_code)"""
    if depth > 4:
        raise Unrecognised("assignment chain too deep")
    k = _key_of_subscript(expr)
    if k is not None:
        return k, False, OTHER
    name = _call_name(expr)
    if name == "process_object" and expr.args:
        k = _key_of_subscript(expr.args[0])
        if k is not None:
            return k, False, OTHER
    if name == "process_object_with_key" and expr.args and isinstance(expr.args[0], ast.Constant):
        default = expr.args[3] if len(expr.args) > 3 else None
        for kw in expr.keywords:
            if kw.arg == "default":
                default = kw.value
        return expr.args[0].value, True, lit_code(default)
    if name == "get" and isinstance(expr.func, ast.Attribute) and isinstance(expr.func.value, ast.Name) \
            and expr.func.value.id == "data" and expr.args and isinstance(expr.args[0], ast.Constant):
        default = expr.args[1] if len(expr.args) > 1 else None
        return expr.args[0].value, True, lit_code(default)
    if isinstance(expr, ast.Name):
        assigns = []
        for node in ast.walk(fn):
            if isinstance(node, ast.Assign) and len(node.targets) == 1 and isinstance(node.targets[0], ast.Name) \
                    and node.targets[0].id == expr.id:
                assigns.append(node.value)
        if len(assigns) == 1:
            return resolve(assigns[0], fn, depth + 1)
        if len(assigns) > 1:
            # if 'k' not in data: … elif …: … else: …   (all branches about the same key)
            keys = set()
            for node in ast.walk(fn):
                if isinstance(node, ast.Compare) and len(node.ops) == 1 and isinstance(node.ops[0], (ast.NotIn, ast.In)) \
                        and isinstance(node.left, ast.Constant) and isinstance(node.comparators[0], ast.Name) \
                        and node.comparators[0].id == "data":
                    keys.add(node.left.value)
            sub = set()
            for a in assigns:
                for node in ast.walk(a):
                    k2 = _key_of_subscript(node)
                    if k2 is not None:
                        sub.add(k2)
            both = keys & sub
            if len(both) == 1:
                return both.pop(), True, COMPUTED
        raise Unrecognised(f"cannot resolve local name {expr.id}")
    raise Unrecognised("unrecognised argument expression " + ast.dump(expr)[:80])


def init_params(cls_node, classes=None, depth=0):
    """parameters of the class's own __init__, else of the first base (same module) that defines one"""
    for node in cls_node.body:
        if isinstance(node, ast.FunctionDef) and node.name == "__init__":
            a = node.args
            if a.vararg or a.kwarg or a.kwonlyargs:
                raise Unrecognised(f"{cls_node.name}.__init__ takes *args/**kwargs/keyword-only parameters")
            names = [x.arg for x in a.args][1:]
            defaults = [None] * (len(names) - len(a.defaults)) + list(a.defaults)
            return names, defaults
    if classes and depth < 4:
        for b in cls_node.bases:
            nm = getattr(b, "id", getattr(b, "attr", None))
            if nm in classes:
                r = init_params(classes[nm], classes, depth + 1)
                if r[0] is not None:
                    return r
    return None, None


def class_entries(tree, cls_node):
    """entries of one class, or None when the class has no from_json of its own"""
    fj = None
    for node in cls_node.body:
        if isinstance(node, ast.FunctionDef) and node.name == "from_json":
            fj = node
    if fj is None:
        return None
    classes = {n.name: n for n in tree.body if isinstance(n, ast.ClassDef)}
    names, defaults = init_params(cls_node, classes)
    if names is None:
        raise Unrecognised(f"{cls_node.name}: no __init__ beside from_json")
    rets = [n for n in ast.walk(fj) if isinstance(n, ast.Return)]
    if len(rets) != 1 or _call_name(rets[0].value) != "cls" or not isinstance(rets[0].value.func, ast.Name):
        raise Unrecognised(f"{cls_node.name}.from_json does not end in a single `return cls(...)`")
    call = rets[0].value
    out = []
    items = [(i, None, a) for i, a in enumerate(call.args)] + [(None, kw.arg, kw.value) for kw in call.keywords]
    for idx, kwname, expr in items:
        if isinstance(expr, ast.Starred) or kwname is None and idx is None:
            raise Unrecognised(f"{cls_node.name}.from_json passes a starred / **kwargs argument")
        key, optional, absent = resolve(expr, fj)
        if kwname is not None:
            if kwname not in names:
                raise Unrecognised(f"{cls_node.name}.from_json: keyword {kwname} is not a constructor parameter")
            reached = names.index(kwname)
        else:
            reached = idx
        want = ALIASES.get(key, key)
        expected = names.index(want) if want in names else 1000
        if reached >= len(names):
            raise Unrecognised(f"{cls_node.name}.from_json passes more arguments than __init__ takes")
        d = defaults[expected] if expected < len(names) else None
        out.append({
            "cls": cls_node.name, "key": key, "expected": expected, "reached": reached,
            "reached_name": names[reached], "optional": optional, "absent": absent,
            "ctor_default": None if d is None else lit_code(d), "kw": kwname is not None,
        })
    # every constructor parameter without a default must be supplied
    supplied = {e["reached"] for e in out}
    for i, (nm, d) in enumerate(zip(names, defaults)):
        if d is None and i not in supplied:
            raise Unrecognised(f"{cls_node.name}.from_json never supplies constructor parameter {nm}")
    return out


FILES = {
    "C05": ["torchtree/evolution/site_model.py"],
    "C04": ["torchtree/evolution/substitution_model/nucleotide.py",
            "torchtree/evolution/substitution_model/general.py",
            "torchtree/evolution/substitution_model/codon.py",
            "torchtree/evolution/substitution_model/amino_acid.py"],
}
EXPECT = {
    "C05": {"ConstantSiteModel", "InvariantSiteModel", "WeibullSiteModel"},
    "C04": {"JC69", "HKY", "GTR", "GeneralJC69", "GeneralSymmetricSubstitutionModel",
            "GeneralNonSymmetricSubstitutionModel", "EmpiricalSubstitutionModel", "LG", "WAG", "MG94"},
}


def read(repo: Path, pid: str):
    entries, notes, seen = [], [], set()
    for rel in FILES[pid]:
        tree = ast.parse((repo / rel).read_text())
        for node in tree.body:
            if isinstance(node, ast.ClassDef):
                try:
                    es = class_entries(tree, node)
                except Unrecognised as e:
                    notes.append(str(e))
                    seen.add(node.name)
                    continue
                if es is not None:
                    entries += es
                    seen.add(node.name)
    missing = EXPECT[pid] - seen
    if missing:
        notes.append("no from_json found for " + ", ".join(sorted(missing)))
    return entries, notes


def emit(pid: str, entries, notes):
    ns = f"TTGen.{pid}Options"
    lines = [
        f"/-! GENERATED by harness/translators/tr_options_c04c05.py on every run of ./check {pid} — do not edit.",
        "How each `from_json` forwards JSON keys to constructor parameters. -/",
        f"namespace {ns}",
        "/-- `expected`: index (in `__init__`, after self) of the parameter the key names (1000: none);",
        "`reached`: index of the parameter the value is passed to; `absent`: what is forwarded when an",
        "optional key is absent (0 None, 1 True, 2 False, 3 computed, 4 other literal);",
        "`ctorDefault`: the default of the named constructor parameter, same coding -/",
        "structure Entry where",
        "  cls : String",
        "  key : String",
        "  expected : Nat",
        "  reached : Nat",
        "  optional : Bool",
        "  absent : Nat",
        "  ctorDefault : Option Nat",
        "",
        f"def translatorOk : Bool := {'true' if not notes else 'false'}",
    ]
    for n in notes:
        lines.append("-- unrecognised: " + n.replace("\n", " ")[:200])
    lines.append("def entries : List Entry := [")
    rows = []
    for e in entries:
        cd = "none" if e["ctor_default"] is None else f"some {e['ctor_default']}"
        rows.append(f"  ⟨\"{e['cls']}\", \"{e['key']}\", {e['expected']}, {e['reached']}, "
                    f"{'true' if e['optional'] else 'false'}, {e['absent']}, {cd}⟩"
                    f"  -- -> {e['reached_name']}{' (keyword)' if e['kw'] else ''}"
                    f"{', absent -> ' + CODE_NAMES[e['absent']] if e['optional'] else ''}")
    # comments must not swallow the separating commas: put the comma before the comment
    fixed = []
    for i, r in enumerate(rows):
        code, _, com = r.partition("  -- ")
        fixed.append(code + ("," if i + 1 < len(rows) else "") + "  -- " + com)
    lines += fixed
    lines.append("]")
    lines.append(f"end {ns}")
    return "\n".join(lines) + "\n"


def translate(repo: Path, pid: str):
    """-> (lean source, recognised?, note, entries)"""
    try:
        entries, notes = read(repo, pid)
    except (SyntaxError, OSError) as e:
        entries, notes = [], [str(e)]
    return emit(pid, entries, notes), not notes, "; ".join(notes) or "ok", entries


if __name__ == "__main__":
    import sys

    for pid in ("C05", "C04"):
        src, ok, note, _ = translate(Path(sys.argv[1] if len(sys.argv) > 1 else "/repo"), pid)
        print(src)
        print(ok, note, file=sys.stderr)
