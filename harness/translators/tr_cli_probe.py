"""Behavioural derivation of the C19 dispatch tables: run as a SUBPROCESS by tr_cli.py when the source shape of
make_unconstrained / create_meanfield / the joint.jacobian assembly is not the one the AST reader knows.

    TT_REPO=<tree> python tr_cli_probe.py <what>[,<what>…]      what in unconstrain | meanfield | post

Prints one JSON object.  Nothing here looks at private names of the tree under check: only the public functions
`torchtree.cli.utils.make_unconstrained`, `torchtree.cli.advi.create_meanfield` and the command line itself are called,
and the facts are read off WHAT THEY EMIT:

  unconstrain / meanfield : for one probe parameter per annotation kind (unit interval, lower bound 0, positive lower
      bound, simplex) the transform name written into the JSON, the suffix of the child's id, and the torch transform whose
      inverse maps the probe's start value to the child's start value (decided numerically among Sigmoid / Exp / Affine /
      StickBreaking);
  post : for hmc / mcmc / advi, from the `joint.jacobian` the command line emits for five probe configurations: is "tree"
      appended exactly when there is a clock with ratio heights; is "coalescent.theta" removed (centred only / always /
      never) under a piecewise coalescent.
"""
from __future__ import annotations

import contextlib
import copy
import io
import json
import os
import sys

HERE = os.path.dirname(os.path.abspath(__file__))
REPO = os.environ.get("TT_REPO", "/repo")
for p in (os.path.dirname(HERE), REPO):
    if p in sys.path:
        sys.path.remove(p)
    sys.path.insert(0, p)


def classify_inverse(torch, start, child, loc=None):
    """which transform's inverse maps `start` to `child`?"""
    x = torch.tensor(start, dtype=torch.float64)
    y = torch.tensor(child, dtype=torch.float64)
    T = torch.distributions
    cands = {"torch.distributions.SigmoidTransform": lambda: T.SigmoidTransform().inv(x),
             "torch.distributions.ExpTransform": lambda: T.ExpTransform().inv(x),
             "torch.distributions.StickBreakingTransform": lambda: T.StickBreakingTransform().inv(x)}
    if loc is not None:
        cands["torch.distributions.AffineTransform"] = lambda: T.AffineTransform(loc, 1.0).inv(x)
    hits = []
    for name, f in cands.items():
        try:
            v = f()
        except Exception:  # noqa: BLE001
            continue
        if v.shape == y.shape and bool(torch.isfinite(v).all()) and torch.allclose(v, y, rtol=1e-5, atol=1e-6):
            hits.append(name)
    return hits[0] if len(hits) == 1 else "?"


def rows_from(rewrite):
    """rewrite(probe dict) mutates the probe in place (the public function under test)"""
    import torch
    from torchtree.cli.utils import CONSTRAINT

    Lk, Uk, Sk = CONSTRAINT.LOWER.value, CONSTRAINT.UPPER.value, CONSTRAINT.SIMPLEX.value
    probes = {
        "unit": ({"id": "p", "type": "Parameter", "tensor": [0.25, 0.625], Lk: 0, Uk: 1}, None),
        "lower0": ({"id": "p", "type": "Parameter", "tensor": [0.5, 3.0], Lk: 0.0}, None),
        "lowerPos": ({"id": "p", "type": "Parameter", "tensor": [3.0, 4.5], Lk: 2.5}, 2.5),
        "simplex": ({"id": "p", "type": "Parameter", "tensor": [0.2, 0.3, 0.5], Sk: True}, None),
    }
    out, notes = {}, []
    for kind, (probe, loc) in probes.items():
        start = list(probe["tensor"])
        try:
            rewrite(probe)
            child = probe.get("x")
            if probe.get("type") != "TransformedParameter" or not isinstance(child, dict) or not isinstance(probe.get("transform"), str):
                raise ValueError("the probe is not rewritten into a TransformedParameter with a child `x`")
            cid = child.get("id", "")
            if not cid.startswith("p"):
                raise ValueError(f"child id {cid!r}")
            suffix = cid[1:]
            value = child.get("tensor")
            if kind == "lowerPos":
                # the shifted child has to carry lower bound 0 in the ANNOTATED output, or be rewritten again (recursion)
                if probe.get("parameters") != {"loc": loc, "scale": 1.0}:
                    raise ValueError(f"shift parameters {probe.get('parameters')}")
                if value is None and isinstance(child.get("x"), dict):
                    # rewritten again: undo the inner transform numerically to recover the shifted start value
                    inner = child["x"].get("tensor")
                    tname = child.get("transform", "")
                    t = getattr(torch.distributions, tname.split(".")[-1])()
                    value = t(torch.tensor(inner, dtype=torch.float64)).tolist()
            if value is None:
                raise ValueError("no start value on the child")
            out[kind] = [probe["transform"], suffix, classify_inverse(torch, start, value, loc)]
        except Exception as e:  # noqa: BLE001
            out[kind] = ["?", "?", "?"]
            notes.append(f"{kind}: {type(e).__name__}: {e}"[:160])
    return out, notes


def unconstrain():
    from torchtree.cli.utils import make_unconstrained

    return rows_from(lambda p: make_unconstrained(p))


def meanfield():
    from torchtree.cli.advi import create_meanfield

    return rows_from(lambda p: create_meanfield("var", p, "Normal"))


def post():
    import c19_cli as C
    from torchtree.cli.jacobians import create_jacobians

    data = C.data_dir()
    out, notes = {}, []
    try:
        base = ["-i", str(data / "aln.fa"), "-m", "JC69"]
        rooted, unrooted = ["-t", str(data / "rooted.nwk")], ["-t", str(data / "unrooted.nwk")]
        cfgs = {
            "ratio": rooted + ["--clock", "strict", "--heights", "ratio"],
            "shift": rooted + ["--clock", "strict", "--heights", "shift"],
            "noclock": unrooted,
            "centred": rooted + ["--clock", "strict", "--heights", "shift", "--coalescent", "skyride"],
            "noncentred": rooted + ["--clock", "strict", "--heights", "shift", "--coalescent", "skyride", "--coalescent_non_centered"],
        }
        for cmd in ("hmc", "mcmc", "advi"):
            seen = {}
            for name, extra in cfgs.items():
                argv = [cmd] + base + extra + (["--stem", "out"] if cmd == "mcmc" else [])
                with contextlib.redirect_stdout(io.StringIO()), contextlib.redirect_stderr(io.StringIO()):
                    emitted = C.run_cli(argv, record=False)[0]
                jj = next((e for e in emitted if isinstance(e, dict) and e.get("id") == "joint.jacobian"), None)
                if jj is None or not isinstance(jj.get("distributions"), list) or jj["distributions"][:1] != ["joint"]:
                    raise ValueError(f"{cmd} {name}: no joint.jacobian = ['joint', …]")
                upto = emitted[:emitted.index(jj)]
                seen[name] = (jj["distributions"][1:], create_jacobians(copy.deepcopy(upto)))
            tree = {k: "tree" in v[0] for k, v in seen.items()}
            if tree["shift"] or tree["noclock"]:
                raise ValueError(f"{cmd}: 'tree' listed without ratio heights / without a clock")
            removed = {k: ("coalescent.theta" in seen[k][1] and "coalescent.theta" not in seen[k][0]) for k in ("centred", "noncentred")}
            candidate_nc = "coalescent.theta" in seen["noncentred"][1]
            if removed["centred"] and (removed["noncentred"] and candidate_nc):
                rm = "always"
            elif removed["centred"]:
                rm = "centered-only"      # (when theta is not a candidate in the non-centred case the two cannot differ)
            elif not removed["noncentred"]:
                rm = "never"
            else:
                raise ValueError(f"{cmd}: coalescent.theta removed only in the non-centred case")
            out[cmd] = {"tree": tree["ratio"], "remove": rm}
    except Exception as e:  # noqa: BLE001
        notes.append(f"post: {type(e).__name__}: {e}"[:200])
    finally:
        C.cleanup()
    return out, notes


if __name__ == "__main__":
    import logging

    logging.disable(logging.CRITICAL)
    res = {}
    for what in (sys.argv[1] if len(sys.argv) > 1 else "unconstrain,meanfield,post").split(","):
        try:
            with contextlib.redirect_stdout(io.StringIO()):
                val, notes = {"unconstrain": unconstrain, "meanfield": meanfield, "post": post}[what]()
        except Exception as e:  # noqa: BLE001
            val, notes = {}, [f"{what}: {type(e).__name__}: {e}"[:200]]
        res[what] = {"value": val, "notes": notes}
    print(json.dumps(res))
