"""Translator: tuning expressions of the MCMC operators  ->  lean/TTGen/C15_Tuning.lean

For each operator class (ScalerOperator, SlidingWindowOperator, DirichletOperator,
GMRFPiecewiseCoalescentBlockUpdatingOperator, HMCOperator) the AST of

  * the `adaptable_parameter` getter      (body must be a single `return <expr>`)
  * `set_adaptable_parameter(self, value)` (body must be a single `self.<field> = <expr>`)

is turned into `TT.C15.Expr` trees over  + - * /, unary minus, math.log/exp/sqrt, numeric
literals, the scale field (variable "field") and `value` (variable "value").
`MCMCOperator.tune` must have the shape

    if not self._disable_adaptation:
        assert ...
        new_parameter = <expr over self.adaptable_parameter, acceptance_prob.item(),
                         self.target_acceptance_probability, self._adapt_count>
        self.adaptable_parameter = new_parameter

and the `adaptable_parameter` setter the shape `self.set_adaptable_parameter(value);
self._adapt_count += 1`.  Anything else is *unrecognised*: `translatorOk := false` is emitted
(the theorem `translator_recognised` then fails to build) with the reason in the header.
"""
from __future__ import annotations

import ast
import inspect
import textwrap
from fractions import Fraction

CLASSES = [
    ("scaler", "torchtree.inference.mcmc.operator", "ScalerOperator"),
    ("window", "torchtree.inference.mcmc.operator", "SlidingWindowOperator"),
    ("dirichlet", "torchtree.inference.mcmc.operator", "DirichletOperator"),
    ("block", "torchtree.inference.mcmc.gmrf_block_updating", "GMRFPiecewiseCoalescentBlockUpdatingOperator"),
    ("hmc", "torchtree.inference.hmc.operator", "HMCOperator"),
]


class Unrecognised(Exception):
    pass


def dotted(e):
    if isinstance(e, ast.Attribute):
        b = dotted(e.value)
        return None if b is None else b + "." + e.attr
    if isinstance(e, ast.Name):
        return e.id
    return None


def lit(v):
    f = Fraction(v)
    return f"(.num ({f.numerator}) {f.denominator})"


def tr_expr(e, names):
    """names: dotted python name -> variable name"""
    if isinstance(e, ast.Constant) and isinstance(e.value, (int, float)) and not isinstance(e.value, bool):
        return lit(e.value)
    d = dotted(e)
    if d is not None:
        if d in names:
            return f'(.var "{names[d]}")'
        raise Unrecognised("name " + d)
    if isinstance(e, ast.BinOp):
        ops = {ast.Add: "add", ast.Sub: "sub", ast.Mult: "mul", ast.Div: "div"}
        if type(e.op) in ops:
            return f"(.{ops[type(e.op)]} {tr_expr(e.left, names)} {tr_expr(e.right, names)})"
        raise Unrecognised("operator " + ast.unparse(e))
    if isinstance(e, ast.UnaryOp) and isinstance(e.op, ast.USub):
        return f"(.neg {tr_expr(e.operand, names)})"
    if isinstance(e, ast.UnaryOp) and isinstance(e.op, ast.UAdd):
        return tr_expr(e.operand, names)
    if isinstance(e, ast.Call):
        f = dotted(e.func)
        if f in ("math.log", "math.exp", "math.sqrt") and len(e.args) == 1 and not e.keywords:
            return f"(.{f.split('.')[1]} {tr_expr(e.args[0], names)})"
        if f == "math.pow" and len(e.args) == 2 and not e.keywords:
            return f"(.pow {tr_expr(e.args[0], names)} {tr_expr(e.args[1], names)})"
        # acceptance_prob.item()
        if isinstance(e.func, ast.Attribute) and e.func.attr == "item" and not e.args:
            return tr_expr(e.func.value, names)
        raise Unrecognised("call " + ast.unparse(e))
    raise Unrecognised("expression " + ast.unparse(e))


def body_wo_doc(fn):
    b = list(fn.body)
    if b and isinstance(b[0], ast.Expr) and isinstance(b[0].value, ast.Constant) and isinstance(b[0].value.value, str):
        b = b[1:]
    return b


def class_ast(cls):
    src = textwrap.dedent(inspect.getsource(cls))
    return ast.parse(src).body[0]


def find_methods(cnode, name):
    return [n for n in cnode.body if isinstance(n, ast.FunctionDef) and n.name == name]


def tr_class(cls):
    cnode = class_ast(cls)
    setters = find_methods(cnode, "set_adaptable_parameter")
    if len(setters) != 1:
        raise Unrecognised(f"{cls.__name__}: set_adaptable_parameter not defined in the class")
    sb = body_wo_doc(setters[0])
    args = [a.arg for a in setters[0].args.args]
    if len(sb) != 1 or not isinstance(sb[0], ast.Assign) or len(sb[0].targets) != 1 or len(args) != 2:
        raise Unrecognised(f"{cls.__name__}.set_adaptable_parameter: not a single assignment")
    field = dotted(sb[0].targets[0])
    if field is None or not field.startswith("self."):
        raise Unrecognised(f"{cls.__name__}.set_adaptable_parameter: target {ast.unparse(sb[0].targets[0])}")
    setter = tr_expr(sb[0].value, {args[1]: "value"})
    getters = [g for g in find_methods(cnode, "adaptable_parameter")
               if any(dotted(d) is not None and dotted(d).endswith("adaptable_parameter.getter") or dotted(d) == "property"
                      for d in g.decorator_list)]
    if len(getters) != 1:
        raise Unrecognised(f"{cls.__name__}: adaptable_parameter getter not found")
    gb = body_wo_doc(getters[0])
    if len(gb) != 1 or not isinstance(gb[0], ast.Return):
        raise Unrecognised(f"{cls.__name__}.adaptable_parameter: not a single return")
    getter = tr_expr(gb[0].value, {field: "field"})
    # tuning_parameter must report the same field
    tp = find_methods(cnode, "tuning_parameter")
    if len(tp) != 1 or len(body_wo_doc(tp[0])) != 1 or not isinstance(body_wo_doc(tp[0])[0], ast.Return) \
            or dotted(body_wo_doc(tp[0])[0].value) != field:
        raise Unrecognised(f"{cls.__name__}.tuning_parameter does not return {field}")
    return field, getter, setter


def tr_tune(base):
    cnode = class_ast(base)
    t = find_methods(cnode, "tune")
    if len(t) != 1:
        raise Unrecognised("MCMCOperator.tune missing")
    b = body_wo_doc(t[0])

    def is_disabled(e):
        return dotted(e) is not None and "disable" in dotted(e)

    # two guard styles: `if not disabled: <update>`  or  `if disabled: return` followed by the update
    if len(b) == 1 and isinstance(b[0], ast.If) and not b[0].orelse and isinstance(b[0].test, ast.UnaryOp) \
            and isinstance(b[0].test.op, ast.Not) and is_disabled(b[0].test.operand):
        stmts = b[0].body
    elif b and isinstance(b[0], ast.If) and not b[0].orelse and is_disabled(b[0].test) and len(b[0].body) == 1 \
            and isinstance(b[0].body[0], ast.Return) and b[0].body[0].value is None:
        stmts = b[1:]
    else:
        raise Unrecognised("MCMCOperator.tune: guard on the adaptation switch not recognised")
    stmts = [s_ for s_ in stmts if not isinstance(s_, ast.Assert)]
    # local assignments are inlined (by role: whatever ends up assigned to self.adaptable_parameter)
    local = {}

    class Inline(ast.NodeTransformer):
        def visit_Name(self, node):
            return local.get(node.id, node) if isinstance(node.ctx, ast.Load) else node

    final = None
    for st_ in stmts:
        if not (isinstance(st_, ast.Assign) and len(st_.targets) == 1):
            raise Unrecognised("MCMCOperator.tune: statement " + ast.unparse(st_))
        value = Inline().visit(ast.parse(ast.unparse(st_.value), mode="eval").body)
        tgt = st_.targets[0]
        if isinstance(tgt, ast.Name):
            local[tgt.id] = value
        elif dotted(tgt) == "self.adaptable_parameter" and final is None:
            final = value
        else:
            raise Unrecognised("MCMCOperator.tune: assignment to " + ast.unparse(tgt))
    if final is None:
        raise Unrecognised("MCMCOperator.tune: does not assign the new value to adaptable_parameter")
    names = {"self.adaptable_parameter": "adaptable", t[0].args.args[1].arg: "acc",
             "self.target_acceptance_probability": "target", "self._adapt_count": "count"}
    rm = tr_expr(final, names)
    # the property setter: set_adaptable_parameter(value); _adapt_count += 1
    st = [g for g in find_methods(cnode, "adaptable_parameter")
          if any((dotted(d) or "").endswith("adaptable_parameter.setter") for d in g.decorator_list)]
    if len(st) != 1:
        raise Unrecognised("adaptable_parameter setter missing")
    sb = body_wo_doc(st[0])
    ok = (len(sb) == 2 and isinstance(sb[0], ast.Expr) and isinstance(sb[0].value, ast.Call)
          and dotted(sb[0].value.func) == "self.set_adaptable_parameter"
          and isinstance(sb[1], ast.AugAssign) and isinstance(sb[1].op, ast.Add)
          and dotted(sb[1].target) == "self._adapt_count"
          and isinstance(sb[1].value, ast.Constant) and sb[1].value.value == 1)
    if not ok:
        raise Unrecognised("adaptable_parameter setter: shape")
    return rm


# --------------------------------------------------------------------------- HMC step-size adaptors
ADAPTIVE_LEARN = """
self._call_counter += 1
self._accepted += accepted
if self._start <= self._call_counter <= self._end and (not self._acceptance_rate or self._call_counter >= 10):
    prob = self._accepted / self._call_counter if self._acceptance_rate else acceptance_prob
    new_parameter = NEW
    self._integrator.step_size = SET
"""
DUAL_LEARN = """
self._call_counter += 1
if self._start <= self._call_counter <= self._end:
    self._dual_avg.step(self._delta - acceptance_prob)
    self.integrator.step_size = math.exp(self._dual_avg.x)
elif self._call_counter >= self._end:
    self.integrator.step_size = math.exp(self._dual_avg.x_bar)
"""
HMC_TUNE = """
if len(self._adaptors) == 0:
    super().tune(acceptance_prob, sample, accepted)
else:
    for adaptor in self._adaptors:
        adaptor.learn(acceptance_prob, sample, accepted)
"""


def dump(nodes):
    return [ast.dump(n) for n in nodes]


def method_body(cls, name):
    m = find_methods(class_ast(cls), name)
    if len(m) != 1:
        raise Unrecognised(f"{cls.__name__}.{name} missing")
    return body_wo_doc(m[0]), m[0]


def tr_adaptive(cls):
    """AdaptiveStepSize.learn: bookkeeping and guard must have exactly the modelled shape; the update
    expression and the assignment to the step size are translated"""
    body, _ = method_body(cls, "learn")
    exp = ast.parse(ADAPTIVE_LEARN).body
    if len(body) != 3 or dump(body[:2]) != dump(exp[:2]) or not isinstance(body[2], ast.If) or body[2].orelse:
        raise Unrecognised("AdaptiveStepSize.learn: counters / structure")
    if ast.dump(body[2].test) != ast.dump(exp[2].test):
        raise Unrecognised("AdaptiveStepSize.learn: guard " + ast.unparse(body[2].test))
    inner = body[2].body
    if len(inner) != 3 or ast.dump(inner[0]) != ast.dump(exp[2].body[0]):
        raise Unrecognised("AdaptiveStepSize.learn: choice of the acceptance statistic")
    if not (isinstance(inner[1], ast.Assign) and dotted(inner[1].targets[0]) == "new_parameter"
            and isinstance(inner[2], ast.Assign) and dotted(inner[2].targets[0]) == "self._integrator.step_size"):
        raise Unrecognised("AdaptiveStepSize.learn: update statements")
    upd = tr_expr(inner[1].value, {"self._integrator.step_size": "step", "prob": "prob",
                                   "self.target_acceptance_probability": "target", "self._call_counter": "count"})
    st = tr_expr(inner[2].value, {"new_parameter": "value"})
    return upd, st


def tr_dual(da_cls, ss_cls):
    body, _ = method_body(da_cls, "step")
    if not body or ast.dump(body[0]) != ast.dump(ast.parse("self._counter += 1").body[0]):
        raise Unrecognised("DualAveraging.step: counter increment")
    names = {"self._counter": "counter", "self._t0": "t0", "self.s_bar": "s_bar", "statistic": "statistic",
             "self.x": "x", "self._mu": "mu", "self._gamma": "gamma", "self._kappa": "kappa", "self.x_bar": "x_bar",
             "eta": "eta", "x_eta": "x_eta"}
    assigns = []
    for st in body[1:]:
        if not (isinstance(st, ast.Assign) and len(st.targets) == 1 and dotted(st.targets[0]) in names):
            raise Unrecognised("DualAveraging.step: statement " + ast.unparse(st))
        assigns.append((names[dotted(st.targets[0])], tr_expr(st.value, names)))
    if [a for a, _ in assigns] != ["eta", "s_bar", "x", "x_eta", "x_bar"]:
        raise Unrecognised("DualAveraging.step: assignment order " + str([a for a, _ in assigns]))
    lb, _ = method_body(ss_cls, "learn")
    if dump(lb) != dump(ast.parse(DUAL_LEARN).body):
        raise Unrecognised("DualAveragingStepSize.learn: shape")
    return assigns


def tr_hmc_tune(cls):
    body, _ = method_body(cls, "tune")
    if dump(body) != dump(ast.parse(HMC_TUNE).body):
        raise Unrecognised("HMCOperator.tune: shape")


def translate(repo=None):
    """-> (lean source, ok, note, specs) ; specs: kind -> dict(field, getter, setter) as Lean text"""
    import importlib

    notes, specs, rm = [], {}, None
    for kind, mod, cname in CLASSES:
        try:
            cls = getattr(importlib.import_module(mod), cname)
            field, getter, setter = tr_class(cls)
            specs[kind] = {"cls": cname, "field": field, "getter": getter, "setter": setter}
        except Unrecognised as e:
            notes.append(str(e))
        except Exception as e:  # import errors etc.
            notes.append(f"{cname}: {type(e).__name__}: {e}")
    try:
        from torchtree.inference.mcmc.operator import MCMCOperator

        rm = tr_tune(MCMCOperator)
    except Unrecognised as e:
        notes.append(str(e))
    except Exception as e:
        notes.append(f"MCMCOperator.tune: {type(e).__name__}: {e}")
    ad_upd = ad_set = None
    dual = None
    try:
        from torchtree.inference.hmc.adaptation import AdaptiveStepSize, DualAveragingStepSize
        from torchtree.inference.hmc.operator import HMCOperator
        from torchtree.ops.dual_averaging import DualAveraging

        ad_upd, ad_set = tr_adaptive(AdaptiveStepSize)
        dual = tr_dual(DualAveraging, DualAveragingStepSize)
        tr_hmc_tune(HMCOperator)
    except Unrecognised as e:
        notes.append(str(e))
    except Exception as e:
        notes.append(f"adaptors: {type(e).__name__}: {e}")
    ok = not notes
    lines = ["import TTModel.C15_Expr", "import TTModel.C15_MCMC",
             "/-! GENERATED by harness/translators/tr_tuning.py from the `adaptable_parameter` getters,",
             "    `set_adaptable_parameter` and `MCMCOperator.tune` of torchtree — do not edit.",
             "    " + ("; ".join(notes) if notes else ""),
             "-/", "namespace TTGen.C15_Tuning", "open TT.C15", "",
             f"def translatorOk : Bool := {'true' if ok else 'false'}", ""]
    bad = '(.var "unrecognised")'
    for kind, _, cname in CLASSES:
        s = specs.get(kind, {"cls": cname, "field": "?", "getter": bad, "setter": bad})
        lines += [f"def {kind} : TuningSpec :=",
                  f'  {{ cls := "{s["cls"]}", field := "{s["field"]}",',
                  f"    getter := {s['getter']},", f"    setter := {s['setter']} }}", ""]
    lines += ["/-- `new_parameter` of `MCMCOperator.tune` over adaptable, acc, target, count -/",
              f"def rmExpr : Expr := {rm if rm else bad}", "",
              "/-- `new_parameter` of `AdaptiveStepSize.learn` over step, prob, target, count -/",
              f"def adaptiveUpd : Expr := {ad_upd if ad_upd else bad}",
              "/-- what `AdaptiveStepSize.learn` stores in `_integrator.step_size`, over value -/",
              f"def adaptiveSet : Expr := {ad_set if ad_set else bad}", "",
              "/-- assignments of `DualAveraging.step` after `_counter += 1`, in order -/",
              "def dualAssigns : List (String × Expr) := ["
              + ", ".join(f'("{a}", {e})' for a, e in (dual or [("x", bad)])) + "]", "",
              "def specOf : Kind → TuningSpec",
              "  | .scaler => scaler | .window => window | .dirichlet => dirichlet",
              "  | .hmc => hmc | .block => block", "",
              "section",
              "variable {α : Type} [Add α] [Sub α] [Mul α] [Div α] [Neg α] [Zero α] [FromNat α] [TT.Trans α]",
              "/-- the generated getters / setters / Robbins–Monro step as the functions `TT.C15.Env` takes -/",
              "def genGet (k : Kind) (fld : α) : α := (specOf k).get 0 fld",
              "def genSet (k : Kind) (v : α) : α := (specOf k).set 0 v",
              "def genRm (adaptable acc target count : α) : α :=",
              "  rmExpr.eval (envTune adaptable acc target count 0)",
              "def genAsNew (step prob target count : α) : α :=",
              "  adaptiveSet.eval (envValue (adaptiveUpd.eval (fun s => if s = \"step\" then step",
              "    else if s = \"prob\" then prob else if s = \"target\" then target",
              "    else if s = \"count\" then count else 0)) 0)",
              "def genDaStep (mu gamma kappa t0 counter sbar xbar stat : α) : α × α × α :=",
              "  let env := evalAssigns (fun s => if s = \"mu\" then mu else if s = \"gamma\" then gamma",
              "    else if s = \"kappa\" then kappa else if s = \"t0\" then t0 else if s = \"counter\" then counter",
              "    else if s = \"s_bar\" then sbar else if s = \"x_bar\" then xbar",
              "    else if s = \"statistic\" then stat else 0) dualAssigns",
              "  (env \"s_bar\", env \"x\", env \"x_bar\")",
              "def genDaSet (v : α) : α := TT.Trans.exp v",
              "end", "", "end TTGen.C15_Tuning", ""]
    return "\n".join(lines), ok, "; ".join(notes), specs


if __name__ == "__main__":
    import sys

    sys.path.insert(0, "/repo")
    print(translate()[0])
