"""Translator: torchtree/cli/utils.py:make_unconstrained and torchtree/cli/advi.py:create_meanfield / apply_*_transform
->  lean/TTGen/C19_Dispatch.lean

Reads the CONSTRAINT-DISPATCH TABLE off the AST: for each kind of annotation (unit interval, lower bound 0, positive
lower bound, simplex) which transform name is written into the JSON, which suffix the unconstrained child's id gets, and
which torch transform's inverse computes the child's initial value.  Also reads the post-processing of the Jacobian list
in hmc.py / mcmc.py / advi.py (`+ "tree"` under which condition, `- "coalescent.theta"` under which condition).

The if/elif skeleton itself is compared, test by test, with the skeleton the Lean model `paramCase` / `mfParam`
implements; any difference (a new branch, a changed test, a missing recursion on the shifted parameter, an unknown way of
computing the inverse) => `recognised := false` and the C19 theorems, which require `recognised = true`, stop building.
"""
from __future__ import annotations

import ast
from pathlib import Path


class Unrecognised(Exception):
    pass


L, U, S = "CONSTRAINT.LOWER.value", "CONSTRAINT.UPPER.value", "CONSTRAINT.SIMPLEX.value"


def up(n):
    return ast.unparse(n).replace('"', "'")


def fn(tree, name):
    f = next((n for n in tree.body if isinstance(n, ast.FunctionDef) and n.name == name), None)
    if f is None:
        raise Unrecognised(f"no function {name}")
    return f


def param_branch(f, var):
    """the `if 'type' in json_object and json_object['type'] == 'Parameter':` statement of a recursive JSON walker"""
    want = f"'type' in {var} and {var}['type'] == 'Parameter'"
    for n in ast.walk(f):
        if isinstance(n, ast.If) and up(n.test) == want:
            return n
    raise Unrecognised(f"{f.name}: no branch `{want}`")


def transform_written(body, var):
    out = [up(s.value) for s in walk_stmts(body) if isinstance(s, ast.Assign) and up(s.targets[0]) == f"{var}['transform']"]
    if len(out) != 1 or not (out[0].startswith("'") and out[0].endswith("'")):
        raise Unrecognised(f"transform assignment not unique/constant: {out}")
    return out[0][1:-1]


def walk_stmts(body):
    """statements of a body, not descending into nested if/elif (each branch is analysed on its own) except plain blocks"""
    for s in body:
        yield s


def suffix_of(body, var):
    sufs = set()
    for s in body:
        for n in ast.walk(s):
            if (isinstance(n, ast.BinOp) and isinstance(n.op, ast.Add) and up(n.left) == f"{var}['id']"
                    and isinstance(n.right, ast.Constant) and isinstance(n.right.value, str)):
                sufs.add(n.right.value)
    if len(sufs) != 1:
        raise Unrecognised(f"child id suffix not unique: {sorted(sufs)}")
    return sufs.pop()


def inverse_of(body, var):
    """how the child's initial value is computed: the torch transform class whose .inv is applied (or `.log()` = the
    inverse of ExpTransform, or `tensor - loc` = the inverse of AffineTransform(loc, 1.0))"""
    kinds = set()
    for s in body:
        for n in ast.walk(s):
            if isinstance(n, ast.Call):
                d = up(n.func)
                if d.startswith("torch.distributions.") and d.endswith("Transform"):
                    kinds.add(d)
                if d.endswith(".log") and "torch.tensor" in d:
                    kinds.add("torch.distributions.ExpTransform")
            if isinstance(n, ast.BinOp) and isinstance(n.op, ast.Sub) and "torch.tensor" in up(n.left) and up(n.right) == "loc":
                kinds.add("torch.distributions.AffineTransform")
    if len(kinds) != 1:
        raise Unrecognised(f"inverse computation not unique: {sorted(kinds)}")
    return kinds.pop()


def row(body, var):
    flat = flatten(body)
    return (transform_written(flat, var), suffix_of(flat, var), inverse_of(flat, var))


def flatten(body):
    out = []
    for s in body:
        out.append(s)
        if isinstance(s, ast.If):
            out += flatten(s.body) + flatten(s.orelse)
    return out


def analyse_make_unconstrained(src):
    tree = ast.parse(src)
    f = fn(tree, "make_unconstrained")
    var = f.args.args[0].arg
    p = param_branch(f, var)
    b = p.body
    if len(b) != 1 or not isinstance(b[0], ast.If):
        raise Unrecognised("Parameter branch is not a single if/elif chain")
    c1 = b[0]
    if up(c1.test) != f"{L} in {var} and {U} in {var}":
        raise Unrecognised("first test: " + up(c1.test))
    if len(c1.body) != 1 or not isinstance(c1.body[0], ast.If):
        raise Unrecognised("both-bounds branch shape")
    unit = c1.body[0]
    if up(unit.test) != f"{var}[{L}] == 0 and {var}[{U}] == 1":
        raise Unrecognised("unit-interval test: " + up(unit.test))
    if not (len(unit.orelse) == 1 and isinstance(unit.orelse[0], ast.If)
            and up(unit.orelse[0].test) == f"{var}[{L}] != {var}[{U}]"
            and len(unit.orelse[0].body) == 1 and isinstance(unit.orelse[0].body[0], ast.Raise)
            and not unit.orelse[0].orelse):
        raise Unrecognised("other intervals are not refused with a raise")
    if not (len(c1.orelse) == 1 and isinstance(c1.orelse[0], ast.If) and up(c1.orelse[0].test) == f"{L} in {var}"):
        raise Unrecognised("second test")
    c2 = c1.orelse[0]
    if not (len(c2.body) == 1 and isinstance(c2.body[0], ast.If) and up(c2.body[0].test) == f"{var}[{L}] > 0"):
        raise Unrecognised("lower-bound branch shape")
    pos, low0 = c2.body[0].body, c2.body[0].orelse
    if not (len(c2.orelse) == 1 and isinstance(c2.orelse[0], ast.If)
            and up(c2.orelse[0].test) == f"{var}.get({S}, False)"):
        raise Unrecognised("third test")
    simplex, plain = c2.orelse[0].body, c2.orelse[0].orelse
    # the shifted parameter must carry lower bound 0.0, loc = lower, scale = 1.0, and go through the function again
    pos_src = "\n".join(up(s) for s in pos)
    for needle in (f"'loc': {var}[{L}]", "'scale': 1.0", f"{L}: 0.0", f"make_unconstrained({var}['x'])"):
        if needle not in pos_src:
            raise Unrecognised("positive-lower-bound branch lacks `" + needle + "`")
    plain_src = "\n".join(up(s) for s in plain)
    if f"parameters.append({var}['id'])" not in plain_src or f"parameters_unres.append({var})" not in plain_src:
        raise Unrecognised("unannotated parameters are not reported as they are")
    return {"unit": row(unit.body, var), "lower0": row(low0, var), "lowerPos": row(pos, var), "simplex": row(simplex, var)}


def analyse_meanfield(src):
    tree = ast.parse(src)
    rows = {}
    for key, name in (("unit", "apply_sigmoid_transformed"), ("lower0", "apply_exp_transform"),
                      ("lowerPos", "apply_affine_transform"), ("simplex", "apply_simplex_transform")):
        f = fn(tree, name)
        var = f.args.args[0].arg
        rows[key] = row(f.body, var)
    f = fn(tree, "create_meanfield")
    var = f.args.args[1].arg
    p = param_branch(f, var)
    src_p = up(p)
    skeleton = [
        f"if {L} in {var} and {U} in {var}:",
        f"if {var}[{L}] != {var}[{U}]:",
        f"apply_sigmoid_transformed({var})",
        f"elif {L} in {var}:",
        f"if {var}[{L}] > 0:",
        f"apply_affine_transform({var}, {var}[{L}], 1.0)",
        "elif distribution == 'Normal':",
        f"unres_id = apply_exp_transform({var})",
        f"elif {var}.get({S}, False):",
        f"unres_id = apply_simplex_transform({var})",
    ]
    pos = 0
    for line in skeleton:
        i = src_p.find(line, pos)
        if i < 0:
            raise Unrecognised("create_meanfield: expected `" + line + "` (in this order)")
        pos = i + len(line)
    return rows


def analyse_post(src, fname):
    """the post-processing of the Jacobian list in a builder"""
    tree = ast.parse(src)
    f = fn(tree, fname)
    body_src = up(f)
    out = {}
    a = "jacobians_list = create_jacobians(json_list)"
    if a not in body_src:
        raise Unrecognised(f"{fname}: no `{a}`")
    tail = body_src[body_src.index(a):]
    t1 = "if arg.clock is not None and arg.heights == 'ratio':\n        jacobians_list.append('tree')"
    out["tree"] = t1 in tail
    t2c = "if arg.coalescent in COALESCENT_PIECEWISE and (not arg.coalescent_non_centered):"
    t2 = "if arg.coalescent in COALESCENT_PIECEWISE:"
    rm = "jacobians_list.remove('coalescent.theta')"
    if rm in tail:
        seg = tail[:tail.index(rm)]
        out["remove"] = "centered-only" if seg.rstrip().endswith(t2c) or t2c in seg[-200:] else (
            "always" if t2 in seg[-120:] else None)
        if out["remove"] is None:
            raise Unrecognised(f"{fname}: condition of the coalescent.theta removal not recognised")
    else:
        out["remove"] = "never"
    if "'distributions': ['joint'] + jacobians_list" not in tail:
        raise Unrecognised(f"{fname}: joint.jacobian is not ['joint'] + jacobians_list")
    # nothing else may touch the list
    n_mut = tail.count("jacobians_list.") + tail.count("jacobians_list +=") + tail.count("jacobians_list =") - 1
    expected = (1 if out["tree"] else 0) + (0 if out["remove"] == "never" else 1)
    if n_mut != expected:
        raise Unrecognised(f"{fname}: {n_mut} operations on jacobians_list, {expected} recognised")
    return out


def lean_row(r):
    return f'⟨"{r[0]}", "{r[1]}", "{r[2]}"⟩'


def probe(repo: Path, parts):
    """behavioural fallback: harness/translators/tr_cli_probe.py in a subprocess on the tree under check"""
    import json
    import os
    import subprocess
    import sys

    here = Path(__file__).resolve().parent
    env = dict(os.environ, TT_REPO=str(repo), OMP_NUM_THREADS="2")
    env.pop("PYTHONPATH", None)
    try:
        r = subprocess.run([sys.executable, str(here / "tr_cli_probe.py"), ",".join(parts)], env=env, capture_output=True,
                           text=True, timeout=300)
        return json.loads(r.stdout.strip().splitlines()[-1])
    except Exception as e:  # noqa: BLE001
        return {k: {"value": {}, "notes": [f"probe failed: {type(e).__name__}: {e}"[:160]]} for k in parts}


def translate(repo: Path):
    """AST reading first (exact on the shapes it knows).  A part whose source shape is not recognised (helpers split off,
    shared routines, comprehensions, the assembly moved to another module, …) is derived from BEHAVIOUR instead: the public
    functions / the command line are run on probes and the table is read off what they emit (tr_cli_probe.py).  Only if
    that fails too is `recognised := false` emitted.  The if/elif skeleton of a behaviourally derived table is not read
    from the source; the harness compares the real functions with the Lean model on a grid of probe parameters and on
    every recorded call instead."""
    repo = Path(repo)
    notes, ok = [], True
    ref = {"unit": ("?", "?", "?"), "lower0": ("?", "?", "?"), "lowerPos": ("?", "?", "?"), "simplex": ("?", "?", "?")}
    failed = {}
    try:
        mu = analyse_make_unconstrained((repo / "torchtree/cli/utils.py").read_text())
    except (Unrecognised, SyntaxError, OSError) as e:
        mu, failed["unconstrain"] = None, str(e)
    try:
        mf = analyse_meanfield((repo / "torchtree/cli/advi.py").read_text())
    except (Unrecognised, SyntaxError, OSError) as e:
        mf, failed["meanfield"] = None, str(e)
    post = {}
    for mod, fname in (("hmc", "build_hmc"), ("mcmc", "build_mcmc"), ("advi", "build_advi")):
        try:
            post[mod] = analyse_post((repo / f"torchtree/cli/{mod}.py").read_text(), fname)
        except (Unrecognised, SyntaxError, OSError) as e:
            post[mod] = None
            failed["post"] = failed.get("post", "") + f" {mod}: {e};"
    if failed:
        res = probe(repo, sorted(failed))
        for part, why in failed.items():
            val, pn = res.get(part, {}).get("value", {}), res.get(part, {}).get("notes", [])
            if part in ("unconstrain", "meanfield"):
                good = set(val) == set(ref) and all(len(v) == 3 and "?" not in v for v in val.values())
                table = {k: tuple(v) for k, v in val.items()} if good else dict(ref)
                if part == "unconstrain":
                    mu = table
                else:
                    mf = table
            else:
                good = set(val) == {"hmc", "mcmc", "advi"}
                for mod in ("hmc", "mcmc", "advi"):
                    if post[mod] is None:
                        post[mod] = val[mod] if good else {"tree": False, "remove": "never"}
            if good:
                notes.append(f"{part}: source shape not recognised ({why.strip()[:120]}); table derived from behaviour (probes)")
            else:
                ok = False
                notes.append(f"{part} unrecognised: {why.strip()[:160]}; behavioural derivation failed: {'; '.join(pn)[:200]}")

    def disp(d):
        return "⟨" + ", ".join(lean_row(d[k]) for k in ("unit", "lower0", "lowerPos", "simplex")) + "⟩"

    def postl(p):
        rm = {"never": ".never", "always": ".always", "centered-only": ".centeredOnly"}[p["remove"]]
        return f"⟨{'true' if p['tree'] else 'false'}, {rm}⟩"

    note = "; ".join(notes) if notes else "all shapes recognised"
    lean = (
        "import TTModel.C19_CLI\n"
        "/-! GENERATED by harness/translators/tr_cli.py from torchtree/cli/{utils,advi,hmc,mcmc}.py — do not edit.\n"
        f"    {note} -/\n"
        "namespace TTGen.C19\n"
        "open TT.C19\n"
        f"def recognised : Bool := {'true' if ok else 'false'}\n"
        f"/-- make_unconstrained: annotation → (transform written, child id suffix, transform whose inverse is applied) -/\n"
        f"def unconstrain : Dispatch := {disp(mu)}\n"
        f"/-- create_meanfield via apply_*_transform -/\n"
        f"def meanfield : Dispatch := {disp(mf)}\n"
        f"def postHmc : Post := {postl(post['hmc'])}\n"
        f"def postMcmc : Post := {postl(post['mcmc'])}\n"
        f"def postAdvi : Post := {postl(post['advi'])}\n"
        "end TTGen.C19\n"
    )
    return lean, ok, note


if __name__ == "__main__":
    import sys

    print(translate(Path(sys.argv[1] if len(sys.argv) > 1 else "/repo"))[0])
