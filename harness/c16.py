"""C16 — the leapfrog integrator is reversible and volume preserving; Hastings term = change in K.

Lean side : TTModel/C16_Leapfrog.lean (LeapfrogIntegrator.__call__ and HMCOperator._step as
            written), theorems in TTProofs/Props/C16.lean (leapfrog_reversible over any
            commutative ring for ANY gradient function, leapfrog_is_shears, leapfrog_volume =
            Lebesgue measure preserved for any measurable gradient, hastings_is_kinetic).
Tie       : BIT-EXACT correspondence.  The real LeapfrogIntegrator / HMCOperator are driven with a
            stub target whose gradient is an integer-matrix linear map (custom autograd function:
            not necessarily a gradient of anything), dyadic step size, dyadic (q,p), diagonal and
            dense dyadic mass matrices, 1-30 steps, 1-3 parameters per operator; every float64
            operation is exact there (a-priori bit budget, see `budget`) and the result must equal
            the `Rat` run of the model bit for bit.  The momentum draw is scripted by wrapping
            Normal.sample / MultivariateNormal.sample from here (their loc/scale/covariance are
            checked against the mass matrix).  General targets (normal, gamma through an exp
            transform with its Jacobian) at 1e-10 with the implementation's own gradients fed to
            the model as a table.
Search    : on the implementation itself: time reversal, Jacobian determinant (exact for the
            linear stub, central differences otherwise), step halving of the energy error,
            returned Hastings term against K(p0) - K(pL) recomputed from the observed momenta.
"""
from __future__ import annotations

import json
import math
from fractions import Fraction
from pathlib import Path

from common import REPO, VERIF, Check, f2h, h2f, use_repo

LEVEL = "proof"
TOL = 1e-10


# --------------------------------------------------------------------------- helpers
def fr(x) -> Fraction:
    return Fraction(float(x))


def rs(x) -> str:
    f = fr(x)
    return f"{f.numerator}/{f.denominator}" if f.denominator != 1 else str(f.numerator)


def lsb_exp(x) -> int:
    """smallest e >= 0 such that x * 2^e is an integer (x a float)"""
    d = fr(x).denominator
    return d.bit_length() - 1


def flat(m):
    return [v for row in m for v in row] if m and isinstance(m[0], list) else list(m)


def budget(case, maxabs: Fraction, bits: int = 52):
    """a-priori exactness argument.  Every intermediate value torch computes in the integrator
    is an integer multiple of 2^-E (E from the recursion on LSB exponents below) and is bounded
    in magnitude by W (from the largest state entry of the exact run and the matrix norms), so it
    is representable iff W * 2^E < 2^53 — whatever the summation order or use of FMA.
    Returns (ok_integrator, ok_kinetic)."""
    n = case["n"]
    eq = max(lsb_exp(v) for v in case["q"])
    ep = max(lsb_exp(v) for v in case["p"])
    eG = max(lsb_exp(v) for v in flat(case["G"]))
    eb = max(lsb_exp(v) for v in case["b"])
    ee = lsb_exp(case["eps"])
    eM = max(lsb_exp(v) for v in flat(case["im"]))
    edu = max(eG + eq, eb)
    ep = max(ep, ee + 1 + edu)
    for _ in range(case["steps"]):
        eq = max(eq, ee + eM + ep)
        edu = max(eG + eq, eb)
        ep = max(ep, ee + edu)
    ep = max(ep, ee + 1 + edu)
    E = max(eq, ep, edu, ee + 1 + edu, ee + eM + ep)
    mG = max([abs(v) for v in flat(case["G"])] + [1.0])
    mM = max([abs(v) for v in flat(case["im"])] + [1.0])
    mb = max([abs(v) for v in case["b"]] + [0.0])
    B = float(maxabs) + 1.0
    W = (n * max(mG, mM) + 1.0) * B * max(1.0, abs(case["eps"])) * 2.0 + mb + 1.0
    ok_int = W * 2.0 ** E < 2.0 ** bits
    WK = n * n * mM * B * B + 1.0
    ok_kin = WK * 2.0 ** (2 * ep + eM + 1) < 2.0 ** bits
    return ok_int, ok_kin


# --------------------------------------------------------------------------- implementation side
def _torch():
    use_repo()
    import torch

    torch.set_num_threads(2)
    return torch


def make_stub(torch):
    class LinGradFn(torch.autograd.Function):
        """value -(x'Gx/2 + b'x); 'gradient' -(Gx + b) — for non-symmetric G this is NOT the
        gradient of the value: the integrator must not care."""

        @staticmethod
        def forward(ctx, x, G, b, thr):
            ctx.save_for_backward(x, G, b)
            if thr is not None and x[0] > thr:
                return x.sum() * float("nan")
            return -(0.5 * (x @ (G @ x)) + b @ x)

        @staticmethod
        def backward(ctx, gout):
            x, G, b = ctx.saved_tensors
            return gout * (-(G @ x + b)), None, None, None

    class StubJoint:
        """`cpar`: ANOTHER parameter of the same joint (not one the trajectory moves): the linear term is
        b * c, so the gradient at a position depends on the current value of c"""

        def __init__(self, params, G, b, thr=None, cpar=None):
            self.params, self.G, self.b, self.thr, self.cpar = params, G, b, thr, cpar

        def __call__(self):
            x = torch.cat([p.tensor for p in self.params], -1)
            b = self.b if self.cpar is None else self.b * self.cpar.tensor[0]
            return LinGradFn.apply(x, self.G, b, self.thr)

    return StubJoint


ID_SCHEMES = ("distinct", "anonymous", "duplicate", "prefix", "mixed")


def param_ids(scheme, k):
    """identity vs naming: the operator's parameters are told apart by OBJECT and position, never by name"""
    if scheme == "anonymous":
        return [None] * k
    if scheme == "duplicate":
        return ["q"] * k
    if scheme == "prefix":
        return ["q" + "x" * i for i in range(k)][::-1] if k > 1 else ["q"]
    if scheme == "mixed":
        return [None if i % 2 == 0 else "q" for i in range(k)]
    return [f"q{i}" for i in range(k)]


def make_params(torch, case):
    from torchtree.core.parameter import Parameter

    ids = param_ids(case.get("ids", "distinct"), len(case["sizes"]))
    out, start = [], 0
    for k, sz in enumerate(case["sizes"]):
        out.append(Parameter(ids[k], torch.tensor(case["q"][start:start + sz], dtype=torch.float64)))
        start += sz
    return out


def tens(torch, v):
    return torch.tensor(v, dtype=torch.float64)


def impl_integrate(case, q=None, p=None, steps=None, eps=None):
    """run the REAL LeapfrogIntegrator on the linear stub. -> (q', p') lists, or ('EXC', name)"""
    torch = _torch()
    from torchtree.inference.hmc.integrator import LeapfrogIntegrator

    c = dict(case)
    if q is not None:
        c["q"] = q
    params = make_params(torch, c)
    joint = make_stub(torch)(params, tens(torch, case["G"]), tens(torch, case["b"]))
    integ = LeapfrogIntegrator("lf", case["steps"] if steps is None else steps,
                               case["eps"] if eps is None else eps)
    try:
        out = integ(joint, params, tens(torch, case["p"] if p is None else p), tens(torch, case["im"]))
    except Exception as e:  # implementation raised: an oracle failure, not a harness crash
        return ("EXC", type(e).__name__ + ": " + str(e)[:80])
    qn = torch.cat([x.tensor.detach() for x in params]).tolist()
    return qn, out.tolist()


class Scripted:
    """replace Normal.sample / MultivariateNormal.sample by a tape (from the harness only)"""

    def __init__(self, torch, tape):
        self.torch, self.tape, self.seen = torch, list(tape), []

    def __enter__(self):
        td = self.torch.distributions
        self.o1, self.o2 = td.Normal.sample, td.MultivariateNormal.sample
        me = self

        def s1(d, sample_shape=self.torch.Size()):
            me.seen.append(("normal", d.loc.tolist(), d.scale.tolist()))
            return me.torch.tensor(me.tape.pop(0), dtype=self.torch.float64)

        def s2(d, sample_shape=self.torch.Size()):
            me.seen.append(("mvn", d.loc.tolist(), d.covariance_matrix.tolist()))
            return me.torch.tensor(me.tape.pop(0), dtype=self.torch.float64)

        td.Normal.sample, td.MultivariateNormal.sample = s1, s2
        return self

    def __exit__(self, *a):
        td = self.torch.distributions
        td.Normal.sample, td.MultivariateNormal.sample = self.o1, self.o2


class IntegProxy:
    """stands where HMCOperator keeps its integrator; records the momentum the real one returns"""

    def __init__(self, inner):
        object.__setattr__(self, "inner", inner)
        object.__setattr__(self, "returned", [])

    def __call__(self, *a, **k):
        out = self.inner(*a, **k)
        self.returned.append(out.detach().clone().tolist())
        return out

    def __getattr__(self, k):
        return getattr(self.inner, k)

    def __setattr__(self, k, v):
        setattr(self.inner, k, v)


def impl_operator(case, momenta, thr=None):
    """run the REAL HMCOperator.step() on the linear stub with scripted momentum draws.
    -> dict(q, hr, im, draws, returned) or ('EXC', ..)"""
    torch = _torch()
    from torchtree.core.parameter import Parameter
    from torchtree.inference.hmc.integrator import LeapfrogIntegrator
    from torchtree.inference.hmc.operator import HMCOperator

    params = make_params(torch, case)
    joint = make_stub(torch)(params, tens(torch, case["G"]), tens(torch, case["b"]),
                             None if thr is None else float(thr))
    integ = IntegProxy(LeapfrogIntegrator("lf", case["steps"], case["eps"]))
    mass = Parameter("mass", tens(torch, case["mass"]))
    try:
        op = HMCOperator("hmc", joint, params, integ, mass, 1.0, 0.8, [], disable_adaptation=True)
        with Scripted(torch, momenta) as sc:
            hr = op.step()
    except Exception as e:
        return ("EXC", type(e).__name__ + ": " + str(e)[:80])
    return {
        "q": torch.cat([x.tensor.detach() for x in params]).tolist(),
        "hr": float(hr),
        "im": op.inverse_mass_matrix.tolist(),
        "draws": sc.seen,
        "returned": integ.returned,
        "requires_grad": any(x.requires_grad for x in params),
    }


# --------------------------------------------------------------------------- model side
def req_lin(case, mode="rat"):
    enc = rs if mode == "rat" else f2h
    w = ["lin", mode, case["kind"], str(case["n"]), str(case["steps"]), enc(case["eps"])]
    w += [enc(v) for v in flat(case["im"])]
    w += [enc(v) for v in case["q"]] + [enc(v) for v in case["p"]]
    w += [enc(v) for v in flat(case["G"])] + [enc(v) for v in case["b"]]
    return " ".join(w)


def parse_lin(rep, mode="rat"):
    if rep == "bad-op":
        return None
    dec = (lambda s: Fraction(s)) if mode == "rat" else h2f
    parts = [x.split() for x in rep.split(";")]
    q, p = [dec(s) for s in parts[0]], [dec(s) for s in parts[1]]
    k0, k1, hr = [dec(s) for s in parts[2]]
    mx = Fraction(parts[3][0]) if mode == "rat" else None
    return {"q": q, "p": p, "k0": k0, "k1": k1, "hr": hr, "maxabs": mx}


# --------------------------------------------------------------------------- generators
def dyad(rng, lo, hi, bits):
    """dyadic rational k / 2^bits in [lo, hi]"""
    return rng.randint(int(lo * 2 ** bits), int(hi * 2 ** bits)) / 2 ** bits


def gen_sizes(rng, nmax):
    k = rng.randint(1, 3)
    sizes = [1] * k
    while sum(sizes) < nmax and rng.random() < 0.5:
        sizes[rng.randrange(k)] += 1
    return sizes


def gen_case(rng, style):
    """style: 'long' (eps=1, bounded integer dynamics, up to 30 steps), 'mid' (eps 1/2..1/4),
    'fine' (eps down to 1/16, non power-of-two dyadics, few steps)"""
    kind = rng.choice(["diag", "dense"])
    if style == "long":
        sizes = gen_sizes(rng, rng.choice([1, 2, 3]))
        n = sum(sizes)
        eps = 1.0
        steps = rng.randint(8, 30)
        if kind == "diag":
            im = [float(rng.choice([1, 1, 2])) for _ in range(n)]
            G = [[0.0] * n for _ in range(n)]
            for i in range(n):
                G[i][i] = float(rng.choice([1, 2, 3]) if im[i] == 1 else 1)
                if i > 0 and rng.random() < 0.5:
                    G[i][i - 1] = float(rng.choice([-1, 1]))  # non-symmetric coupling
        else:
            im = [[0.0] * n for _ in range(n)]
            G = [[0.0] * n for _ in range(n)]
            for i in range(n):
                im[i][i] = 1.0
                G[i][i] = float(rng.choice([1, 2, 3]))
                if i > 0 and rng.random() < 0.6:
                    im[i][i - 1] = float(rng.choice([-1, 1]))
        q = [dyad(rng, -4, 4, rng.choice([0, 1, 2])) for _ in range(n)]
        p = [dyad(rng, -4, 4, rng.choice([0, 1, 2])) for _ in range(n)]
        b = [float(rng.randint(-2, 2)) for _ in range(n)]
    else:
        sizes = gen_sizes(rng, rng.choice([1, 2, 3, 4, 6, 8]))
        n = sum(sizes)
        if style == "mid":
            eps = rng.choice([0.5, 0.25, 0.5, 0.75])
            steps = rng.randint(1, 12)
        else:
            eps = rng.choice([0.125, 0.0625, 0.375, 0.3125, 1.5])
            steps = rng.randint(1, 5)
        mb = rng.choice([0, 1, 2])
        if kind == "diag":
            im = [dyad(rng, 0.25, 4, mb) for _ in range(n)]
        else:
            im = [[dyad(rng, -2, 2, mb) for _ in range(n)] for _ in range(n)]
            for i in range(n):
                im[i][i] = dyad(rng, 0.5, 4, mb)
        G = [[float(rng.randint(-3, 3)) for _ in range(n)] for _ in range(n)]
        q = [dyad(rng, -8, 8, rng.choice([0, 2, 4])) for _ in range(n)]
        p = [dyad(rng, -8, 8, rng.choice([0, 2, 4])) for _ in range(n)]
        b = [dyad(rng, -3, 3, rng.choice([0, 1])) for _ in range(n)]
    return {"style": style, "kind": kind, "sizes": sizes, "n": n, "steps": steps, "eps": eps,
            "ids": rng.choice(ID_SCHEMES),
            "im": im, "q": q, "p": p, "G": G, "b": b}


def gen_mass(rng, kind, n):
    """mass matrices whose inverse is dyadic: powers of two / L L^T with unit lower triangular L"""
    if kind == "diag":
        return [rng.choice([0.25, 0.5, 1.0, 2.0, 4.0]) for _ in range(n)]
    L = [[0] * n for _ in range(n)]
    for i in range(n):
        L[i][i] = 1
        for j in range(i):
            L[i][j] = rng.choice([-1, 0, 1])
    s = rng.choice([0.5, 1.0, 2.0])
    return [[s * sum(L[i][k] * L[j][k] for k in range(n)) for j in range(n)] for i in range(n)]


# --------------------------------------------------------------------------- oracles (implementation)
def frac_det(m):
    m = [[Fraction(x) for x in row] for row in m]
    n, det = len(m), Fraction(1)
    for c in range(n):
        piv = next((r for r in range(c, n) if m[r][c] != 0), None)
        if piv is None:
            return Fraction(0)
        if piv != c:
            m[c], m[piv] = m[piv], m[c]
            det = -det
        det *= m[c][c]
        for r in range(c + 1, n):
            f = m[r][c] / m[c][c]
            for k in range(c, n):
                m[r][k] -= f * m[c][k]
    return det


def scale_of(*vs):
    return max([1.0] + [abs(float(x)) for v in vs for x in v])


def oracle_reversal(run, q, p, tol):
    """run(q,p)->(q',p'). Property clause: integrate, negate momentum, integrate -> (q,-p)."""
    r1 = run(q, p)
    if r1[0] == "EXC":
        return {"oracle": "reversal", "error": r1[1]}
    q1, p1 = r1
    r2 = run(q1, [-x for x in p1])
    if r2[0] == "EXC":
        return {"oracle": "reversal", "error": r2[1]}
    q2, p2 = r2
    sc = scale_of(q, p, q1, p1)
    err = max([abs(a - b) for a, b in zip(q2, q)] + [abs(a + b) for a, b in zip(p2, p)])
    if not err <= tol * sc:
        return {"oracle": "reversal", "q": q, "p": p, "forward": [q1, p1], "back": [q2, p2], "err": err}
    return None


def oracle_jacobian(run, q, p, delta, tol, exact):
    """determinant of d(q',p')/d(q,p) on the implementation: exact column differences for a
    linear map (exact=True), central differences otherwise"""
    n = len(q)
    z = list(q) + list(p)
    cols = []
    base = run(q, p) if exact else None
    if exact and base[0] == "EXC":
        return {"oracle": "jacobian", "error": base[1]}
    for j in range(2 * n):
        zp = list(z)
        zp[j] += delta
        rp = run(zp[:n], zp[n:])
        if rp[0] == "EXC":
            return {"oracle": "jacobian", "error": rp[1]}
        if exact:
            col = [(fr(a) - fr(b)) / fr(delta) for a, b in zip(rp[0] + rp[1], base[0] + base[1])]
        else:
            zm = list(z)
            zm[j] -= delta
            rm = run(zm[:n], zm[n:])
            if rm[0] == "EXC":
                return {"oracle": "jacobian", "error": rm[1]}
            col = [(a - b) / (2 * delta) for a, b in zip(rp[0] + rp[1], rm[0] + rm[1])]
        cols.append(col)
    J = [[cols[j][i] for j in range(2 * n)] for i in range(2 * n)]
    det = float(frac_det(J))
    if not abs(det - 1.0) <= tol:
        return {"oracle": "jacobian", "q": q, "p": p, "det": det}
    return None


# --------------------------------------------------------------------------- general targets
def build_general(torch, spec):
    """normal on x (dim k) and gamma on exp(z) (dim m) with the transform's Jacobian in the joint"""
    from torchtree.core.parameter import Parameter, TransformedParameter
    from torchtree.distributions.distributions import Distribution
    from torchtree.distributions.joint_distribution import JointDistributionModel

    D = torch.float64
    x = Parameter("x", torch.tensor(spec["x"], dtype=D))
    loc = Parameter("m", torch.tensor(spec["loc"], dtype=D))
    build_general.last_loc = loc  # another parameter of the joint (not moved by the trajectory)
    dists = [Distribution("dn", torch.distributions.Normal, x,
                          {"loc": loc,
                           "scale": Parameter("s", torch.tensor(spec["scale"], dtype=D))})]
    params = [x]
    if spec["z"]:
        z = Parameter("z", torch.tensor(spec["z"], dtype=D))
        y = TransformedParameter("y", z, torch.distributions.ExpTransform())
        dists += [Distribution("dg", torch.distributions.Gamma, y,
                               {"concentration": Parameter("c", torch.tensor(spec["conc"], dtype=D)),
                                "rate": Parameter("r", torch.tensor(spec["rate"], dtype=D))}), y]
        params.append(z)
    return JointDistributionModel("joint", dists), params


def gen_general(rng):
    k = rng.randint(1, 4)
    m = rng.randint(0, 3)
    n = k + m
    kind = rng.choice(["diag", "dense"])
    if kind == "diag":
        mass = [rng.uniform(0.3, 3.0) for _ in range(n)]
    else:
        A = [[rng.uniform(-1, 1) for _ in range(n)] for _ in range(n)]
        mass = [[sum(A[i][t] * A[j][t] for t in range(n)) + (1.5 if i == j else 0.0) for j in range(n)]
                for i in range(n)]
    return {"x": [rng.uniform(-1, 1) for _ in range(k)], "loc": [rng.uniform(-1, 1) for _ in range(k)],
            "scale": [rng.uniform(0.5, 2) for _ in range(k)],
            "z": [rng.uniform(-0.5, 0.5) for _ in range(m)], "conc": [rng.uniform(1.5, 4) for _ in range(m)],
            "rate": [rng.uniform(0.5, 3) for _ in range(m)],
            "kind": kind, "mass": mass, "n": n,
            "eps": rng.choice([1e-3, 0.01, 0.05, 0.1, 0.2, 0.5 * rng.random() + 1e-3]),
            "steps": rng.randint(1, 30), "p": [rng.gauss(0, 1) for _ in range(n)]}


class Recorder:
    """wraps the joint: records every position the integrator evaluates and, through tensor
    hooks, the gradient autograd delivers there"""

    def __init__(self, torch, joint, params):
        self.torch, self.joint, self.params, self.rec = torch, joint, params, []

    def __call__(self):
        v = self.joint()
        ent = {"q": self.torch.cat([p.tensor.detach().clone() for p in self.params]).tolist(),
               "g": [None] * len(self.params)}
        for i, p in enumerate(self.params):
            if p.tensor.requires_grad:
                p.tensor.register_hook(lambda g, i=i, ent=ent: ent["g"].__setitem__(i, g.clone().tolist()))
        self.rec.append(ent)
        return v


def general_run(spec, q=None, p=None, steps=None, eps=None, record=False):
    """REAL integrator on a real torchtree joint -> (q', p', table, H0, H1)"""
    torch = _torch()
    from torchtree.inference.hmc.integrator import LeapfrogIntegrator

    sp = dict(spec)
    if q is not None:
        k = len(spec["x"])
        sp["x"], sp["z"] = q[:k], q[k:]
    joint, params = build_general(torch, sp)
    mass = tens(torch, spec["mass"])
    im = 1.0 / mass if spec["kind"] == "diag" else torch.inverse(mass)
    p0 = tens(torch, spec["p"] if p is None else p)
    integ = LeapfrogIntegrator("lf", spec["steps"] if steps is None else steps,
                               spec["eps"] if eps is None else eps)
    target = Recorder(torch, joint, params) if record else joint

    def ham(mom):
        with torch.no_grad():
            u = -float(joint())
        kin = 0.5 * float(mom @ (im * mom if im.dim() == 1 else im @ mom))
        return u + kin

    try:
        h0 = ham(p0)
        out = integ(target, params, p0, im)
        h1 = ham(out)
    except Exception as e:
        return ("EXC", type(e).__name__ + ": " + str(e)[:80])
    qn = torch.cat([x.tensor.detach() for x in params]).tolist()
    table = []
    if record:
        for ent in target.rec:
            if any(g is None for g in ent["g"]):
                continue
            table.append((ent["q"], [v for g in ent["g"] for v in g]))
    return qn, out.tolist(), table, h0, h1, im.tolist()


def general_history(spec, new_loc):
    """two trajectories on the same integrator and the same torchtree objects; the Normal's `loc` (another
    parameter of the same joint) is changed through Parameter.tensor in between; second trajectory also on
    brand-new objects at the same state. -> (reused (q,p), fresh (q,p)) or ('EXC', ..)"""
    torch = _torch()
    from torchtree.inference.hmc.integrator import LeapfrogIntegrator

    joint, params = build_general(torch, spec)
    loc = build_general.last_loc
    mass = tens(torch, spec["mass"])
    im = 1.0 / mass if spec["kind"] == "diag" else torch.inverse(mass)
    integ = LeapfrogIntegrator("lf", spec["steps"], spec["eps"])
    try:
        p1 = integ(joint, params, tens(torch, spec["p"]), im)
        q1 = torch.cat([x.tensor.detach() for x in params]).tolist()
        loc.tensor = tens(torch, new_loc)
        p2 = integ(joint, params, -p1, im)
        reused = (torch.cat([x.tensor.detach() for x in params]).tolist(), p2.tolist())
    except Exception as e:
        return ("EXC", type(e).__name__ + ": " + str(e)[:80])
    fr_ = general_run(dict(spec, loc=new_loc), q=q1, p=(-p1).tolist())
    if fr_[0] == "EXC":
        return fr_
    return reused, (fr_[0], fr_[1])


def close(a, b, tol=TOL):
    return abs(a - b) <= tol * max(1.0, abs(a), abs(b))


# --------------------------------------------------------------------------- the check
def exact_case(ck: Check, drv, case, fails):
    """one bit-exact correspondence case through the bare integrator; returns True if it ran"""
    for _ in range(6):
        m = parse_lin(drv.ask(req_lin(case)))
        if m is None:
            ck.mismatch("driver answered bad-op", {"case": case})
            return False
        ok_int, ok_kin = budget(case, m["maxabs"])
        if ok_int:
            break
        case["steps"] = max(1, case["steps"] // 2)
        if case["steps"] == 1:
            case["q"] = [float(round(v)) for v in case["q"]]
            case["p"] = [float(round(v)) for v in case["p"]]
    else:
        ck.bucket("exact/skipped-over-budget")
        return False
    r = impl_integrate(case)
    key = ("int", case["kind"], case["n"], len(case["sizes"]), case["steps"], case["eps"],
           tuple(case["q"]), tuple(case["p"]))
    sample = {"via": "LeapfrogIntegrator.__call__", "kind": case["kind"], "sizes": case["sizes"],
              "steps": case["steps"], "eps": case["eps"], "q": case["q"], "p": case["p"],
              "model_q": [str(x) for x in m["q"]], "impl": r if r[0] == "EXC" else {"q": r[0], "p": r[1]}}
    moved = [fr(a) for a in case["q"]] != m["q"]
    ck.case(key, sample, nontrivial=moved,
            bucket=f"exact/integrator/{case['kind']}/steps{'1-3' if case['steps'] <= 3 else '4-10' if case['steps'] <= 10 else '11-30'}")
    ck.bucket(f"exact/params-per-operator={len(case['sizes'])}")
    ck.bucket(f"exact/parameter-ids={case.get('ids', 'distinct')}/{'equal' if len(set(case['sizes'])) == 1 else 'unequal'}-sizes")
    if r[0] == "EXC":
        ck.mismatch("implementation raised", {"case": case, "error": r[1]})
        fails.append(case)
        return True
    if [fr(x) for x in r[0]] != m["q"] or [fr(x) for x in r[1]] != m["p"]:
        ck.mismatch("integrator output differs from exact model",
                    {"case": case, "impl_q": r[0], "impl_p": r[1],
                     "model_q": [str(x) for x in m["q"]], "model_p": [str(x) for x in m["p"]]})
        fails.append(case)
    # Float run of the same model (rounding-order mirror): tolerance only, bit-equality counted
    mf = parse_lin(drv.ask(req_lin(case, "flt")), "flt")
    if mf is None or not all(close(a, b, 1e-12) for a, b in zip(mf["q"] + mf["p"], r[0] + r[1])):
        ck.mismatch("Float run of the model differs from implementation", {"case": case})
    return True


def operator_case(ck: Check, drv, rng, fails, with_nan):
    """HMCOperator.step() on the stub, scripted momentum; model = hmcStep / leapfrog + kinetic"""
    case = gen_case(rng, rng.choice(["mid", "mid", "long"]))
    n = case["n"]
    # small magnitudes so that the kinetic energies are exact too
    case["q"] = [dyad(rng, -3, 3, rng.choice([0, 1])) for _ in range(n)]
    case["p"] = [dyad(rng, -3, 3, rng.choice([0, 1])) for _ in range(n)]
    case["G"] = [[float(rng.randint(-2, 2)) for _ in range(n)] for _ in range(n)]
    case["eps"] = rng.choice([1.0, 0.5, 0.5, 0.25])
    case["kind"] = rng.choice(["diag", "dense"])
    case["mass"] = gen_mass(rng, case["kind"], n)
    torch = _torch()
    mt = tens(torch, case["mass"])
    case["im"] = (1.0 / mt if mt.dim() == 1 else torch.inverse(mt)).tolist()
    case["steps"] = rng.randint(1, 4)
    if with_nan:
        ntr = 11  # the implementation draws at most 10; the 11th must stay on the tape
        momenta = [[dyad(rng, -4, 4, 1) for _ in range(n)] for _ in range(ntr)]
        thr = dyad(rng, -2, 6, 0)
    else:
        momenta, thr = [case["p"]], None
    case["p"] = momenta[0]
    # exactness budget over every trial
    okb = True
    for mom in momenta:
        c2 = dict(case, p=mom)
        m = parse_lin(drv.ask(req_lin(c2)))
        if m is None:
            ck.mismatch("driver answered bad-op", {"case": c2})
            return
        a, b = budget(c2, m["maxabs"])
        okb = okb and a and b
    if not okb:
        ck.bucket("exact/operator-skipped-over-budget")
        return
    res = impl_operator(case, momenta, thr)
    if with_nan:
        w = ["hmc", "rat", case["kind"], str(n), str(case["steps"]), rs(case["eps"])]
        w += [rs(v) for v in flat(case["im"])] + [rs(v) for v in case["q"]]
        w += [rs(v) for v in flat(case["G"])] + [rs(v) for v in case["b"]]
        w += [rs(thr), "10", str(len(momenta))] + [rs(v) for mom in momenta for v in mom]
        rep = drv.ask(" ".join(w))
    else:
        rep = None
    key = ("op", case["kind"], n, len(case["sizes"]), case["steps"], case["eps"], tuple(case["q"]),
           tuple(map(tuple, momenta)), thr)
    if res[0] == "EXC" if isinstance(res, tuple) else False:
        ck.case(key, {"via": "HMCOperator.step", "error": res[1]}, bucket="exact/operator/raised")
        ck.mismatch("HMCOperator.step raised", {"case": case, "error": res[1], "thr": thr, "momenta": momenta})
        fails.append(dict(case, momenta=momenta, thr=thr))
        return
    sample = {"via": "HMCOperator.step", "kind": case["kind"], "sizes": case["sizes"], "steps": case["steps"],
              "eps": case["eps"], "q": case["q"], "momenta": momenta[:2], "nan_above": thr,
              "impl_q": res["q"], "impl_hastings": res["hr"], "model": rep}
    bad = []
    # the momentum must be drawn from N(0, M): the M whose inverse the kinetic energy uses
    for d in res["draws"]:
        if any(v != 0 for v in d[1]):
            bad.append("momentum mean not zero")
        if d[0] == "normal" and not all(close(v * v, m_, 1e-12) for v, m_ in zip(d[2], case["mass"])):
            bad.append("momentum scale^2 is not the mass matrix")
        if d[0] == "mvn" and not all(close(a, b_, 1e-12) for a, b_ in zip(flat(d[2]), flat(case["mass"]))):
            bad.append("momentum covariance is not the mass matrix")
    if res["requires_grad"]:
        bad.append("parameters left with requires_grad=True")
    if with_nan:
        if rep == "bad-op":
            bad.append("driver bad-op")
        elif rep.startswith("inf"):
            mq = [Fraction(s) for s in rep.split()[1:]]
            if not (math.isinf(res["hr"]) and res["hr"] > 0 and [fr(v) for v in res["q"]] == mq):
                bad.append("model says all trials fail (inf, positions restored)")
            ck.bucket("exact/operator/all-trials-fail")
        else:
            body = rep[3:].split(";")
            mq, mh = [Fraction(s) for s in body[0].split()], Fraction(body[1].strip())
            if [fr(v) for v in res["q"]] != mq or math.isinf(res["hr"]) or fr(res["hr"]) != mh:
                bad.append("positions / Hastings term differ from hmcStep")
            ck.bucket(f"exact/operator/trials-used={len(res['draws'])}")
    else:
        m = parse_lin(drv.ask(req_lin(case)))
        if [fr(v) for v in res["q"]] != m["q"] or math.isinf(res["hr"]) or fr(res["hr"]) != m["hr"]:
            bad.append(f"positions / Hastings term differ from model (model hr {m['hr']})")
        if res["returned"] and [fr(v) for v in res["returned"][-1]] != m["p"]:
            bad.append("returned momentum differs from model")
    nontriv = not (with_nan and rep is not None and rep.startswith("inf")) and res["hr"] != 0.0
    ck.case(key, sample, nontrivial=nontriv, bucket=f"exact/operator/{case['kind']}{'/nan-stub' if with_nan else ''}")
    # oracle: returned value = K(p0) - K(pL) recomputed here from the observed momenta
    if res["returned"] and not math.isinf(res["hr"]):
        p0 = momenta[len(res["draws"]) - 1]
        pl = res["returned"][-1]
        K = lambda v: kin_exact(case["im"], v)
        if fr(res["hr"]) != K(p0) - K(pl):
            bad.append("returned Hastings term is not K(p0)-K(pL)")
            fails.append(dict(case, momenta=momenta, thr=thr, oracle="hastings"))
    if bad:
        ck.mismatch("HMCOperator.step differs from model: " + "; ".join(bad),
                    {"case": case, "momenta": momenta, "thr": thr, "impl": res, "model": rep})
        if not any(f.get("oracle") == "hastings" for f in fails[-1:]):
            fails.append(dict(case, momenta=momenta, thr=thr))


def kin_exact(im, v):
    v = [fr(x) for x in v]
    if im and isinstance(im[0], list):
        mv = [sum(fr(im[i][j]) * v[j] for j in range(len(v))) for i in range(len(v))]
    else:
        mv = [fr(im[i]) * v[i] for i in range(len(v))]
    return sum(a * b for a, b in zip(v, mv)) / 2


def general_case(ck: Check, drv, rng, viol):
    spec = gen_general(rng)
    r = general_run(spec, record=True)
    key = ("gen", spec["kind"], spec["n"], spec["steps"], spec["eps"], tuple(spec["x"]))
    if r[0] == "EXC":
        ck.case(key, {"via": "general target", "error": r[1]}, bucket="general/raised")
        ck.bucket("general/raised-" + r[1].split(":")[0])
        return
    qn, pn, table, h0, h1, im = r
    w = ["tab", "flt", spec["kind"], str(spec["n"]), str(spec["steps"]), f2h(spec["eps"])]
    w += [f2h(v) for v in flat(im)]
    w += [f2h(v) for v in spec["x"] + spec["z"]] + [f2h(v) for v in spec["p"]]
    w.append(str(len(table)))
    for qi, gi in table:
        w += [f2h(v) for v in qi] + [f2h(v) for v in gi]
    rep = drv.ask(" ".join(w))
    ck.case(key, {"via": "LeapfrogIntegrator on normal+gamma(exp transform) joint", "kind": spec["kind"],
                  "n": spec["n"], "steps": spec["steps"], "eps": spec["eps"], "impl_q": qn[:3], "dH": h1 - h0},
            bucket=f"general/{spec['kind']}/n{spec['n']}")
    if rep == "bad-op":
        ck.mismatch("driver bad-op (tab)", {"spec": spec})
        return
    parts = [x.split() for x in rep.split(";")]
    mq, mp = [h2f(s) for s in parts[0]], [h2f(s) for s in parts[1]]
    if not all(close(a, b) for a, b in zip(mq + mp, qn + pn)):
        ck.mismatch("general target: integrator output differs from model fed with the implementation's gradients",
                    {"spec": spec, "impl": [qn, pn], "model": [mq, mp]})
        viol.append(spec)


def second_order(errs) -> bool:
    """energy errors at eps, eps/2, eps/4 over a fixed integration time are consistent with second order.
    The end-point error is C*eps^2 + O(eps^4) where C (and the sum) can vanish by accident at one step size, so a
    single ratio can be anything; a first-order scheme has BOTH ratios near 2. Sound rule: one of the two ratios
    is at least 2.8, or the finest error is at round-off level."""
    if errs[2] <= 1e-12:
        return True
    r1 = errs[0] / errs[1] if errs[1] > 0 else float("inf")
    r2 = errs[1] / errs[2] if errs[2] > 0 else float("inf")
    return max(r1, r2) >= 2.8


def search_general(ck: Check, rng, count, found):
    """property oracles on the implementation with real targets: reversal, Jacobian, step halving"""
    for _ in range(count):
        spec = gen_general(rng)
        spec["steps"] = rng.randint(1, 12)
        spec["eps"] = rng.choice([0.01, 0.02, 0.05, 0.1])

        def run(q, p, spec=spec):
            r = general_run(spec, q=q, p=p)
            return r if r[0] == "EXC" else (r[0], r[1])

        q0, p0 = spec["x"] + spec["z"], spec["p"]
        ck.bucket("search/general-target")
        f = oracle_reversal(run, q0, p0, 1e-8)
        if f and "error" not in f:
            found.append(("leapfrog:reversal", f, {"general": spec}))
        if spec["n"] <= 4:
            f = oracle_jacobian(run, q0, p0, 1e-5, 1e-5, exact=False)
            if f and "error" not in f:
                found.append(("leapfrog:jacobian", f, {"general": spec}))
        # history: same integrator and objects, another parameter of the joint changed in between
        new_loc = [v + rng.choice([-1.0, 0.5, 2.0]) for v in spec["loc"]]
        gh = general_history(spec, new_loc)
        if gh[0] != "EXC":
            ck.bucket("search/general-history")
            (rq, rp), (fq, fp) = gh
            if not all(close(a, b, 1e-12) for a, b in zip(rq + rp, fq + fp)):
                found.append(("leapfrog:history-dependence",
                              {"oracle": "second trajectory on reused objects after changing another parameter of the "
                                         "joint vs the same trajectory on fresh objects", "reused": [rq, rp], "fresh": [fq, fp]},
                              {"general_history": {"spec": spec, "new_loc": new_loc}}))
        # energy error: fixed integration time, step eps, eps/2, eps/4 -> second order means /16
        T, L = spec["eps"] * 4, 4
        errs = []
        for h in range(3):
            r = general_run(spec, steps=L * 2 ** h, eps=T / (L * 2 ** h))
            if r[0] == "EXC":
                errs = None
                break
            errs.append(abs(r[4] - r[3]))
        if errs and max(errs) > 1e-9 and not second_order(errs):
            found.append(("leapfrog:energy-order", {"oracle": "step-halving", "errors": errs, "T": T},
                          {"general": spec}))


def search_exact(ck: Check, cases, found):
    """property oracles on the implementation with the linear stub (exact arithmetic)"""
    for case in cases:
        def run(q, p, case=case):
            return impl_integrate(case, q=q, p=p)

        ck.bucket("search/linear-stub")
        # layout: the same trajectory with distinct parameter names — names must not matter, every parameter
        # gets its own slice of the flattened position (identity permutation)
        if case.get("ids", "distinct") != "distinct":
            r_named, r_plain = impl_integrate(case), impl_integrate(dict(case, ids="distinct"))
            if r_named != r_plain:
                found.append(("leapfrog:parameter-layout",
                              {"oracle": "trajectory with parameter ids %r vs the same parameters with distinct ids"
                                         % param_ids(case["ids"], len(case["sizes"])),
                               "err": None if r_named[0] == "EXC" or r_plain[0] == "EXC" else
                               max(abs(a - b) for a, b in zip(r_named[0] + r_named[1], r_plain[0] + r_plain[1])),
                               "error": r_named[1] if r_named[0] == "EXC" else None}, {"linear": case}))
        f = oracle_reversal(run, case["q"], case["p"], 1e-9)
        if f:
            found.append(("leapfrog:reversal", f, {"linear": case}))
        if case["n"] <= 4:
            f = oracle_jacobian(run, case["q"], case["p"], 1.0, 1e-9, exact=True)
            if f:
                found.append(("leapfrog:jacobian", f, {"linear": case}))


# --------------------------------------------------------------------------- histories on ONE instance
def run_history(base, segments):
    """several trajectories on the SAME LeapfrogIntegrator instance and the same Parameter objects: each
    starts exactly where the previous one ended; between trajectories ANOTHER parameter `c` of the joint
    (linear term b*c) may be changed through Parameter.tensor.  For every segment also the same
    trajectory on brand-new objects (fresh integrator, parameters, joint) at the same state and c.
    -> list of dict(start_q, p, c, out=(q,p)|('EXC',..), fresh=(q,p)|('EXC',..))"""
    torch = _torch()
    from torchtree.core.parameter import Parameter
    from torchtree.inference.hmc.integrator import LeapfrogIntegrator

    params = make_params(torch, base)
    cpar = Parameter("c", tens(torch, [1.0]))
    joint = make_stub(torch)(params, tens(torch, base["G"]), tens(torch, base["b"]), None, cpar)
    integ = LeapfrogIntegrator("lf", base["steps"], base["eps"])
    im = tens(torch, base["im"])
    out = []
    for seg in segments:
        if seg["c"] != float(cpar.tensor[0]):
            cpar.tensor = tens(torch, [seg["c"]])
        start = torch.cat([x.tensor.detach() for x in params]).tolist()
        try:
            pm = integ(joint, params, tens(torch, seg["p"]), im)
            res = (torch.cat([x.tensor.detach() for x in params]).tolist(), pm.tolist())
        except Exception as e:
            res = ("EXC", type(e).__name__ + ": " + str(e)[:80])
        fresh = impl_integrate(dict(base, q=start, p=seg["p"], b=[v * seg["c"] for v in base["b"]]))
        out.append({"start_q": start, "p": seg["p"], "c": seg["c"], "out": res, "fresh": fresh})
        if res[0] == "EXC":
            break
    return out


def history_case(ck: Check, drv, rng, fails, found):
    base = gen_case(rng, rng.choice(["mid", "long"]))
    n = base["n"]
    base["q"] = [dyad(rng, -3, 3, rng.choice([0, 1])) for _ in range(n)]
    base["G"] = [[float(rng.randint(-2, 2)) for _ in range(n)] for _ in range(n)]
    base["b"] = [float(rng.randint(-2, 2)) or 1.0 for _ in range(n)]
    base["eps"] = rng.choice([1.0, 0.5, 0.5, 0.25])
    base["steps"] = rng.randint(1, 3)
    segs, c, prev_p_end = [], 1.0, None
    # decide the segments step by step with the exact model (it needs the end momentum for reversals)
    mq = list(base["q"])
    for k in range(rng.randint(2, 4)):
        act = rng.choice(["new", "change-c", "change-c", "reverse"]) if k else "new"
        if act == "change-c":
            c = float(rng.choice([-2, -1, 0, 2, 3]))
        p = [-v for v in prev_p_end] if (act == "reverse" and prev_p_end is not None) else \
            [dyad(rng, -3, 3, rng.choice([0, 1])) for _ in range(n)]
        cur = dict(base, q=mq, p=p, b=[v * c for v in base["b"]])
        m = parse_lin(drv.ask(req_lin(cur)))
        if m is None:
            ck.mismatch("driver answered bad-op", {"case": cur})
            return
        if not budget(cur, m["maxabs"])[0]:
            break
        segs.append({"c": c, "p": p, "act": act, "model_q": m["q"], "model_p": m["p"]})
        mq, prev_p_end = [float(x) for x in m["q"]], [float(x) for x in m["p"]]
    if len(segs) < 2:
        ck.bucket("history/skipped-over-budget")
        return
    hist = run_history(base, segs)
    pub = {"base": base, "segments": [{"c": s_["c"], "p": s_["p"]} for s_ in segs]}
    for k, (sg, h) in enumerate(zip(segs, hist)):
        key = ("hist", base["kind"], n, base["steps"], base["eps"], k, sg["act"], tuple(sg["p"]), sg["c"])
        ck.case(key, {"via": "same LeapfrogIntegrator instance, trajectory %d (%s)" % (k + 1, sg["act"]),
                      "start_q": h["start_q"], "p": sg["p"], "c": sg["c"], "impl": h["out"],
                      "model_q": [str(x) for x in sg["model_q"]]},
                bucket=f"exact/history/{sg['act']}")
        if h["out"][0] == "EXC" or [fr(x) for x in h["out"][0]] != sg["model_q"] or [fr(x) for x in h["out"][1]] != sg["model_p"]:
            ck.mismatch("trajectory %d on a reused integrator differs from the exact model" % (k + 1),
                        {"history": pub, "segment": k, "impl": h["out"],
                         "model": [[str(x) for x in sg["model_q"]], [str(x) for x in sg["model_p"]]]})
        # oracle on the implementation alone: the same trajectory on brand-new objects
        if h["out"] != h["fresh"]:
            found.append(("leapfrog:history-dependence",
                          {"oracle": "trajectory on a reused integrator/parameters vs the same trajectory on fresh objects",
                           "segment": k + 1, "reused": h["out"], "fresh": h["fresh"]}, {"history": pub}))
            return
        # oracle: reversal on the same instance (target unchanged between the two trajectories)
        if sg["act"] == "reverse" and k and h["out"][0] != "EXC":
            want_q, want_p = hist[k - 1]["start_q"], [-v for v in segs[k - 1]["p"]]
            if h["out"][0] != want_q or h["out"][1] != want_p:
                found.append(("leapfrog:reversal",
                              {"oracle": "reversal on the same integrator instance", "segment": k + 1,
                               "err": max(abs(a - b) for a, b in zip(h["out"][0] + h["out"][1], want_q + want_p))},
                              {"history": pub}))
                return


def run_op_history(base, segments):
    """several step() calls on the SAME HMCOperator (same integrator, same Parameter objects), each followed by
    accept() or reject(); between steps another parameter `c` of the joint may change.  Each step also on a
    brand-new operator at the same state and c (same scripted momenta)."""
    torch = _torch()
    from torchtree.core.parameter import Parameter
    from torchtree.inference.hmc.integrator import LeapfrogIntegrator
    from torchtree.inference.hmc.operator import HMCOperator

    def build(q, c):
        params = make_params(torch, dict(base, q=q))
        cpar = Parameter("c", tens(torch, [c]))
        thr = base.get("thr")
        joint = make_stub(torch)(params, tens(torch, base["G"]), tens(torch, base["b"]),
                                 None if thr is None else float(thr), cpar)
        integ = IntegProxy(LeapfrogIntegrator("lf", base["steps"], base["eps"]))
        op = HMCOperator("hmc", joint, params, integ, Parameter("mass", tens(torch, base["mass"])), 1.0, 0.8, [],
                         disable_adaptation=True)
        return op, params, cpar, integ

    def one(op, params, integ, momenta):
        n0 = len(integ.returned)
        try:
            with Scripted(torch, momenta) as sc:
                hr = float(op.step())
        except Exception as e:
            return ("EXC", type(e).__name__ + ": " + str(e)[:80])
        return {"q": torch.cat([x.tensor.detach() for x in params]).tolist(), "hr": hr, "used": len(sc.seen),
                "returned": integ.returned[n0:]}

    op, params, cpar, integ = build(base["q"], 1.0)
    out = []
    for seg in segments:
        if seg["c"] != float(cpar.tensor[0]):
            cpar.tensor = tens(torch, [seg["c"]])
        start = torch.cat([x.tensor.detach() for x in params]).tolist()
        res = one(op, params, integ, seg["momenta"])
        fop, fparams, _c, finteg = build(start, seg["c"])
        fresh = one(fop, fparams, finteg, seg["momenta"])
        out.append({"start_q": start, "res": res, "fresh": fresh})
        if not isinstance(res, dict):
            break
        try:
            op.accept() if seg["decision"] == "accept" else op.reject()
        except Exception as e:
            out[-1]["res"] = ("EXC", type(e).__name__)
            break
        out[-1]["after_decision"] = torch.cat([x.tensor.detach() for x in params]).tolist()
    return out


def op_history_case(ck: Check, drv, rng, fails, found):
    base = gen_case(rng, rng.choice(["mid", "long"]))
    n = base["n"]
    base["kind"] = rng.choice(["diag", "dense"])
    base["q"] = [dyad(rng, -2, 2, rng.choice([0, 1])) for _ in range(n)]
    base["G"] = [[float(rng.randint(-2, 2)) for _ in range(n)] for _ in range(n)]
    base["b"] = [float(rng.randint(-2, 2)) or 1.0 for _ in range(n)]
    base["eps"] = rng.choice([1.0, 0.5, 0.5, 0.25])
    base["steps"] = rng.randint(1, 2)
    base["mass"] = gen_mass(rng, base["kind"], n)
    torch = _torch()
    mt = tens(torch, base["mass"])
    base["im"] = (1.0 / mt if mt.dim() == 1 else torch.inverse(mt)).tolist()
    use_nan = rng.random() < 0.6
    segs, c, mq = [], 1.0, list(base["q"])
    if use_nan:
        base["thr"] = mq[0] + rng.choice([0.5, 1.0, 2.0])
    for k in range(rng.randint(2, 4)):
        if k and rng.random() < 0.6:
            c = float(rng.choice([-2, -1, 0, 2, 3]))
        momenta = [[dyad(rng, -3, 3, 1) for _ in range(n)] for _ in range(11)]
        if use_nan:
            # the first few draws push q_0 up (likely into the nan region), a later one pulls it down
            kf = rng.randint(1, 3)
            for i in range(11):
                momenta[i][0] = (8.0 if i < kf else -abs(momenta[i][0]) - 1.0)
        w = ["hmc", "rat", base["kind"], str(n), str(base["steps"]), rs(base["eps"])]
        w += [rs(v) for v in flat(base["im"])] + [rs(v) for v in mq]
        w += [rs(v) for v in flat(base["G"])] + [rs(v * c) for v in base["b"]]
        w += [rs(base["thr"]) if use_nan else "1000000000", "10", "11"] + [rs(v) for mom in momenta for v in mom]
        rep = drv.ask(" ".join(w))
        if rep == "bad-op":
            ck.mismatch("driver bad-op (hmc)", {"base": base})
            return
        okb = True
        for mom in momenta[:10]:
            c2 = dict(base, q=mq, p=mom, b=[v * c for v in base["b"]])
            m = parse_lin(drv.ask(req_lin(c2)))
            a_, b_ = budget(c2, m["maxabs"])
            okb = okb and a_ and b_
        if not okb:
            break
        decision = rng.choice(["accept", "reject"])
        if rep.startswith("inf"):
            mq2, mh = [Fraction(x) for x in rep.split()[1:]], None
        else:
            body = rep[3:].split(";")
            mq2, mh = [Fraction(x) for x in body[0].split()], Fraction(body[1].strip())
        segs.append({"c": c, "momenta": momenta, "decision": decision, "model_q": mq2, "model_hr": mh, "start": list(mq)})
        if decision == "accept":
            mq = [float(x) for x in mq2]
    if len(segs) < 2:
        ck.bucket("history/operator-skipped-over-budget")
        return
    hist = run_op_history(base, segs)
    pub = {"base": base, "segments": [{"c": s_["c"], "momenta": s_["momenta"], "decision": s_["decision"]} for s_ in segs]}
    for k, (sg, h) in enumerate(zip(segs, hist)):
        r = h["res"]
        used = r["used"] if isinstance(r, dict) else None
        ck.case(("ophist", base["kind"], n, base["steps"], base["eps"], k, sg["c"], tuple(sg["momenta"][0]), sg["decision"]),
                {"via": "same HMCOperator instance, step %d then %s" % (k + 1, sg["decision"]), "start_q": h["start_q"],
                 "c": sg["c"], "nan_above": base.get("thr"), "impl": r if not isinstance(r, dict) else
                 {"q": r["q"], "hastings": r["hr"], "momentum_draws_used": used}},
                nontrivial=isinstance(r, dict) and not math.isinf(r["hr"]),
                bucket="exact/op-history/" + ("raised" if not isinstance(r, dict) else
                                              "all-trials-fail" if math.isinf(r["hr"]) else
                                              f"trials-used={used}"))
        bad = []
        if not isinstance(r, dict):
            bad.append("step raised: " + r[1])
        else:
            if [fr(v) for v in r["q"]] != sg["model_q"]:
                bad.append("positions after step")
            if sg["model_hr"] is None:
                if not (math.isinf(r["hr"]) and r["hr"] > 0):
                    bad.append("model: all trials fail (inf)")
            elif math.isinf(r["hr"]) or fr(r["hr"]) != sg["model_hr"]:
                bad.append(f"Hastings term (model {sg['model_hr']}, impl {r['hr']})")
            want_after = r["q"] if sg["decision"] == "accept" else h["start_q"]
            if h.get("after_decision") != want_after:
                bad.append("positions after accept/reject")
            # oracles on the implementation alone
            if not math.isinf(r["hr"]) and r["returned"]:
                p_used = sg["momenta"][used - 1]
                if fr(r["hr"]) != kin_exact(base["im"], p_used) - kin_exact(base["im"], r["returned"][-1]):
                    found.append(("hmc:hastings-not-kinetic",
                                  {"oracle": "returned value vs K(p_used)-K(p_end), p_used = the momentum draw of the "
                                             "trial that succeeded", "segment": k + 1, "draws_used": used,
                                   "returned": r["hr"]}, {"op_history": pub}))
                    return
            fq = h["fresh"]
            if not isinstance(fq, dict) or fq["q"] != r["q"] or fq["hr"] != r["hr"] and not (math.isinf(fq["hr"]) and math.isinf(r["hr"])):
                found.append(("hmc:history-dependence",
                              {"oracle": "step on a reused operator vs the same step on a fresh operator",
                               "segment": k + 1, "reused": {"q": r["q"], "hr": r["hr"]},
                               "fresh": fq if not isinstance(fq, dict) else {"q": fq["q"], "hr": fq["hr"]}},
                              {"op_history": pub}))
                return
        if bad:
            ck.mismatch("step %d on a reused HMCOperator differs from the exact model: %s" % (k + 1, "; ".join(bad)),
                        {"op_history": pub, "segment": k})
            return


def energy_formula_case(ck: Check, rng):
    """energy_quadratic_dense_partial against the REAL integrator: symmetric integer curvature A, symmetric dyadic
    inverse mass K (dense) or diagonal, one step, dyadic (q,p,eps): the energy change computed exactly (Fractions)
    from the implementation's output must equal eps^3 (r.KAKp1/4 + eps/8 p1.KAKAKp1) exactly"""
    n = rng.randint(1, 4)
    sym = lambda lo, hi, bits: [[0.0] * n for _ in range(n)]
    A, K = sym(0, 0, 0), sym(0, 0, 0)
    for i in range(n):
        for j in range(i, n):
            A[i][j] = A[j][i] = float(rng.randint(-3, 3))
            K[i][j] = K[j][i] = dyad(rng, -2, 2, 1) if i != j else dyad(rng, 0.5, 3, 1)
    diag = rng.random() < 0.3
    if diag:
        for i in range(n):
            for j in range(n):
                if i != j:
                    K[i][j] = 0.0
    case = {"kind": "diag" if diag else "dense", "sizes": [n], "n": n, "steps": 1, "eps": rng.choice([0.5, 0.25, 1.0, 0.75]),
            "im": [K[i][i] for i in range(n)] if diag else K, "q": [dyad(rng, -4, 4, 2) for _ in range(n)],
            "p": [dyad(rng, -4, 4, 2) for _ in range(n)], "G": A, "b": [float(rng.randint(-2, 2)) for _ in range(n)]}
    r_ = impl_integrate(case)
    F = Fraction
    Af, Kf = [[F(x) for x in row] for row in A], [[F(x) for x in row] for row in K]
    mv = lambda M, v: [sum(M[i][j] * v[j] for j in range(n)) for i in range(n)]
    dot = lambda u, v: sum(a * b for a, b in zip(u, v))
    H = lambda q, p: dot(q, mv(Af, q)) / 2 + dot([F(x) for x in case["b"]], q) + dot(p, mv(Kf, p)) / 2
    ck.case(("energy", n, case["kind"], case["eps"], tuple(case["q"]), tuple(case["p"])),
            {"via": "one leapfrog step, energy change vs the proved polynomial", "n": n, "kind": case["kind"]},
            bucket="exact/energy-formula/" + case["kind"])
    if r_[0] == "EXC":
        ck.mismatch("implementation raised (energy formula case)", {"case": case, "error": r_[1]})
        return
    q0, p0 = [F(x) for x in case["q"]], [F(x) for x in case["p"]]
    q1, p1o = [fr(x) for x in r_[0]], [fr(x) for x in r_[1]]
    e = F(case["eps"])
    rr = [a + F(b) for a, b in zip(mv(Af, q0), case["b"])]
    p1 = [a - e / 2 * b for a, b in zip(p0, rr)]
    kakp = mv(Kf, mv(Af, mv(Kf, p1)))
    want = e ** 3 * (dot(rr, kakp) / 4 + e / 8 * dot(p1, mv(Kf, mv(Af, kakp))))
    got = H(q1, p1o) - H(q0, p0)
    if got != want:
        ck.mismatch("one-step energy change differs from the proved polynomial", {"case": case, "impl": float(got), "formula": float(want)})


def dtype_regime_case(ck: Check, drv, rng, found):
    """DTYPE REGIMES through the leapfrog: float32 positions / momentum / inverse mass (default dtype float32 and
    float64), and float64 positions with a float32 inverse mass: the result keeps the dtype of the positions and — on
    dyadic inputs inside the 24-bit budget — equals the exact model bit for bit.  Also INPUT IMMUTABILITY (the momentum and
    inverse-mass tensors handed in are untouched), steps = 0, a deep copy of the integrator, the state autograd leaves."""
    import copy

    torch = _torch()
    from torchtree.core.parameter import Parameter
    from torchtree.inference.hmc.integrator import LeapfrogIntegrator

    for _try in range(8):
        case = gen_case(rng, "long")
        n = case["n"]
        case["q"] = [float(rng.randint(-3, 3)) for _ in range(n)]
        case["p"] = [float(rng.randint(-3, 3)) for _ in range(n)]
        case["b"] = [float(rng.randint(-1, 1)) for _ in range(n)]
        case["steps"] = rng.choice([0, 1, 2, 3])
        m = parse_lin(drv.ask(req_lin(case)))
        if m is not None and budget(case, m["maxabs"], bits=22)[0]:
            break
    else:
        ck.bucket("dtype/skipped-over-budget")
        return
    regimes = [("default32/all32", torch.float32, torch.float32, torch.float32),
               ("default64/all32", torch.float64, torch.float32, torch.float32),
               ("default32/pos64-mass32", torch.float32, torch.float64, torch.float32),
               ("default32/all64", torch.float32, torch.float64, torch.float64)]
    old = torch.get_default_dtype()
    for name, dflt, pd, md in regimes:
        if pd != md and case["kind"] != "diag":
            continue  # a float32 dense mass with float64 positions is refused by torch's matmul (raises, not silent)
        torch.set_default_dtype(dflt)
        try:
            params = make_params(torch, case)
            for p_ in params:
                p_._tensor = p_._tensor.to(pd)
            joint = make_stub(torch)(params, torch.tensor(case["G"], dtype=pd), torch.tensor(case["b"], dtype=pd))
            integ = copy.deepcopy(LeapfrogIntegrator("lf", case["steps"], case["eps"])) if rng.random() < 0.5 else \
                LeapfrogIntegrator("lf", case["steps"], case["eps"])
            mom = torch.tensor(case["p"], dtype=md)  # the momentum is drawn in the dtype of the mass matrix
            im = torch.tensor(case["im"], dtype=md)
            mom0, im0 = mom.clone(), im.clone()
            out = integ(joint, params, mom, im)
            qd = [x.tensor.dtype for x in params]
            res = (torch.cat([x.tensor.detach() for x in params]).tolist(), out.tolist())
            problems = []
            if any(d != pd for d in qd) or out.dtype != pd:
                problems.append(f"dtype of the result: positions {qd}, momentum {out.dtype}, expected {pd}")
            if not (torch.equal(mom, mom0) and torch.equal(im, im0)):
                problems.append("the momentum / inverse mass tensor handed in was modified")
            if any(x.requires_grad for x in params):
                problems.append("positions left with requires_grad=True")
            if [fr(v) for v in res[0]] != m["q"] or [fr(v) for v in res[1]] != m["p"]:
                problems.append("values differ from the exact model")
        except Exception as e:
            problems, res = [f"raised {type(e).__name__}: {str(e)[:100]}"], None
        finally:
            torch.set_default_dtype(old)
        ck.case(("dtype", name, case["kind"], case["n"], case["steps"], tuple(case["q"]), tuple(case["p"])),
                {"via": "LeapfrogIntegrator in dtype regime " + name, "steps": case["steps"], "impl": res,
                 "model_q": [str(x) for x in m["q"]]}, nontrivial=case["steps"] > 0, bucket="dtype/" + name)
        if problems:
            ck.mismatch("dtype regime " + name + ": " + "; ".join(problems), {"case": case, "impl": res})
            found.append(("leapfrog:dtype-regime", {"oracle": "dtype regime " + name, "error": "; ".join(problems)},
                          {"linear": case, "regime": name}))


def hamiltonian_case(ck: Check, rng, found):
    """the public energy model `Hamiltonian(joint)(momentum=..., mass_matrix=... | inverse_mass_matrix=...)` and
    `Hamiltonian.kinetic_energy` in EVERY spelling of the metric (mass matrix or its inverse, vector = diagonal or dense SPD
    non-identity matrix), dyadic inputs with a dyadic inverse so that float64 is exact: each must equal
    U(q) + 1/2 p.M^-1 p computed in Fractions (U = -joint), hence all spellings agree; and the energy difference along a real
    HMCOperator step must be -(d log pi + returned Hastings term)"""
    torch = _torch()
    from torchtree.inference.hmc.hamiltonian import Hamiltonian

    case = gen_case(rng, "mid")
    n = case["n"]
    kind = rng.choice(["diag", "dense", "dense"])
    case["kind"] = kind
    mass = gen_mass(rng, kind, n)
    mt = tens(torch, mass)
    im = (1.0 / mt if mt.dim() == 1 else torch.inverse(mt)).tolist()
    q = [dyad(rng, -3, 3, 1) for _ in range(n)]
    pm = [dyad(rng, -3, 3, 1) for _ in range(n)]
    G = [[0.0] * n for _ in range(n)]
    for i in range(n):
        for j in range(i, n):
            G[i][j] = G[j][i] = float(rng.randint(-2, 2))
    case.update({"q": q, "G": G, "b": [float(rng.randint(-2, 2)) for _ in range(n)], "mass": mass, "im": im})
    F = Fraction
    # exactness needs the inverse torch computed to be the true (dyadic) inverse
    if kind == "dense":
        prod = [[sum(F(mass[i][k]) * F(im[k][j]) for k in range(n)) for j in range(n)] for i in range(n)]
        if any(prod[i][j] != (1 if i == j else 0) for i in range(n) for j in range(n)):
            ck.bucket("hamiltonian/skipped-inexact-inverse")
            return
    qf, pf = [F(x) for x in q], [F(x) for x in pm]
    U = sum(qf[i] * sum(F(G[i][j]) * qf[j] for j in range(n)) for i in range(n)) / 2 + sum(F(b_) * x for b_, x in zip(case["b"], qf))
    want = U + kin_exact(im, pm)
    results = {}
    for spelling in ("mass_matrix", "inverse_mass_matrix", "kinetic_energy(p, inverse)"):
        try:
            params = make_params(torch, case)
            joint = make_stub(torch)(params, tens(torch, G), tens(torch, case["b"]))
            ham = Hamiltonian(None, joint)
            if spelling == "mass_matrix":
                v = ham(momentum=tens(torch, pm), mass_matrix=tens(torch, mass))
            elif spelling == "inverse_mass_matrix":
                v = ham(momentum=tens(torch, pm), inverse_mass_matrix=tens(torch, im))
            else:
                v = ham.potential_energy() + ham.kinetic_energy(tens(torch, pm), tens(torch, im))
            results[spelling] = float(v)
        except Exception as e:
            results[spelling] = f"{type(e).__name__}: {str(e)[:80]}"
    nonid = kind == "dense" and any(mass[i][j] != 0 for i in range(n) for j in range(n) if i != j)
    ck.case(("hamiltonian", kind, n, tuple(q), tuple(pm), json.dumps(mass)),
            {"via": "Hamiltonian(joint)(momentum=, mass_matrix= | inverse_mass_matrix=)", "mass": mass, "values": results,
             "exact": float(want)}, nontrivial=True,
            bucket="exact/hamiltonian/" + kind + ("/off-diagonal" if nonid else ""))
    badsp = [k for k, v in results.items() if not isinstance(v, float) or fr(v) != want]
    if badsp:
        ck.mismatch("Hamiltonian energy differs from U + p.M^-1 p / 2 in spelling(s) " + ", ".join(badsp),
                    {"case": case, "momentum": pm, "values": results, "exact": float(want)})
        found.append(("hamiltonian:energy-spelling",
                      {"oracle": "Hamiltonian model vs U(q) + 1/2 p.M^-1 p (exact) for the metric given as " + ", ".join(badsp),
                       "error": json.dumps({"values": results, "exact": float(want)})},
                      {"hamiltonian": {"case": case, "momentum": pm}}))


def run(ck: Check):
    ck.rule = (
        "one case = one call of the REAL LeapfrogIntegrator.__call__ or HMCOperator.step() on a concrete "
        "(target, step size, steps, inverse mass matrix, q, p[, scripted momentum draws]) compared with the Lean "
        "model; distinct = distinct (path, kind, dimension, steps, eps, q, p); non-trivial = the position moved "
        "(integrator) / the returned Hastings term is finite and non-zero (operator)"
    )
    ck.assumptions += [
        "theorems are over exact fields / the reals; float64 round-off is covered by the bit-exact dyadic "
        "correspondence (no rounding occurs there) and by 1e-10 agreement on general targets",
        "the gradient delivered by autograd is taken as an arbitrary function of the position (its being the "
        "derivative of the density is C12)",
        "energy error O(eps^2) for non-quadratic targets: exploration only (step halving on the implementation)",
    ]
    ck.trusted += ["torch autograd, torch.inverse, torch.distributions.Normal/MultivariateNormal constructors "
                   "(modelled, not verified)"]
    ok, broken = ck.lean_side({}, ["TTProofs.Props.C16", "drv_c16"], "TTProofs/Props/C16.lean")
    drv = None
    try:
        drv = ck.driver("drv_c16")
    except Exception as e:
        ck.notes.append(f"driver unavailable: {e}")
    rng = ck.rng
    fails, gviol, found = [], [], []
    thorough = ck.thorough()
    n_exact = 1500 if thorough else 300
    n_op = 800 if thorough else 150
    n_gen = 500 if thorough else 60
    n_search = 150 if thorough else 20
    n_hist = 400 if thorough else 80
    ran = []
    try:
        corpus = sorted((VERIF / "corpus" / "C16").glob("*.json")) if (VERIF / "corpus" / "C16").exists() else []
        if drv:
            for f in corpus:
                c = json.loads(f.read_text()).get("linear")
                if c:
                    exact_case(ck, drv, c, fails)
                    ran.append(c)
            for i in range(n_exact):
                case = gen_case(rng, ["long", "mid", "fine"][i % 3])
                if exact_case(ck, drv, case, fails):
                    ran.append(case)
            for i in range(n_op):
                operator_case(ck, drv, rng, fails, with_nan=(i % 3 == 2))
            for i in range(60 if not thorough else 300):
                energy_formula_case(ck, rng)
            for i in range(25 if not thorough else 120):
                dtype_regime_case(ck, drv, rng, found)
            for i in range(60 if not thorough else 300):
                hamiltonian_case(ck, rng, found)
            try:
                import c15_routes

                c15_routes.integrator_routes(ck, rng, found_routes := [])
                for sig, obs, inp, _i in found_routes:
                    found.append((sig, {"oracle": obs["clause"], "error": str(obs)[:300]}, inp))
            except Exception as e:
                ck.mismatch("integrator route cases stopped", {"error": f"{type(e).__name__}: {e}"})
            for i in range(n_hist):
                history_case(ck, drv, rng, fails, found)
                op_history_case(ck, drv, rng, fails, found)
            for i in range(n_gen):
                general_case(ck, drv, rng, gviol)
    finally:
        if drv:
            drv.close()
    # ---- failing-input search: the property's own clauses on the implementation (cheap: always)
    pick = (fails + ran)[: (60 if thorough else 25)]
    search_exact(ck, [c for c in pick if "momenta" not in c or True], found)
    search_general(ck, rng, n_search, found)
    for c in fails:
        if c.get("oracle") == "hastings":
            found.append(("hmc:hastings-not-kinetic",
                          {"oracle": "returned value vs K(p0)-K(pL) from observed momenta"}, {"operator": c}))
    ck.extra["search"] = {"linear_stub_cases": len(pick), "general_targets": n_search,
                          "oracles": ["reversal", "jacobian determinant", "step halving", "hastings = K0-K1"]}
    if found:
        found.sort(key=lambda t: (t[0], len(json.dumps(t[2], default=str))))
        seen = set()
        for sig, f, inp in found:
            if sig in seen:
                continue
            seen.add(sig)
            ck.violation(sig, f"{f.get('oracle')} fails on the implementation: "
                              f"{ {k: v for k, v in f.items() if k in ('err', 'det', 'errors', 'error')} }",
                         {"input": inp, "observed": f, "broken_obligations": broken,
                          "replay_cmd": "./check C16 --replay <this file>"})
    elif not ok or ck.mismatches:
        ck.violation("leapfrog:unproved",
                     "C16 theorems or the model/implementation correspondence no longer check",
                     {"broken_obligations": broken, "mismatches": ck.mismatches[:5]}, found_input=False)


def replay(path: str) -> int:
    obj = json.loads(Path(path).read_text())
    inp = obj.get("input")
    if not inp:
        print("replay names broken obligations only:", obj.get("broken_obligations"),
              [m.get("what") for m in obj.get("mismatches", [])])
        return 1
    sig = obj.get("signature", "")
    bad = None
    if "linear" in inp:
        case = inp["linear"]
        run_ = lambda q, p: impl_integrate(case, q=q, p=p)
        if sig.endswith("jacobian"):
            bad = oracle_jacobian(run_, case["q"], case["p"], 1.0, 1e-9, exact=True)
        elif sig.endswith("parameter-layout"):
            a_, b_ = impl_integrate(case), impl_integrate(dict(case, ids="distinct"))
            print("ids", param_ids(case.get("ids", "distinct"), len(case["sizes"])), "->", a_, "| distinct ids ->", b_)
            bad = None if a_ == b_ else {"named": a_, "distinct": b_}
        else:
            bad = oracle_reversal(run_, case["q"], case["p"], 1e-9)
    elif "general" in inp:
        spec = inp["general"]

        def run_(q, p):
            r = general_run(spec, q=q, p=p)
            return r if r[0] == "EXC" else (r[0], r[1])

        q0, p0 = spec["x"] + spec["z"], spec["p"]
        if sig.endswith("jacobian"):
            bad = oracle_jacobian(run_, q0, p0, 1e-5, 1e-5, exact=False)
        elif sig.endswith("energy-order"):
            T, L = obj["observed"]["T"], 4
            errs = []
            for h in range(3):
                r = general_run(spec, steps=L * 2 ** h, eps=T / (L * 2 ** h))
                errs.append(abs(r[4] - r[3]))
            print("energy errors at eps, eps/2, eps/4:", errs)
            bad = {"errors": errs} if not second_order(errs) else None
        else:
            bad = oracle_reversal(run_, q0, p0, 1e-8)
    elif "hamiltonian" in inp:
        torch = _torch()
        from torchtree.inference.hmc.hamiltonian import Hamiltonian

        c, pm = inp["hamiltonian"]["case"], inp["hamiltonian"]["momentum"]
        vals = {}
        for sp, arg in (("mass_matrix", c["mass"]), ("inverse_mass_matrix", c["im"])):
            params = make_params(torch, c)
            ham = Hamiltonian(None, make_stub(torch)(params, tens(torch, c["G"]), tens(torch, c["b"])))
            vals[sp] = float(ham(momentum=tens(torch, pm), **{sp: tens(torch, arg)}))
        print("H with mass_matrix= :", vals["mass_matrix"], "  H with inverse_mass_matrix= :", vals["inverse_mass_matrix"])
        bad = None if vals["mass_matrix"] == vals["inverse_mass_matrix"] else vals
    elif "history" in inp:
        h = inp["history"]
        for k, seg in enumerate(run_history(h["base"], h["segments"])):
            same = seg["out"] == seg["fresh"]
            print(f"trajectory {k + 1}: c={seg['c']} start={seg['start_q']} reused-> {seg['out']}  fresh-> {seg['fresh']}",
                  "" if same else "  <-- DIFFER")
            if not same:
                bad = {"segment": k + 1}
    elif "op_history" in inp:
        h = inp["op_history"]
        for k, (sg, seg) in enumerate(zip(h["segments"], run_op_history(h["base"], h["segments"]))):
            r, f_ = seg["res"], seg["fresh"]
            print(f"step {k + 1}: c={sg['c']} start={seg['start_q']} reused-> {r if not isinstance(r, dict) else (r['q'], r['hr'], r['used'])}"
                  f"  fresh-> {f_ if not isinstance(f_, dict) else (f_['q'], f_['hr'], f_['used'])}")
            if isinstance(r, dict) and not math.isinf(r["hr"]) and r["returned"]:
                want = kin_exact(h["base"]["im"], sg["momenta"][r["used"] - 1]) - kin_exact(h["base"]["im"], r["returned"][-1])
                print("   K(p_used)-K(p_end) =", float(want), " returned =", r["hr"])
                if fr(r["hr"]) != want:
                    bad = {"segment": k + 1, "hr": r["hr"]}
            if isinstance(r, dict) != isinstance(f_, dict) or (isinstance(r, dict) and (r["q"] != f_["q"] or (r["hr"] != f_["hr"] and not (math.isinf(r["hr"]) and math.isinf(f_["hr"]))))):
                bad = bad or {"segment": k + 1, "history-dependence": True}
    elif "general_history" in inp:
        g = inp["general_history"]
        gh = general_history(g["spec"], g["new_loc"])
        print(gh)
        if gh[0] != "EXC":
            (rq, rp), (fq, fp) = gh
            bad = None if all(close(a, b, 1e-12) for a, b in zip(rq + rp, fq + fp)) else {"reused": [rq, rp], "fresh": [fq, fp]}
    elif "operator" in inp:
        c = inp["operator"]
        res = impl_operator(c, c["momenta"], c.get("thr"))
        print("HMCOperator.step ->", res)
        if isinstance(res, dict) and res["returned"] and not math.isinf(res["hr"]):
            p0 = c["momenta"][len(res["draws"]) - 1]
            want = kin_exact(res["im"], p0) - kin_exact(res["im"], res["returned"][-1])
            print("K(p0)-K(pL) =", float(want), " returned =", res["hr"])
            bad = {"hr": res["hr"]} if fr(res["hr"]) != want else None
    print("observed:", bad)
    print("VIOLATES" if bad else "ok")
    return 1 if bad else 0
