"""Every parameter argument of the C04/C05 models supplied as every AbstractParameter subclass.

make(kind, name, t)            -> the Python object whose `.tensor` is exactly `t`
make_json(kind, name, t, ...)  -> the JSON for process_object building the same thing
kinds: plain (Parameter), view (ViewParameter "1:1+w" of a wider shared vector, the spelling torchtree-cli uses for
the SRD06 relative rates), affine (TransformedParameter with AffineTransform(0, 2) of t/2 — exact in binary floating
point), cat (CatParameter of two pieces along the last dimension).
"""
from __future__ import annotations

KINDS = ("plain", "view", "affine", "cat")


def _junk(t, value):
    import torch

    return torch.full(t.shape[:-1] + (1,), value, dtype=t.dtype)


def make(kind, name, t):
    import torch
    from torchtree.core.parameter import CatParameter, Parameter, TransformedParameter, ViewParameter

    if kind == "plain" or not t.is_floating_point():
        return Parameter(name, t)
    w = t.shape[-1]
    if kind == "view":
        shared = Parameter(name + ".shared", torch.cat((_junk(t, 7.25), t, _junk(t, 0.375)), -1))
        return ViewParameter(name, shared, slice(1, 1 + w))
    if kind == "affine":
        x = Parameter(name + ".x", t / 2)
        return TransformedParameter(name, x, torch.distributions.AffineTransform(0.0, 2.0))
    if kind == "cat":
        h = w // 2
        parts = [Parameter(name + ".a", t[..., :h].clone()), Parameter(name + ".b", t[..., h:].clone())] if h else \
            [Parameter(name + ".a", t.clone())]
        return CatParameter(name, parts, dim=-1)
    raise ValueError(kind)


def make_json(kind, name, t, dtype_name=None):
    import torch

    def pj(id_, tt):
        d = {"id": id_, "type": "Parameter", "tensor": tt.tolist()}
        if dtype_name:
            d["dtype"] = dtype_name
        return d

    if kind == "plain" or not t.is_floating_point():
        return pj(name, t)
    w = t.shape[-1]
    if kind == "view":
        shared = torch.cat((_junk(t, 7.25), t, _junk(t, 0.375)), -1)
        return {"id": name, "type": "ViewParameter", "parameter": pj(name + ".shared", shared), "indices": f"1:{1 + w}"}
    if kind == "affine":
        return {"id": name, "type": "TransformedParameter", "transform": "torch.distributions.AffineTransform",
                "x": pj(name + ".x", t / 2), "parameters": {"loc": 0.0, "scale": 2.0}}
    if kind == "cat":
        h = w // 2
        parts = [pj(name + ".a", t[..., :h]), pj(name + ".b", t[..., h:])] if h else [pj(name + ".a", t)]
        return {"id": name, "type": "CatParameter", "parameters": parts, "dim": -1}
    raise ValueError(kind)
