"""C09 oracles evaluated on the implementation (no Lean involved).

* const_logdensity : constant-rate birth–death-sampling density written independently of bdsk.py, in the form of
  Stadler (2010, J. Theor. Biol. 267) Thm 3.5 / Cor. 3.7 with c1, c2, q(t), p0(t) in BACKWARD time (ages), sampled
  lineages removed (r = 1); mpmath, 40 digits.
* refine           : split one epoch of a skyline parameter set into two sub-epochs with identical rates and no
  rho-sampling at the new boundary.
* master_equations : RK4 integration of the birth–death master equations (p0 backwards from the present, one branch
  density per lineage up the tree, jumps at rho-sampling boundaries) — exploration only (labelled *partial*).
"""
from __future__ import annotations

import math

import mpmath as mp

mp.mp.dps = 40


# ------------------------------------------------------------------ constant-rate density (Stadler 2010 form)
def const_logdensity(lam, mu, psi, rho, origin, tip_heights, internal_heights, survival, r=None):
    """ages: tip_heights / internal_heights are times before the present; origin = age of the origin.
    Tips of age 0 are rho-sampled when rho > 0, every other tip is psi-sampled (and removed)."""
    lam, mu, psi, rho, T = (mp.mpf(v) for v in (lam, mu, psi, rho, origin))
    c1 = abs(mp.sqrt((lam - mu - psi) ** 2 + 4 * lam * psi))
    c2 = -(lam - mu - 2 * lam * rho - psi) / c1

    def q(t):
        return 2 * (1 - c2 ** 2) + mp.e ** (-c1 * t) * (1 - c2) ** 2 + mp.e ** (c1 * t) * (1 + c2) ** 2

    def p0(t):
        return (lam + mu + psi + c1 * (mp.e ** (-c1 * t) * (1 - c2) - (1 + c2)) / (mp.e ** (-c1 * t) * (1 - c2) + (1 + c2))) / (2 * lam)

    n_rho = sum(1 for h in tip_heights if h == 0 and rho > 0)
    serial = [mp.mpf(h) for h in tip_heights if not (h == 0 and rho > 0)]
    xs = [T] + [mp.mpf(h) for h in internal_heights]
    val = lam ** len(internal_heights) * (psi ** len(serial) if serial else 1) * ((4 * rho) ** n_rho if n_rho else 1)
    for x in xs:
        val /= q(x)
    for y in serial:
        val *= q(y)
        if r is not None:
            # sampled and removed with probability r, otherwise it stays and leaves no further sampled descendant
            val *= mp.mpf(r) + (1 - mp.mpf(r)) * p0(y)
    if r is not None:
        val *= mp.mpf(2) ** len(internal_heights)  # labelled tree, as the code returns it with a removal probability
    if survival:
        val /= 1 - p0(T)
    return mp.log(val)


# ------------------------------------------------------------------ refinement
def refine(par: dict, i: int, frac: float) -> dict:
    """split epoch i of par (keys lam, mu, psi, rho (per epoch), times (m+1 absolute forward times, times[0]=0,
    times[m]=origin), r (or None)) at times[i] + frac*(times[i+1]-times[i])"""
    t = par["times"]
    s = t[i] + frac * (t[i + 1] - t[i])
    out = dict(par)
    for k in ("lam", "mu", "psi"):
        out[k] = par[k][: i + 1] + par[k][i:]
    out["rho"] = par["rho"][:i] + [0.0] + par["rho"][i:]
    if par.get("r") is not None:
        out["r"] = par["r"][: i + 1] + par["r"][i:]
    out["times"] = t[: i + 1] + [s] + t[i + 1:]
    return out


# ------------------------------------------------------------------ master equations, RK4
def master_equations(par: dict, tree, survival: bool, steps_per_unit=4000):
    """tree: nested tuples (height,) for tips, (height, left, right) for internal nodes; heights = ages.
    Forward times in par; age a corresponds to forward time origin - a. Returns the log density of the ORIENTED
    tree (one factor lambda per bifurcation), sampled lineages removed with probability r (1 when r is None)."""
    t = par["times"]
    m = len(t) - 1
    T = t[m]

    def epoch_of_age(a, left_open=False):
        """epoch containing age a (forward time T-a in [t_i, t_{i+1}) ; at a boundary seen from the younger side
        when integrating backwards)"""
        ft = t[on_boundary[a] + 1] if a in on_boundary else T - a
        for i in range(m - 1, -1, -1):
            if ft > t[i] or (ft == t[i] and i == 0):
                return i
            if ft == t[i]:
                return i - 1 if left_open else i
        return 0

    # boundaries as ages, young to old: age of forward time t[i+1] for i = m-1 .. 0 carries rho[i].
    # CONTRACT of the coincidences: a node of age a sits on the boundary t_i when the FORWARD times agree, T - a == t_i (the
    # expression a user computes a shift time with); T - t_i == a is a different statement in floats (T - (T - a) != a for most
    # non-dyadic a). Every node age that coincides with a boundary in forward time is therefore replaced by the canonical age
    # T - t_i of that boundary (a move of at most an ulp), so that the age comparisons below express the forward-time coincidence,
    # also when several bitwise different ages hit the same boundary.
    b_age = [T - t[i + 1] for i in range(m)]
    # … and the other way round: a node whose AGE equals T - t_i in floats although its forward time T - a is an ulp away from t_i
    # is NOT on the boundary; the boundary's age is moved one ulp to the side the forward times say it lies on
    def _ages(node):
        return [node[0]] + ([] if len(node) == 1 else _ages(node[1]) + _ages(node[2]))

    for i in range(m):
        for a in set(_ages(tree)):
            if a == b_age[i] and T - a != t[i + 1]:
                b_age[i] = math.nextafter(b_age[i], -math.inf if T - a < t[i + 1] else math.inf)
    on_boundary = {}  # canonical age -> boundary index

    def snap(node):
        a = node[0]
        for i in range(m):
            if T - a == t[i + 1]:
                a = b_age[i]
                on_boundary[a] = i
                break
        return (a,) if len(node) == 1 else (a, snap(node[1]), snap(node[2]))

    tree = snap(tree)
    bnd = [(b_age[i], par["rho"][i]) for i in range(m - 1, -1, -1)]

    def rates(i):
        return par["lam"][i], par["mu"][i], par["psi"][i]

    def rk4(f, y, h):
        k1 = f(y)
        k2 = f([a + h / 2 * b for a, b in zip(y, k1)])
        k3 = f([a + h / 2 * b for a, b in zip(y, k2)])
        k4 = f([a + h * b for a, b in zip(y, k3)])
        return [a + h / 6 * (b + 2 * c + 2 * d + e) for a, b, c, d, e in zip(y, k1, k2, k3, k4)]

    def integrate(y, a0, a1):
        """state y = [p0, g] from age a0 up to age a1 (a1 >= a0), crossing epoch boundaries; at a boundary older
        than a0 (strictly inside (a0, a1]) with rho: p0 *= (1-rho), g *= (1-rho)"""
        cur = a0
        stops = sorted({b for b, _ in bnd if a0 < b < a1} | {a1})
        for stop in stops:
            if stop > cur:
                i = epoch_of_age((cur + stop) / 2)
                lam, mu, psi = rates(i)

                def f(s):
                    p, g = s
                    return [mu - (lam + mu + psi) * p + lam * p * p, (-(lam + mu + psi) + 2 * lam * p) * g]

                n = max(8, int(math.ceil((stop - cur) * steps_per_unit)))
                h = (stop - cur) / n
                for _ in range(n):
                    y = rk4(f, y, h)
                cur = stop
            if stop < a1 or any(b == stop for b, _ in bnd):
                for b, rho in bnd:
                    if b == stop and stop < a1:
                        y = [y[0] * (1 - rho), y[1] * (1 - rho)]
        return y

    def p0_at(a):
        """p0 at age a (just older than any boundary at a): start from p0 = 1 at age 0- , apply the present-day rho"""
        y = [1.0, 0.0]
        # boundary at age 0 (present)
        for b, rho in bnd:
            if b == 0:
                y[0] *= (1 - rho)
        if a == 0:
            return y[0]
        y = integrate(y, 0.0, a)
        for b, rho in bnd:
            if b == a and a > 0:
                y[0] *= (1 - rho)
        return y[0]

    def p0_young(a):
        """p0 at age a seen from the younger side (the rho event at a, if any, not applied yet)"""
        if a == 0:
            return 1.0
        y = [1.0, 0.0]
        for b, rho in bnd:
            if b == 0:
                y[0] *= (1 - rho)
        return integrate(y, 0.0, a)[0]

    def up(node, to_age):
        """branch density of the lineage above `node`, carried up to age `to_age`; returns log g"""
        a = node[0]
        if len(node) == 1:
            at_boundary = [rho for b, rho in bnd if b == a]
            if at_boundary and at_boundary[0] > 0:
                # rho-sampled at the end of forward epoch j: removed with probability r_j, otherwise it stays and
                # must have no sampled descendant afterwards (p0 on the younger side of the boundary)
                j = next(k for k in range(m) if b_age[k] == a)
                r = 1.0 if par.get("r") is None else par["r"][j]
                g0 = at_boundary[0] * (r + (1 - r) * p0_young(a))
            else:
                i = epoch_of_age(a, left_open=True) if at_boundary else epoch_of_age(a)
                psi = par["psi"][min(max(i, 0), m - 1)]
                r = 1.0 if par.get("r") is None else par["r"][min(max(i, 0), m - 1)]
                g0 = psi * (r + (1 - r) * p0_at(a))
            logg = math.log(g0)
        else:
            i = epoch_of_age(a)
            lam = par["lam"][i]
            logg = math.log(lam) + up(node[1], a) + up(node[2], a)
            # an internal node sitting exactly on a rho boundary: the merged lineage was not sampled there
            for b, rho in bnd:
                if b == a and rho > 0:
                    logg += math.log(1 - rho)
        if to_age > a:
            p_here = p0_at(a)
            y = integrate([p_here, 1.0], a, to_age)
            # integrate() applies (1-rho) to g at boundaries strictly inside; a boundary exactly at to_age is applied
            # by the parent (internal node) or by the caller (origin)
            logg += math.log(y[1])
        return logg

    logg = up(tree, T)
    if survival:
        logg -= math.log(1 - p0_at(T))
    return logg
