#!/usr/bin/env python3-vt
"""validate MANIFEST.json and every evidence/*.json against the schemas in /root/.vp"""
import json, sys, jsonschema
from pathlib import Path
V = Path(__file__).resolve().parent.parent
ok = True
jsonschema.validate(json.loads((V/"MANIFEST.json").read_text()), json.loads(Path("/root/.vp/MANIFEST.schema.json").read_text()))
es = json.loads(Path("/root/.vp/EVIDENCE.schema.json").read_text())
for f in sorted((V/"evidence").glob("*.json")):
    try:
        ev = json.loads(f.read_text()); jsonschema.validate(ev, es)
        c = ev["coverage"]
        if ev["level"] == "proof" and c.get("obligations") != c.get("discharged"):
            print("WARN", f.name, "obligations != discharged"); 
        print("ok  ", f.name, ev["tier"], "obl=%s/%s" % (c.get("discharged"), c.get("obligations")), "eval=%s distinct=%s" % (c.get("evaluations"), c.get("distinct_nontrivial")), "viol=%s" % ev.get("violations"), "%.0fs" % ev["wall_s"])
    except Exception as e:
        ok = False; print("BAD ", f.name, str(e)[:300])
sys.exit(0 if ok else 1)
