#!/usr/bin/env python3
"""Regenerate the generated tail of DESIGN.md (sections 12-14 and Appendix C) from
design.d/*.md, KNOWN_FINDINGS.txt, seeded/NOTES.md, seeded/*/result.json and evidence/*.json.
Everything above the marker line is hand-written and left untouched."""
import json, re
from pathlib import Path

V = Path(__file__).resolve().parent.parent
MARK = "<!-- GENERATED BELOW: tools/mkdesign.py -->"
d = (V / "DESIGN.md").read_text()
head = d.split(MARK)[0].rstrip() + "\n\n" + MARK + "\n\n"

props = [json.loads(l) for l in (V / "properties.jsonl").read_text().splitlines() if l.strip()]
man = json.loads((V / "MANIFEST.json").read_text())
checks = {c["property_id"]: c for c in man["checks"]}

out = []
out.append("## 12. As built: per-property summary\n")
out.append("Counts are from the evidence files committed with this revision (quick tier on the unchanged tree); "
           "`obl.` = proof obligations (audited theorems + source-token grep), all discharged. Details, theorem lists, "
           "partial clauses, false alarms corrected and hand-made mutations are in Appendix C (one section per property, "
           "also kept as `design.d/Cxx.md`).\n")
out.append("| id | title | obl. | cases (distinct) | wall | technique |")
out.append("|---|---|---|---|---|---|")
for p in props:
    pid = p["id"]
    ev = V / "evidence" / f"{pid}.json"
    e = json.loads(ev.read_text()) if ev.exists() else None
    c = checks.get(pid, {})
    if e:
        cov = e["coverage"]
        out.append(f"| {pid} | {p['title'][:60]} | {cov.get('discharged')}/{cov.get('obligations')} | "
                   f"{cov.get('evaluations')} ({cov.get('distinct_nontrivial')}) | {e['wall_s']:.0f} s | {c.get('technique','')[:150]} |")
out.append("")

out.append("## 13. Defects found by the machinery (dispositions)\n")
out.append("From `KNOWN_FINDINGS.txt` (the file the checks read). `fixed:` entries are `fix:` commits in `/repo` "
           "(each applied alone, baseline 144 tests re-run, message starts with `fix:`); they suppress nothing. "
           "`known:` entries are genuine defects recorded rather than repaired; the check prints KNOWN-FINDING for "
           "exactly that signature and still reports any other violation.\n")
fixed, known = [], []
for line in (V / "KNOWN_FINDINGS.txt").read_text().splitlines():
    m = re.match(r"fixed:\s+property=(C\d+)\s+(\S+)\s+(.*)", line)
    if m:
        fixed.append(m.groups())
    m = re.match(r"known:\s+property=(C\d+)\s+sig=(\S+)\s+(.*)", line)
    if m:
        known.append(m.groups())
out.append(f"### 13.1 Repaired ({len(fixed)})\n")
out.append("| property | commit | what failed |")
out.append("|---|---|---|")
for pid, c, w in fixed:
    out.append(f"| {pid} | `{c}` | {w.replace('|', '/')} |")
out.append(f"\n### 13.2 Recorded as known findings ({len(known)})\n")
out.append("| property | signature | what fails |")
out.append("|---|---|---|")
for pid, s, w in known:
    out.append(f"| {pid} | `{s.replace('|', '¦')}` | {w.replace('|', '/')} |")
out.append("")

out.append("## 14. Independently seeded changes: which checks catch which\n")
out.append("Each seeded change was written by a fresh sub-agent that was given only the property text and a scratch "
           "worktree of the repository (nothing from `/verif`), asked for a change that breaks the property while "
           "compiling and passing the 144 tests and that needs something specific to manifest. The lead confirmed each "
           "(patch applies; demo exits 0 without / non-zero with the change; full suite passes with it) and ran the "
           "property's check with `TT_REPO` pointing at the patched worktree (`tools/seedtest.py`, results in "
           "`seeded/<id>/result.json`). The log below records the FIRST measurement and, where the check missed or found "
           "no input, what was strengthened and the re-measurement.\n")
notes = (V / "seeded" / "NOTES.md")
if notes.exists():
    txt = notes.read_text()
    txt = re.sub(r"^# .*\n", "", txt, count=1)
    txt = re.sub(r"^## ", "### ", txt, flags=re.M)
    out.append(txt.strip() + "\n")
# current status from result.json
rows = []
for r in sorted((V / "seeded").glob("*/result.json")):
    j = json.loads(r.read_text())
    meta = json.loads((r.parent / "meta.json").read_text()) if (r.parent / "meta.json").exists() else {}
    for pid, c in j.get("checks", {}).items():
        viol = [l for l in c.get("lines", []) if l.startswith("VIOLATION")]
        kind = ("failing input" if any("no-failing-input-found" not in l for l in viol) else
                ("no-failing-input-found" if viol else "NOT DETECTED"))
        if r.parent.name[-1] in "mnqr" and len(r.parent.name) == 5:  # rounds 7 and 9: behaviour-preserving refactors
            kind = {"NOT DETECTED": "exit 0 (refactor: the intended outcome)",
                    "no-failing-input-found": "no-failing-input-found (refactor)",
                    "failing input": "FALSE ALARM (refactor reported with an input)"}[kind]
        rows.append(f"| {r.parent.name} | {pid} | {kind} | {c.get('wall_s')} s | {str(meta.get('summary', ''))[:160].replace('|', '/')} |")
out.append("### 14.1 Latest recorded run per seed\n")
out.append("Suffixes m, n, q, r are the behaviour-preserving refactors of rounds 7 and 9 (intended outcome: exit 0); "
           "all other suffixes are regressions (intended outcome: a failing input). A seed whose patch no longer "
           "applies to the repaired /repo keeps its last recorded run.\n")
out.append("| seed | check | outcome | wall | what the seeded change does |")
out.append("|---|---|---|---|---|")
out += rows
out.append("")

out.append("## Appendix C. Per-property build notes (from `design.d/`)\n")
for p in props:
    f = V / "design.d" / f"{p['id']}.md"
    if f.exists():
        t = f.read_text().strip()
        t = re.sub(r"^# ", "### ", t, flags=re.M)
        t = re.sub(r"^## ", "#### ", t, flags=re.M)
        out.append(t + "\n")
(V / "DESIGN.md").write_text(head + "\n".join(out) + "\n")
print("DESIGN.md regenerated:", len((head + "\n".join(out)).splitlines()), "lines")
