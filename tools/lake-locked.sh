#!/bin/bash
# run `lake <args>` in /verif/lean holding the same lock ./check uses (serialises builders)
D="$(cd "$(dirname "$0")/.." && pwd)"
mkdir -p "$D/.locks"
cd "$D/lean" && exec flock "$D/.locks/lake.lock" lake "$@"
