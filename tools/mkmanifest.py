#!/usr/bin/env python3-vt
"""Assemble /verif/MANIFEST.json from manifest.d/Cxx.json fragments (one per claimed property)
and manifest.d/_not_applicable.json. Run after editing a fragment."""
import json, sys
from pathlib import Path
V = Path(__file__).resolve().parent.parent
props = [json.loads(l)["id"] for l in (V / "properties.jsonl").read_text().splitlines() if l.strip()]
checks, claimed = [], set()
for pid in props:
    f = V / "manifest.d" / f"{pid}.json"
    if f.exists():
        c = json.loads(f.read_text())
        c.setdefault("property_id", pid)
        c.setdefault("quick_cmd", f"./check {pid} --tier quick")
        c.setdefault("thorough_cmd", f"./check {pid} --tier thorough")
        c.setdefault("evidence_file", f"evidence/{pid}.json")
        c.setdefault("replay_cmd_template", f"./check {pid} --replay {{path}}")
        c.setdefault("engine", "lean4-proof+correspondence")
        checks.append(c); claimed.add(pid)
na_file = V / "manifest.d" / "_not_applicable.json"
na = json.loads(na_file.read_text()) if na_file.exists() else {}
not_app = []
for pid in props:
    if pid not in claimed:
        not_app.append({"property_id": pid, "reason": na.get(pid, "not yet built: no check is claimed for this property in this revision")})
hooks_file = V / "manifest.d" / "_hooks.json"
hooks = json.loads(hooks_file.read_text())
m = {
    "version": 1,
    "setup_cmd": "cd lean && lake build",
    "hooks": hooks,
    "engines": [{
        "name": "lean4-proof+correspondence",
        "path": "check",
        "serves_properties": sorted(claimed),
        "kind_free_text": "Lean 4 theorems about executable models (lean/TTModel, lean/TTGen regenerated from /repo by "
                          "harness/translators) + differential correspondence of the compiled model drivers against the "
                          "real torchtree code (harness/cXX.py); failing-input search on the implementation when either breaks",
    }],
    "checks": checks,
    "notes": "See DESIGN.md. KNOWN_FINDINGS.txt lists repaired (fixed:) and recorded (known:) defects.",
    "not_applicable": not_app,
}
(V / "MANIFEST.json").write_text(json.dumps(m, indent=1) + "\n")
try:
    import jsonschema
    jsonschema.validate(m, json.loads(Path("/root/.vp/MANIFEST.schema.json").read_text()))
    print("MANIFEST.json valid;", len(checks), "claimed,", len(not_app), "not claimed")
except ImportError:
    print("MANIFEST.json written (jsonschema not available to validate)")
