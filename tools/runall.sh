#!/bin/bash
# run every claimed check's quick (or $1) tier against /repo; one summary line each
cd "$(dirname "$0")/.."
tier=${1:-quick}
for p in $(python3 -c "import json;print(' '.join(c['property_id'] for c in json.load(open('MANIFEST.json'))['checks']))"); do
  s=$(date +%s)
  out=$(timeout 3000 ./check $p --tier $tier 2>&1); rc=$?
  e=$(( $(date +%s) - s ))
  echo "$p rc=$rc ${e}s | $(echo "$out" | grep -E "^$p tier" | cut -c1-160)"
  echo "$out" | grep -E "^(VIOLATION|INFRA|#)" | cut -c1-300 | head -6
done
