#!/bin/bash
# lead only: apply fixes/<stem>.diff to /repo, run the 144-test baseline, commit with fixes/<stem>.msg
# usage: tools/applyfix.sh F01-slug
set -e
V="$(cd "$(dirname "$0")/.." && pwd)"
stem="$1"
[ -f "$V/fixes/$stem.diff" ] || { echo "no $V/fixes/$stem.diff"; exit 2; }
cd /repo
[ -z "$(git status --porcelain)" ] || { echo "/repo not clean"; git status --short; exit 2; }
git apply --check "$V/fixes/$stem.diff"
git apply "$V/fixes/$stem.diff"
out=$(/venv/bin/python -m pytest -q -p no:cacheprovider --timeout=900 --continue-on-collection-errors 2>&1 | tail -3)
echo "$out"
if echo "$out" | grep -q "144 passed" && ! echo "$out" | grep -q "failed"; then
  git add -A
  git commit -q -F "$V/fixes/$stem.msg"
  echo "COMMITTED $(git rev-parse --short HEAD) $(head -1 $V/fixes/$stem.msg)"
else
  echo "BASELINE FAILED - reverting"; git checkout -- .; git clean -fdq; exit 1
fi
