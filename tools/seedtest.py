#!/venv/bin/python
"""Run a seeded change against the checks.

  tools/seedtest.py <dir-with-patch.diff-demo.py-meta.json> [--confirm] [--props C01,C02] [--tier quick]

Creates a scratch worktree of /repo HEAD under /tmp/st/, applies patch.diff there, and
  --confirm : runs demo.py without / with the change and the full baseline suite with the change
  always    : runs ./check <prop> with TT_REPO pointing at the patched worktree for the property named in
              meta.json (or --props) and reports whether a VIOLATION was raised.
The worktree is removed afterwards. Result is written to <dir>/result.json.
"""
import json, os, subprocess, sys, time, shutil
from pathlib import Path

V = Path(__file__).resolve().parent.parent


def sh(cmd, cwd=None, env=None, timeout=3600):
    r = subprocess.run(cmd, shell=True, cwd=cwd, env=env, capture_output=True, text=True, timeout=timeout)
    return r.returncode, (r.stdout + r.stderr)


def main():
    args = sys.argv[1:]
    d = Path(args[0]).resolve()
    confirm = "--confirm" in args
    tier = args[args.index("--tier") + 1] if "--tier" in args else "quick"
    meta = json.loads((d / "meta.json").read_text())
    props = args[args.index("--props") + 1].split(",") if "--props" in args else [meta["property"]]
    name = d.parent.name + "_" + d.name if d.parent.name != "seeded" else d.name
    wt = Path("/tmp/st") / name
    wt.parent.mkdir(exist_ok=True)
    sh(f"git -C /repo worktree remove --force {wt}")
    rc, out = sh(f"git -C /repo worktree add --detach {wt} {os.environ.get('SEEDBASE', 'HEAD')}")
    assert rc == 0, out
    res = {"name": name, "at_repo_commit": sh("git -C /repo rev-parse --short HEAD")[1].strip(), "time": time.strftime("%F %T")}
    try:
        env = dict(os.environ, PYTHONPATH=str(wt), OMP_NUM_THREADS="2")
        if confirm:
            rc0, o0 = sh(f"/venv/bin/python {d/'demo.py'}", cwd=wt, env=env)
            res["demo_unchanged_exit"] = rc0
        rc, out = sh(f"git apply {d/'patch.diff'}", cwd=wt)
        res["patch_applies"] = rc == 0
        if rc != 0:
            res["apply_error"] = out[-500:]
        else:
            if confirm:
                rc1, o1 = sh(f"/venv/bin/python {d/'demo.py'}", cwd=wt, env=env)
                res["demo_changed_exit"] = rc1
                res["demo_changed_tail"] = o1[-400:]
                rct, ot = sh("/venv/bin/python -m pytest -q -p no:cacheprovider --timeout=900 --continue-on-collection-errors 2>&1 | tail -3", cwd=wt, env=dict(os.environ, OMP_NUM_THREADS="2"))
                res["suite_tail"] = ot.strip()[-300:]
                res["suite_all_passed"] = (" passed" in ot) and ("failed" not in ot) and ("error" not in ot.lower().replace("continue-on-collection-errors", ""))
            res["checks"] = {}
            for p in props:
                t0 = time.time()
                # generated Lean files of this property are rewritten from the patched tree: restore afterwards
                gen = {f: f.read_text() for f in (V / "lean" / "TTGen").glob(p + "*.lean")}
                if (V / "evidence" / f"{p}.json").exists():
                    gen[V / "evidence" / f"{p}.json"] = (V / "evidence" / f"{p}.json").read_text()
                rcc, oc = sh(f"./check {p} --tier {tier}", cwd=V, env=dict(os.environ, TT_REPO=str(wt)))
                alll = [l for l in oc.splitlines() if l.startswith(("VIOLATION", "KNOWN-FINDING", "#", p + " tier", "INFRA"))]
                lines = [l[:500] for l in alll if not l.startswith("KNOWN-FINDING")] + [f"({sum(l.startswith('KNOWN-FINDING') for l in alll)} KNOWN-FINDING lines)"]
                res["checks"][p] = {"exit": rcc, "detected": rcc == 1 and any(l.startswith("VIOLATION") for l in lines),
                                    "lines": lines[:12], "wall_s": round(time.time() - t0, 1)}
                for f, txt in gen.items():
                    if f.read_text() != txt:
                        f.write_text(txt)
    finally:
        sh(f"git -C /repo worktree remove --force {wt}")
        shutil.rmtree(wt, ignore_errors=True)
    (d / "result.json").write_text(json.dumps(res, indent=1) + "\n")
    print(json.dumps(res, indent=1))


if __name__ == "__main__":
    main()
