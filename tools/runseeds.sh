#!/bin/bash
cd /verif
for x in "$@"; do n=$(echo $x | tr '/' '_'); rm -rf seeded/$n; cp -r ${SEEDSRC:-/root/seed_backup}/$x seeded/$n; tools/seedtest.py seeded/$n --confirm > /tmp/st_$n.log 2>&1; /venv/bin/python - <<PY
import json
r=json.load(open('seeded/$n/result.json'))
print('$n', 'applies',r.get('patch_applies'),'demo0',r.get('demo_unchanged_exit'),'demo1',r.get('demo_changed_exit'),'suite',r.get('suite_all_passed'))
for k,v in r.get('checks',{}).items():
    print('   ',k,'detected',v['detected'],'exit',v['exit'],v['wall_s'])
    for l in v['lines'][:4]: print('      ',l[:260])
PY
done
