import TTModel.Scalar
import TTModel.C01_Tree
/-!
# C01 — Felsenstein pruning as written in `tree_likelihood.py` (core Lean only)

`calculate_treelikelihood_discrete(partials, weights, post_indexing, mats, freqs, props)`:

```
for node, left, right in post_indexing:
    partials[node] = (mats[..., left, :, :, :] @ partials[left]) * (mats[..., right, :, :, :] @ partials[right])
return sum(log(freqs @ sum(props * partials[post_indexing[-1][0]], -3)) * weights, -1)
```

`partials` is a Python list addressed by node index: tips `0..n-1` hold `[S,N]` tensors,
internal slots hold `None` until the loop assigns them (`Store`, reading `None` = `none`).
Sites `N` are a pure batch dimension, so the model is written for one site; the rate-category
dimension `K` is carried in the stored value (`[K,S]` per site; tips broadcast over `K`).
`mats[b][k]` is the `S×S` matrix of the branch above node `b` in category `k`; `M @ v` sums
over the *second* matrix index.

Generic in the scalar: proved about over any commutative semiring, executed at `Rat`/`Float`.
-/
namespace TT.C01

variable {α : Type} [Add α] [Mul α] [Zero α] [One α]

/-- a function on `Fin S` tabulated into an array (evaluated once, when the table is built; the
    compiled driver relies on this for sharing). `(Tab.ofFn f).get = f` (`Tab.get_ofFn`). -/
structure Tab (β : Type) (S : Nat) where
  arr : Array β
  size_eq : arr.size = S

def Tab.ofFn {β : Type} {S : Nat} (f : Fin S → β) : Tab β S := ⟨Array.ofFn f, Array.size_ofFn⟩

def Tab.get {β : Type} {S : Nat} (t : Tab β S) (i : Fin S) : β :=
  t.arr[i.val]'(by rw [t.size_eq]; exact i.isLt)

theorem Tab.get_ofFn {β : Type} {S : Nat} (f : Fin S → β) (i : Fin S) : (Tab.ofFn f).get i = f i := by
  simp [Tab.ofFn, Tab.get]

/-- per-site value stored for one node: `[K,S]` -/
abbrev Partial (α : Type) (K S : Nat) := Fin K → Fin S → α

/-- the Python list `partials`, addressed by node index; `none` = `None` -/
abbrev Store (α : Type) (K S : Nat) := Nat → Option (Partial α K S)

def Store.set {K S} (st : Store α K S) (k : Nat) (v : Partial α K S) : Store α K S :=
  fun j => if j = k then some v else st j

/-- `M @ v`: `(M v)[s] = Σ_j M[s,j] v[j]` -/
def matVec {S} (m : Fin S → Fin S → α) (v : Fin S → α) : Fin S → α :=
  fun s => sumFin fun j => m s j * v j

/-- transition matrices: branch (= index of the node below it) → category → `S×S` -/
abbrev Mats (α : Type) (K S : Nat) := Nat → Fin K → Fin S → Fin S → α

/-- body of the pruning loop for one triple -/
def peelStep {K S} (mats : Mats α K S) (st : Store α K S) (t : Nat × Nat × Nat) :
    Option (Store α K S) :=
  match st t.2.1, st t.2.2 with
  | some pl, some pr =>
    let tab := Tab.ofFn fun k => Tab.ofFn fun s =>
      matVec (mats t.2.1 k) (pl k) s * matVec (mats t.2.2 k) (pr k) s
    some (st.set t.1 fun k s => (tab.get k).get s)
  | _, _ => none

/-- the `for node, left, right in post_indexing` loop -/
def peelLoop {K S} (mats : Mats α K S) : List (Nat × Nat × Nat) → Store α K S → Option (Store α K S)
  | [], st => some st
  | t :: ts, st =>
    match peelStep mats st t with
    | some st' => peelLoop mats ts st'
    | none => none

/-- `partials[post_indexing[-1][0]]` after the loop -/
def rootPartial {K S} (mats : Mats α K S) (post : List (Nat × Nat × Nat)) (st : Store α K S) :
    Option (Partial α K S) :=
  match peelLoop mats post st, post.getLast? with
  | some st', some last => st' last.1
  | _, _ => none

/-- `freqs @ sum(props * partial, -3)` for one site -/
def rootSum {K S} (π : Fin S → α) (props : Fin K → α) (p : Partial α K S) : α :=
  sumFin fun s => π s * sumFin fun k => props k * p k s

/-- initial list: tips `0..n-1` hold their `[S]` vector (broadcast over `K`), the rest `None` -/
def tipStore {K S} (n : Nat) (tip : Nat → Fin S → α) : Store α K S :=
  fun j => if j < n then some (fun _ => tip j) else none

/-- site likelihood computed by `calculate_treelikelihood_discrete` for one site pattern -/
def siteLik {K S} (π : Fin S → α) (props : Fin K → α) (mats : Mats α K S)
    (post : List (Nat × Nat × Nat)) (n : Nat) (tip : Nat → Fin S → α) : Option α :=
  (rootPartial mats post (tipStore n tip)).map (rootSum π props)

/-! ### tip-state variant: `calculate_treelikelihood_tip_states_discrete`

`mat_tips = cat(mats[:tip_count], ones(...,1), -1)` appends an all-ones column `S`;
`p_left = mat_tips[..., left, :, :, partials[left]]` picks column `state` when
`left < tip_count` (`tip_count = len(post_indexing)+1`), otherwise `mats[left] @ partials[left]`.
States reach this function through `clamp(encoding, max=S)`, so they are `≤ S`; the model
returns the appended column for every `state ≥ S`.
-/

/-- column `state` of `[M | 1]` -/
def tipCol {S} (m : Fin S → Fin S → α) (state : Nat) : Fin S → α :=
  fun s => if h : state < S then m s ⟨state, h⟩ else 1

/-- `p_left` / `p_right` -/
def childTerm {K S} (mats : Mats α K S) (tipCount : Nat) (tipState : Nat → Nat)
    (st : Store α K S) (c : Nat) : Option (Partial α K S) :=
  if c < tipCount then some fun k => tipCol (mats c k) (tipState c)
  else match st c with
    | some p => some fun k => matVec (mats c k) (p k)
    | none => none

def peelStepTS {K S} (mats : Mats α K S) (tipCount : Nat) (tipState : Nat → Nat)
    (st : Store α K S) (t : Nat × Nat × Nat) : Option (Store α K S) :=
  match childTerm mats tipCount tipState st t.2.1, childTerm mats tipCount tipState st t.2.2 with
  | some pl, some pr =>
    let tab := Tab.ofFn fun k => Tab.ofFn fun s => pl k s * pr k s
    some (st.set t.1 fun k s => (tab.get k).get s)
  | _, _ => none

def peelLoopTS {K S} (mats : Mats α K S) (tipCount : Nat) (tipState : Nat → Nat) :
    List (Nat × Nat × Nat) → Store α K S → Option (Store α K S)
  | [], st => some st
  | t :: ts, st =>
    match peelStepTS mats tipCount tipState st t with
    | some st' => peelLoopTS mats tipCount tipState ts st'
    | none => none

/-- site likelihood computed by `calculate_treelikelihood_tip_states_discrete`; internal slots
    start as `None`, tip slots hold states (never read through the store) -/
def siteLikTS {K S} (π : Fin S → α) (props : Fin K → α) (mats : Mats α K S)
    (post : List (Nat × Nat × Nat)) (tipState : Nat → Nat) : Option α :=
  match peelLoopTS mats (post.length + 1) tipState post (fun _ => none), post.getLast? with
  | some st', some last => (st' last.1).map (rootSum π props)
  | _, _ => none

/-! ### the specification side: explicit sum over all labelings of the internal nodes -/

/-- one state for every internal node of the tree (tree-shaped record) -/
@[reducible] def Lab (S : Nat) : ITree → Type
  | .leaf _ => Unit
  | .node _ l r => Fin S × Lab S l × Lab S r

/-- every labeling, each exactly once (`TTProps.C01.allLabs_nodup`, `allLabs_complete`,
    `allLabs_length`: there are `S ^ #internal` of them) -/
def allLabs (S : Nat) : (t : ITree) → List (Lab S t)
  | .leaf _ => [()]
  | .node _ l r =>
    (List.finRange S).flatMap fun a =>
      (allLabs S l).flatMap fun x => (allLabs S r).map fun y => ((a, x, y) : Fin S × Lab S l × Lab S r)

/-- product of everything at and below the edge above subtree `c`, given the parent's state `s`:
    an internal child contributes `P_c(s, σ c)` and recursively its own children; a tip contributes
    its compatibility `Σ_j P_c(s, j)·tip_c(j)` -/
def below {S} (tip : Nat → Fin S → α) (mat : Nat → Fin S → Fin S → α) :
    (c : ITree) → Lab S c → Fin S → α
  | .leaf i, _, s => sumFin fun j => mat i s j * tip i j
  | .node i l r, (a, x, y), s => mat i s a * (below tip mat l x a * below tip mat r y a)

/-- weight of one full labeling: root frequency × product over all edges -/
def weight {S} (π : Fin S → α) (tip : Nat → Fin S → α) (mat : Nat → Fin S → Fin S → α) :
    (t : ITree) → Lab S t → α
  | .leaf i, _ => sumFin fun s => π s * tip i s
  | .node _ l r, (a, x, y) => π a * (below tip mat l x a * below tip mat r y a)

/-- the marginal likelihood of one site: sum over rate categories and over ALL labelings -/
def marginal {K S} (π : Fin S → α) (props : Fin K → α) (mats : Mats α K S)
    (tip : Nat → Fin S → α) (t : ITree) : α :=
  sumFin fun k => props k * ((allLabs S t).map (weight π tip (fun b => mats b k) t)).sum

/-- tip vector standing for a tip *state*: indicator of the state, all ones for the missing state -/
def stateVec {S} (state : Nat) : Fin S → α :=
  fun j => if state < S then (if j.val = state then 1 else 0) else 1

/-! ### JC69 in closed form (so that one family of cases runs in Lean with no matrix from torch) -/

/-- `JC69.p_t`: `a = 1/4 + 3/4·e^{-4d/3}` on the diagonal, `b = 1/4 − 1/4·e^{-4d/3}` elsewhere -/
def jc69P [Sub α] [Div α] [Neg α] [Trans α] (ofNat : Nat → α) (d : α) : Fin 4 → Fin 4 → α :=
  let e := Trans.exp (-(ofNat 4) / ofNat 3 * d)
  let a := ofNat 1 / ofNat 4 + ofNat 3 / ofNat 4 * e
  let b := ofNat 1 / ofNat 4 - ofNat 1 / ofNat 4 * e
  fun s j => if s = j then a else b

/-! ### reported log-likelihood: `Σ_p w_p · log(siteLik p)` -/

def logLik [Trans α] (liks : List α) (weights : List α) : α :=
  (List.zipWith (fun l w => Trans.log l * w) liks weights).sum

end TT.C01
