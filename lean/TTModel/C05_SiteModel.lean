import TTModel.Scalar
/-!
# C05 — among-site rate models (`torchtree/evolution/site_model.py`), as written

One polymorphic, executable model (core Lean only).  A site model yields `n` categories with
`probs` and `rates`.  Mirrors:

* `ConstantSiteModel`: one category, probability `ones_like(rate)`, rate `mu` or `1`.
* `InvariantSiteModel.update_rates_probs`: `probs = cat(p, 1 - p)`,
  `rates = cat(0, 1 / (1 - p))`, then `rates *= mu` when `mu` is given.
* `UnivariateDiscretizedSiteModel.update_rates` (`K = categories` as passed to the constructor):
  `quantile_i = (2 i + 1) / (2 K)`; probabilities `1 / K` (no invariant) or
  `cat(p, (1 - p) / K …)`; `rates = raw / Σ raw·probs`, then `rates *= mu`.
  `inverse_cdf` is ABSTRACT: the model takes the whole vector `raw` it returns as a parameter
  (with an invariant the subclass itself prepends the zero).
* `WeibullSiteModel.inverse_cdf`: `pow(-log(1 - q), 1 / shape)`, with `zeros_like(invariant)`
  prepended when an invariant proportion is given.
-/
namespace TT.C05

structure SM (α : Type) where
  n : Nat
  probs : Fin n → α
  rates : Fin n → α

section
variable {α : Type} [Add α] [Sub α] [Mul α] [Div α] [Neg α] [Zero α] [One α] [NatCast α]

/-- `self._rates *= self._mu.tensor` when `mu` is given -/
def applyMu (mu : Option α) (r : α) : α :=
  match mu with
  | none => r
  | some m => r * m

/-- `ConstantSiteModel` -/
def constant (mu : Option α) : SM α :=
  ⟨1, fun _ => 1, fun _ => match mu with | none => 1 | some m => m⟩

/-- `InvariantSiteModel.update_rates_probs` -/
def invariant (p : α) (mu : Option α) : SM α :=
  ⟨2, Fin.cases p (fun _ => 1 - p),
      fun i => applyMu mu (Fin.cases (0 : α) (fun _ => 1 / (1 - p)) i)⟩

/-- the literal `2.0` -/
def two : α := 1 + 1

/-- `(2.0 * arange(K) + 1.0) / (2.0 * K)` -/
def quantile (K : Nat) (i : Fin K) : α :=
  (two * ((i.val : Nat) : α) + 1) / (two * (K : α))

/-- `torch.full((K,), 1.0 / K)` -/
def probsPlain (K : Nat) : Fin K → α := fun _ => 1 / (K : α)

/-- `cat(invariant, ((1 - invariant) / K).expand(K))` -/
def probsInv (K : Nat) (p : α) : Fin (K + 1) → α := Fin.cases p (fun _ => (1 - p) / (K : α))

/-- `(rates * self._probabilities).sum(-1)` -/
def normaliser {n : Nat} (raw probs : Fin n → α) : α := sumFin fun i => raw i * probs i

/-- `rates / normaliser`, then `*= mu` -/
def normalise {n : Nat} (raw probs : Fin n → α) (mu : Option α) : Fin n → α :=
  fun i => applyMu mu (raw i / normaliser raw probs)

/-- discretised model without invariant category; `raw = inverse_cdf(parameter, quantile, None)` -/
def discretized (K : Nat) (raw : Fin K → α) (mu : Option α) : SM α :=
  ⟨K, probsPlain K, normalise raw (probsPlain K) mu⟩

/-- discretised model with invariant proportion `p`; `raw = inverse_cdf(parameter, quantile, p)`
(`K + 1` entries: the subclass prepends the invariant category's raw rate) -/
def discretizedInv (K : Nat) (p : α) (raw : Fin (K + 1) → α) (mu : Option α) : SM α :=
  ⟨K + 1, probsInv K p, normalise raw (probsInv K p) mu⟩

variable [Trans α]

/-- `torch.pow(-torch.log(1.0 - quantile), 1.0 / parameter)` -/
def weibullIcdf (shape q : α) : α := Trans.pow (-(Trans.log (1 - q))) (1 / shape)

def weibullRaw (K : Nat) (shape : α) : Fin K → α := fun i => weibullIcdf shape (quantile K i)

/-- with an invariant: `cat(zeros_like(invariant), pow(...))` -/
def weibullRawInv (K : Nat) (shape : α) : Fin (K + 1) → α := Fin.cases 0 (weibullRaw K shape)

/-- `WeibullSiteModel(shape, categories = K, invariant, mu)` -/
def weibull (K : Nat) (shape : α) (inv : Option α) (mu : Option α) : SM α :=
  match inv with
  | none => discretized K (weibullRaw K shape) mu
  | some p => discretizedInv K p (weibullRawInv K shape) mu

end

/-- the probability-weighted mean rate `Σ_k p_k r_k` -/
def SM.meanRate {α : Type} [Add α] [Mul α] [Zero α] (s : SM α) : α :=
  sumFin fun i => s.probs i * s.rates i

def SM.probSum {α : Type} [Add α] [Zero α] (s : SM α) : α := sumFin s.probs

end TT.C05
