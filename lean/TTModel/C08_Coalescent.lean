import TTModel.Scalar
/-!
# C08 — executable model of `torchtree/evolution/coalescent.py` (core Lean only)

The model follows the code as written:

* `node_heights = [n sampling times | n-1 coalescent times]`, `n = (len+1)/2`, positional mask
  `+1` (sampling) / `-1` (coalescent); grid points are appended with mask `0`;
* `argsort` + `gather`   ↦ `sortEvents` (stable insertion sort on the time; the theorems show that the
  value does not depend on how ties are ordered, torch's `argsort` is not stable);
* `lineage_count = mask_sorted.cumsum(-1)[..., :-1]`  ↦ `(cumsum marks).dropLast`;
* `durations = sorted[1:] - sorted[:-1]`  ↦ `diffs`;
* `lchoose2 = k (k-1) / 2.0`  ↦ `choose2`;
* skyride: `theta.gather(cumsum(mask == -1)[:-1])`, log term `theta.log().sum()`;
* skygrid: `theta.gather(cumsum(mask == 0))` (full length), interval terms use `thetas[:-1]`, log terms
  `where(mask == -1, log thetas, 0)[1:]`;
* exponential: `exp(sorted * g)` differences over `theta * g`, log terms
  `log(theta * exp(-sorted * g)) * (mask == -1)` with the `[1:]` slice.

Everything is polymorphic in the scalar: run at `Float` and `Rat` by `Drivers/C08.lean`, proved about at
`ℝ` in `TTProofs/Props/C08.lean`.
-/
namespace TT.C08

instance instIntCastFloatC08 : IntCast Float := ⟨Float.ofInt⟩

/-- one entry of the concatenated height vector with its mask value -/
structure Ev (α : Type) where
  t : α
  mark : Int
deriving Repr

variable {α : Type}

/-- insertion into a time-sorted list: before the first element whose time is not smaller -/
def insertEv [LE α] [DecidableLE α] (e : Ev α) : List (Ev α) → List (Ev α)
  | [] => [e]
  | x :: xs => if e.t ≤ x.t then e :: x :: xs else x :: insertEv e xs

/-- `argsort(heights)` followed by `gather` on heights and mask -/
def sortEvents [LE α] [DecidableLE α] : List (Ev α) → List (Ev α)
  | [] => []
  | e :: es => insertEv e (sortEvents es)

/-- running sum started at `acc`: `acc + x₀, acc + x₀ + x₁, …` -/
def cumsumFrom {β : Type} [Add β] (acc : β) : List β → List β
  | [] => []
  | x :: xs => (acc + x) :: cumsumFrom (acc + x) xs

/-- `torch.cumsum(-1)` -/
def cumsum {β : Type} [Add β] [Zero β] (l : List β) : List β := cumsumFrom 0 l

/-- `x[1:] - x[:-1]` -/
def diffs [Sub α] : List α → List α
  | a :: b :: rest => (b - a) :: diffs (b :: rest)
  | _ => []

/-- `lineage_count * (lineage_count - 1) / 2.0` -/
def choose2 [IntCast α] [Div α] [OfNat α 2] (k : Int) : α := ((k * (k - 1) : Int) : α) / 2

/-- number of taxa read off the length of the height vector: `int((len + 1) / 2)` -/
def taxaCount (heights : List α) : Nat := (heights.length + 1) / 2

/-- the positional mask: `n` ones then `n-1` minus ones -/
def nodeMask (n : Nat) : List Int := List.replicate n 1 ++ List.replicate (n - 1) (-1)

/-- `cat([node_heights, grid])` with `cat([+1…, -1…, 0…])` -/
def mkEvents (heights grid : List α) : List (Ev α) :=
  (List.zipWith (fun h m => (⟨h, m⟩ : Ev α)) heights (nodeMask (taxaCount heights)))
    ++ grid.map (fun g => ⟨g, 0⟩)

def marks (ev : List (Ev α)) : List Int := ev.map (·.mark)
def times (ev : List (Ev α)) : List α := ev.map (·.t)

/-- `mask_sorted.cumsum(-1)[..., :-1]` -/
def lineages (ev : List (Ev α)) : List Int := (cumsum (marks ev)).dropLast

/-- indicator list `where(mask == v, 1, 0)` -/
def isMark (v : Int) (ms : List Int) : List Nat := ms.map fun m => if m = v then 1 else 0

section arith
variable [Add α] [Sub α] [Mul α] [Div α] [Neg α] [Zero α] [IntCast α] [OfNat α 2]
  [LE α] [DecidableLE α]

def zipWith3 {β γ δ ε : Type} (f : β → γ → δ → ε) : List β → List γ → List δ → List ε
  | a :: as, b :: bs, c :: cs => f a b c :: zipWith3 f as bs cs
  | _, _, _ => []

/-! ### constant population size -/

/-- `sum(lchoose2 * durations)` of the sorted events (also the statistic of the integrated prior) -/
def constantStat (heights : List α) : α :=
  let ev := sortEvents (mkEvents heights [])
  (List.zipWith (fun k d => (choose2 k : α) * d) (lineages ev) (diffs (times ev))).sum

/-- `sum(-lchoose2 * durations / theta)` -/
def constantIntegral (θ : α) (heights : List α) : α :=
  let ev := sortEvents (mkEvents heights [])
  (List.zipWith (fun k d => -(choose2 k : α) * d / θ) (lineages ev) (diffs (times ev))).sum

/-! ### skyride (`PiecewiseConstantCoalescent`) -/

/-- `where(mask == -1, 1, 0).cumsum(-1)[..., :-1]` -/
def skyrideIdx (ev : List (Ev α)) : List Nat := (cumsum (isMark (-1) (marks ev))).dropLast

/-- `sum(lchoose2 * durations / theta.gather(idx))` -/
def skyrideIntegral (θ : List α) (heights : List α) : α :=
  let ev := sortEvents (mkEvents heights [])
  (zipWith3 (fun k d i => (choose2 k : α) * d / θ.getD i 0) (lineages ev) (diffs (times ev))
    (skyrideIdx ev)).sum

/-! ### skygrid (`PiecewiseConstantCoalescentGrid`) -/

/-- `where(mask == 0, 1, 0).cumsum(-1)` (full length) -/
def skygridIdx (ev : List (Ev α)) : List Nat := cumsum (isMark 0 (marks ev))

/-- `sum(lchoose2 * durations / thetas[..., :-1])` with `thetas = theta.gather(idx)` -/
def skygridIntegral (θ grid : List α) (heights : List α) : α :=
  let ev := sortEvents (mkEvents heights grid)
  (zipWith3 (fun k d i => (choose2 k : α) * d / θ.getD i 0) (lineages ev) (diffs (times ev))
    (skygridIdx ev).dropLast).sum

end arith

section trans
variable [Add α] [Sub α] [Mul α] [Div α] [Neg α] [Zero α] [IntCast α] [OfNat α 2] [Trans α]
  [LE α] [DecidableLE α]

/-- `ConstantCoalescent.log_prob` -/
def constantLogProb (θ : α) (heights : List α) : α :=
  constantIntegral θ heights - (((taxaCount heights - 1 : Nat) : Int) : α) * Trans.log θ

/-- `PiecewiseConstantCoalescent.log_prob` -/
def skyrideLogProb (θ : List α) (heights : List α) : α :=
  -(skyrideIntegral θ heights) - (θ.map Trans.log).sum

/-- `where(mask == -1, log(thetas), 0)[..., 1:]` summed -/
def skygridLogs (θ : List α) (ev : List (Ev α)) : α :=
  ((List.zipWith (fun m i => if m = -1 then Trans.log (θ.getD i 0) else (0 : α)) (marks ev)
      (skygridIdx ev)).tail).sum

/-- `PiecewiseConstantCoalescentGrid.log_prob` -/
def skygridLogProb (θ grid : List α) (heights : List α) : α :=
  -(skygridIntegral θ grid heights) - skygridLogs θ (sortEvents (mkEvents heights grid))

/-- `sum(lchoose2 * (E[1:] - E[:-1]) / (theta * g))`, `E = exp(sorted * g)` -/
def exponentialIntegral (θ g : α) (ev : List (Ev α)) : α :=
  (List.zipWith (fun k d => (choose2 k : α) * (d / (θ * g))) (lineages ev)
    (diffs ((times ev).map fun t => Trans.exp (t * g)))).sum

/-- `(log(theta * exp(-sorted * g)) * (mask == -1))[..., 1:]` summed -/
def exponentialLogs (θ g : α) (ev : List (Ev α)) : α :=
  ((ev.map fun e =>
      if e.mark = -1 then Trans.log (θ * Trans.exp (-e.t * g)) else (0 : α)).tail).sum

/-- `ExponentialCoalescent.log_prob`:
`sum(-lchoose2 * (E[1:] - E[:-1]) / (theta * g) - (log(theta * exp(-sorted * g)) * (mask == -1))[1:])` -/
def exponentialLogProb (θ g : α) (heights : List α) : α :=
  -(exponentialIntegral θ g (sortEvents (mkEvents heights [])))
    - exponentialLogs θ g (sortEvents (mkEvents heights []))

end trans

end TT.C08
