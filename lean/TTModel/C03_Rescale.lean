import TTModel.Scalar
/-!
# C03 — plain, rescaled and "safe" pruning and the sticky `rescale` flag (core Lean only)

Mirrors `torchtree/evolution/tree_likelihood.py` as written:

* `calculate_treelikelihood_discrete`            → `peel`, `logLikPlain`
* `calculate_treelikelihood_discrete_rescaled`   → `peelRescaled`, `logLikScaled`
* `calculate_treelikelihood_discrete_safe`       → `peelSafe` (run on the list left behind by a plain pass)
* `calculate_treelikelihood_tip_states_discrete(_rescaled)` → the same loops with `tipCount > 0`
* `TreeLikelihoodModel.calculate_with_tip_partials / calculate_with_tip_states` → `evalPartials`,
  `evalStates` and the flag automaton `flagStep`.

Conventions kept from the code
* `partials` is a Python list addressed by node index (`Store`); a triple `(node,left,right)`
  overwrites slot `node` with a value computed from slots `left`, `right` *as they are at that
  moment* — nothing checks that the triples describe a tree (`wf` states what a post-order is).
* a stored partial is `[K,S,N]` (category, state, site); here `Part`, read `p.get site category state`.
  Tip tensors are `[S,N]` and broadcast over `K`, i.e. constant in the category index.
* `mats[b]` is the matrix of the branch above node `b`; `M @ v` sums over the second index.
* root slot = `post_indexing[-1][0]`; site value = `freqs @ sum(props * partial, -3)`, i.e.
  `Σ_s freqs[s] * (Σ_k props[k] * partial[k,s])` in exactly that nesting.
* rescaled passes: `scaler = max over (category,state)` per site (`partial.view(..., -1, N).max(-2)`),
  stored partial = `partial / scaler`, `scalers.append(scaler)`; result
  `log(site value of the scaled root) + Σ_{appended scalers} log scaler`.
* safe pass: node is recomputed and rescaled iff `rescaled[left] or rescaled[right] or
  any(max over states of the STALE partials[node] < threshold)` (`any` over categories, sites and
  samples); otherwise its stale value is kept and no scaler is appended.
* tip-state functions: children with index `< tip_count = len(post_indexing)+1` contribute column
  `state` of `[M | 1]` instead of `M @ partials[child]`.

Everything is polymorphic in the scalar; the scaler choice and the threshold test are parameters
(`…With`) so that the theorems hold for any choice; the code's choices are `maxKS` / `belowThr`.
-/
namespace TT.C03

/-- value stored for one node: site → category → state (the code's `[K,S,N]`), as data
  (nested vectors, so that a stored value is computed once in the compiled driver) -/
abbrev Part (α : Type) (N K S : Nat) := Vector (Vector (Vector α S) K) N
/-- the Python list `partials`, addressed by node index. A structure (not a bare function type)
  so that functions returning a store are not eta-expanded by the compiler, which would
  recompute stored values on every lookup. -/
structure Store (α : Type) (N K S : Nat) where
  get : Nat → Part α N K S
/-- `mats`: branch (= node below it) → category → row → column -/
abbrev Mats (α : Type) (K S : Nat) := Nat → Fin K → Fin S → Fin S → α
/-- `(node, left, right)` -/
abbrev Triple := Nat × Nat × Nat

def Part.get {α : Type} {N K S : Nat} (p : Part α N K S) (n : Fin N) (k : Fin K) (s : Fin S) : α :=
  p[n][k][s]

def Part.ofFn {α : Type} {N K S : Nat} (f : Fin N → Fin K → Fin S → α) : Part α N K S :=
  Vector.ofFn fun n => Vector.ofFn fun k => Vector.ofFn (f n k)

@[simp] theorem Part.get_ofFn {α : Type} {N K S : Nat} (f : Fin N → Fin K → Fin S → α)
    (n : Fin N) (k : Fin K) (s : Fin S) : (Part.ofFn f).get n k s = f n k s := by
  simp [Part.get, Part.ofFn]

def Store.set {α : Type} {N K S : Nat} (st : Store α N K S) (i : Nat) (p : Part α N K S) :
    Store α N K S :=
  ⟨fun j => if j = i then p else st.get j⟩

@[simp] theorem Store.get_set {α : Type} {N K S : Nat} (st : Store α N K S) (i j : Nat)
    (p : Part α N K S) : (st.set i p).get j = if j = i then p else st.get j := rfl

def setFlag (f : Nat → Bool) (i : Nat) : Nat → Bool := fun j => if j = i then true else f j

/-- `post_indexing[-1][0]` (the code raises on an empty list; the model answers slot 0) -/
def rootOf (ts : List Triple) : Nat :=
  match ts.getLast? with
  | some t => t.1
  | none => 0

section arith
variable {α : Type} [Add α] [Mul α] [Zero α]
variable {N K S : Nat}

/-- `p_left` / `p_right` at one (site, category, state): the tip-state functions take `tipc`
  (column `state` of `[M | 1]`) for children `< tipCount`, otherwise `(mats[c] @ partials[c])`;
  the tip-partials functions are the case `tipCount = 0` -/
def contrib (tipCount : Nat) (tipc : Nat → Fin N → Fin K → Fin S → α) (M : Mats α K S)
    (c : Nat) (pc : Part α N K S) (n : Fin N) (k : Fin K) (s : Fin S) : α :=
  if c < tipCount then tipc c n k s else sumFin fun j => M c k s j * pc.get n k j

/-- the unscaled value the loop body computes for `(node,left,right)` -/
def combine (tipCount : Nat) (tipc : Nat → Fin N → Fin K → Fin S → α) (M : Mats α K S)
    (st : Store α N K S) (l r : Nat) : Part α N K S :=
  let pl := st.get l
  let pr := st.get r
  Part.ofFn fun n k s => contrib tipCount tipc M l pl n k s * contrib tipCount tipc M r pr n k s

/-- body of `calculate_treelikelihood_discrete` / `_tip_states_discrete` -/
def peelStep (tipCount : Nat) (tipc : Nat → Fin N → Fin K → Fin S → α) (M : Mats α K S)
    (st : Store α N K S) (t : Triple) : Store α N K S :=
  st.set t.1 (combine tipCount tipc M st t.2.1 t.2.2)

def peel (tipCount : Nat) (tipc : Nat → Fin N → Fin K → Fin S → α) (M : Mats α K S)
    (st : Store α N K S) (ts : List Triple) : Store α N K S :=
  ts.foldl (peelStep tipCount tipc M) st

/-- `freqs @ torch.sum(props * partial, -3)` at one site -/
def siteLik (freqs : Fin S → α) (props : Fin K → α) (p : Part α N K S) (n : Fin N) : α :=
  sumFin fun s => freqs s * sumFin fun k => props k * p.get n k s

/-- column `state` of `[M | 1]` (`mat_tips[..., c, :, :, state]`); states arrive clamped to `≤ S` -/
def tipVec [One α] (M : Mats α K S) (states : Nat → Fin N → Nat) :
    Nat → Fin N → Fin K → Fin S → α :=
  fun c n k s => if h : states c n < S then M c k s ⟨states c n, h⟩ else 1

/-- tip partial tensors `[S,N]` broadcast over the category dimension -/
def tipStore (tips : Nat → Fin N → Fin S → α) : Store α N K S :=
  ⟨fun i => Part.ofFn fun n _ s => tips i n s⟩

/-- the unused `tipc` of the tip-partials functions -/
def noTips : Nat → Fin N → Fin K → Fin S → α := fun _ _ _ _ => 0

end arith

section rescaled
variable {α : Type} [Add α] [Mul α] [Zero α] [Div α]
variable {N K S : Nat}

/-- loop state of the rescaled passes: the list `partials` and the Python list `scalers`
  (one `[N]` vector per appended scaler) -/
structure RState (α : Type) (N K S : Nat) where
  st : Store α N K S
  scalers : List (Vector α N)

/-- `partial / scaler.unsqueeze(-2)` -/
def divide (raw : Part α N K S) (sc : Vector α N) : Part α N K S :=
  Part.ofFn fun n k s => raw.get n k s / sc[n]

/-- body of `calculate_treelikelihood_discrete_rescaled`; `scaler node site rawPartial` -/
def rescStep (scaler : Nat → Fin N → Part α N K S → α) (tipCount : Nat)
    (tipc : Nat → Fin N → Fin K → Fin S → α) (M : Mats α K S) (rs : RState α N K S) (t : Triple) :
    RState α N K S :=
  let raw := combine tipCount tipc M rs.st t.2.1 t.2.2
  let sc : Vector α N := Vector.ofFn fun n => scaler t.1 n raw
  { st := rs.st.set t.1 (divide raw sc), scalers := rs.scalers ++ [sc] }

def peelRescaledWith (scaler : Nat → Fin N → Part α N K S → α) (tipCount : Nat)
    (tipc : Nat → Fin N → Fin K → Fin S → α) (M : Mats α K S) (st : Store α N K S)
    (ts : List Triple) : RState α N K S :=
  ts.foldl (rescStep scaler tipCount tipc M) ⟨st, []⟩

/-- loop state of the safe pass: `partials`, `rescaled[]`, `scalers` -/
structure SState (α : Type) (N K S : Nat) where
  st : Store α N K S
  flags : Nat → Bool
  scalers : List (Vector α N)

/-- body of `calculate_treelikelihood_discrete_safe`; `below stalePartial` is the threshold test -/
def safeStep (below : Part α N K S → Bool) (scaler : Nat → Fin N → Part α N K S → α)
    (M : Mats α K S) (ss : SState α N K S) (t : Triple) : SState α N K S :=
  if ss.flags t.2.1 || ss.flags t.2.2 || below (ss.st.get t.1) then
    let raw := combine 0 noTips M ss.st t.2.1 t.2.2
    let sc : Vector α N := Vector.ofFn fun n => scaler t.1 n raw
    { st := ss.st.set t.1 (divide raw sc),
      flags := setFlag ss.flags t.1,
      scalers := ss.scalers ++ [sc] }
  else ss

def peelSafeWith (below : Part α N K S → Bool) (scaler : Nat → Fin N → Part α N K S → α)
    (M : Mats α K S) (st : Store α N K S) (ts : List Triple) : SState α N K S :=
  ts.foldl (safeStep below scaler M) ⟨st, fun _ => false, []⟩

end rescaled

section choices
variable {α : Type} [Zero α] [Max α]
variable {N K S : Nat}

def maxList : List α → α
  | [] => 0
  | x :: xs => xs.foldl max x

/-- `partial.view(..., K*S, N).max(-2)`: maximum over categories and states at one site -/
def maxKS (p : Part α N K S) (n : Fin N) : α :=
  maxList ((List.finRange K).flatMap fun k => (List.finRange S).map fun s => p.get n k s)

/-- `torch.max(partials[node], -2)`: maximum over states for one (site, category) -/
def maxS (p : Part α N K S) (n : Fin N) (k : Fin K) : α :=
  maxList ((List.finRange S).map fun s => p.get n k s)

/-- `torch.any(torch.max(partials[node], -2)[0] < threshold)` -/
def belowThr [LT α] [DecidableLT α] (thr : α) (p : Part α N K S) : Bool :=
  (List.finRange N).any fun n => (List.finRange K).any fun k => decide (maxS p n k < thr)

/-- `TreeLikelihoodModel._underflow` (after fix F21): `any(isinf(log_p))` or, for SOME site, the max over
  (category, state) of the root partial is below `threshold` — a test on the WORST site pattern.
  `TTGen/C03_Underflow.lean` (regenerated from the source) records that the code has this structure. -/
def underflowCoded [LT α] [DecidableLT α] (isInf : α → Bool) (thr v : α) (root : Part α N K S) : Bool :=
  isInf v || (List.finRange N).any fun n => decide (maxKS root n < thr)

end choices

section coded
variable {α : Type} [Add α] [Mul α] [Zero α] [Div α] [Max α]
variable {N K S : Nat}

/-- `calculate_treelikelihood_discrete_rescaled` / `_tip_states_discrete_rescaled` -/
def peelRescaled (tipCount : Nat) (tipc : Nat → Fin N → Fin K → Fin S → α) (M : Mats α K S)
    (st : Store α N K S) (ts : List Triple) : RState α N K S :=
  peelRescaledWith (fun _ n p => maxKS p n) tipCount tipc M st ts

/-- `calculate_treelikelihood_discrete_safe` -/
def peelSafe [LT α] [DecidableLT α] (thr : α) (M : Mats α K S) (st : Store α N K S)
    (ts : List Triple) : SState α N K S :=
  peelSafeWith (belowThr thr) (fun _ n p => maxKS p n) M st ts

end coded

section loglik
variable {α : Type} [Add α] [Mul α] [Zero α] [Trans α]
variable {N K S : Nat}

/-- `sum(log(freqs @ sum(props * root, -3)) * weights, -1)` -/
def logLikPlain (freqs : Fin S → α) (props : Fin K → α) (w : Fin N → α) (p : Part α N K S) : α :=
  sumFin fun n => Trans.log (siteLik freqs props p n) * w n

/-- `Σ_nodes log scaler` at one site (`torch.cat(scalers,-2).log().sum(-2)`) -/
def logScalers (scalers : List (Vector α N)) (n : Fin N) : α :=
  (scalers.map fun sc => Trans.log sc[n]).sum

/-- `sum((log(freqs @ sum(props * root, -3)) + Σ log scalers) * weights, -1)` -/
def logLikScaled (freqs : Fin S → α) (props : Fin K → α) (w : Fin N → α) (p : Part α N K S)
    (scalers : List (Vector α N)) : α :=
  sumFin fun n => (Trans.log (siteLik freqs props p n) + logScalers scalers n) * w n

end loglik

/-! ### what a post-order of a binary tree is, for slot bookkeeping

`live` = internal slots written and not yet used as a child; `done` = all internal slots written.
A triple is acceptable when its node is a fresh internal index (`≥ T`, never written) and each
child is a tip (`< T`) or a live slot (used once). `wf` additionally asks that exactly the last
node is left over. Tips may be used any number of times (irrelevant for scaler accounting). -/

def childOk (T : Nat) (live : List Nat) (c : Nat) : Bool := decide (c < T) || live.contains c
def consume (T : Nat) (live : List Nat) (c : Nat) : List Nat := if c < T then live else live.erase c

def wfAux (T : Nat) : List Triple → List Nat → List Nat → Option (List Nat)
  | [], live, _ => some live
  | t :: ts, live, done =>
    if decide (T ≤ t.1) && !done.contains t.1 && childOk T live t.2.1
        && childOk T (consume T live t.2.1) t.2.2 then
      wfAux T ts (t.1 :: consume T (consume T live t.2.1) t.2.2) (t.1 :: done)
    else none

def wf (T : Nat) (ts : List Triple) : Bool :=
  match wfAux T ts [] [] with
  | some live => live == [rootOf ts]
  | none => false

/-! ### `TreeLikelihoodModel`: which function runs, and the sticky flag -/

inductive Branch where
  | plain            -- plain pass, result kept
  | plainThenSafe    -- plain pass was infinite: flag set, `_safe` pass on the same list
  | plainThenResc    -- tip-state path: plain pass infinite: flag set, full rescaled pass
  | rescaled         -- flag already set: rescaled pass only
deriving Repr, DecidableEq

/-- the `if self.rescale … else … if torch.any(torch.isinf(log_p))` skeleton: branch taken and new flag -/
def flagStep (useTipStates : Bool) (rescale : Bool) (plainIsInf : Bool) : Branch × Bool :=
  if rescale then (.rescaled, true)
  else if plainIsInf then ((if useTipStates then .plainThenResc else .plainThenSafe), true)
  else (.plain, false)

/-- a history of evaluations: `infs[i]` = would the plain pass of evaluation `i` be infinite -/
def flagRun (useTipStates : Bool) : Bool → List Bool → List Branch × Bool
  | r, [] => ([], r)
  | r, b :: bs =>
    let (br, r') := flagStep useTipStates r b
    let (brs, rf) := flagRun useTipStates r' bs
    (br :: brs, rf)

section evalModel
variable {α : Type} [Add α] [Mul α] [Zero α] [One α] [Div α] [Max α] [LT α] [DecidableLT α] [Trans α]
variable {N K S : Nat}

/-- what changes between evaluations of one model -/
structure Inputs (α : Type) (K S : Nat) where
  mats : Mats α K S
  freqs : Fin S → α
  props : Fin K → α

/-- model object state: the flag and the list `self.partials` (internal slots keep the last pass) -/
structure MState (α : Type) (N K S : Nat) where
  rescale : Bool
  st : Store α N K S

/-- `calculate_with_tip_partials`; `switch logp rootPartial` stands for the test that turns
  rescaling on (`torch.any(torch.isinf(log_p))`, after fix F21 also a root partial below `threshold`) -/
def evalPartials (switch : α → Part α N K S → Bool) (thr : α) (w : Fin N → α) (ts : List Triple)
    (ms : MState α N K S) (inp : Inputs α K S) : α × Branch × MState α N K S :=
  if ms.rescale then
    let rs := peelRescaled 0 noTips inp.mats ms.st ts
    (logLikScaled inp.freqs inp.props w (rs.st.get (rootOf ts)) rs.scalers, .rescaled, ⟨true, rs.st⟩)
  else
    let st1 := peel 0 noTips inp.mats ms.st ts
    let v := logLikPlain inp.freqs inp.props w (st1.get (rootOf ts))
    if switch v (st1.get (rootOf ts)) then
      let ss := peelSafe thr inp.mats st1 ts
      (logLikScaled inp.freqs inp.props w (ss.st.get (rootOf ts)) ss.scalers, .plainThenSafe, ⟨true, ss.st⟩)
    else (v, .plain, ⟨false, st1⟩)

/-- `calculate_with_tip_states` (`tip_count = len(post_indexing)+1`) -/
def evalStates (switch : α → Part α N K S → Bool) (w : Fin N → α) (ts : List Triple) (states : Nat → Fin N → Nat)
    (ms : MState α N K S) (inp : Inputs α K S) : α × Branch × MState α N K S :=
  let T := ts.length + 1
  let tv := tipVec inp.mats states
  if ms.rescale then
    let rs := peelRescaled T tv inp.mats ms.st ts
    (logLikScaled inp.freqs inp.props w (rs.st.get (rootOf ts)) rs.scalers, .rescaled, ⟨true, rs.st⟩)
  else
    let st1 := peel T tv inp.mats ms.st ts
    let v := logLikPlain inp.freqs inp.props w (st1.get (rootOf ts))
    if switch v (st1.get (rootOf ts)) then
      let rs := peelRescaled T tv inp.mats st1 ts
      (logLikScaled inp.freqs inp.props w (rs.st.get (rootOf ts)) rs.scalers, .plainThenResc, ⟨true, rs.st⟩)
    else (v, .plain, ⟨false, st1⟩)

/-- a history of evaluations of one model object (tip-partials path): each evaluation comes with
  its inputs and its own switch test; returns (value, branch, flag afterwards) per evaluation -/
def runPartials (thr : α) (w : Fin N → α) (ts : List Triple) :
    MState α N K S → List (Inputs α K S × (α → Part α N K S → Bool)) → List (α × Branch × Bool)
  | _, [] => []
  | ms, e :: rest =>
    let r := evalPartials e.2 thr w ts ms e.1
    (r.1, r.2.1, r.2.2.rescale) :: runPartials thr w ts r.2.2 rest

/-- the same for the tip-states path -/
def runStates (w : Fin N → α) (ts : List Triple) (states : Nat → Fin N → Nat) :
    MState α N K S → List (Inputs α K S × (α → Part α N K S → Bool)) → List (α × Branch × Bool)
  | _, [] => []
  | ms, e :: rest =>
    let r := evalStates e.2 w ts states ms e.1
    (r.1, r.2.1, r.2.2.rescale) :: runStates w ts states r.2.2 rest

end evalModel

end TT.C03
