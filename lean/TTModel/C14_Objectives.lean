import TTModel.Scalar
/-!
# C14 — the variational objectives as functions of the log-weights

`w[s][k] = log p(z_{s,k}, data) − log q(z_{s,k})` for sample shape `[S, K]` (a list of `S` rows of
`K` entries), `w[s]` for sample shape `[S]`.  Each estimator is written with the reductions
exactly as `torchtree/variational/{kl,renyi,chi}.py` code them (which axis, sum or mean, where
`log K` is subtracted, what is divided by what).  One definition, polymorphic in the scalar:
proved about at `ℝ` (`TTProofs/Props/C14.lean`), executed at `Float` by `drv_c14`.
`torch.logsumexp` is the max-shifted form; it is modelled as such (`lse`).
-/
namespace TT.C14

variable {α : Type} [Add α] [Sub α] [Mul α] [Div α] [Zero α] [One α] [Trans α]
  [LT α] [DecidableLT α]

/-- `float(n)` -/
def natTo : Nat → α
  | 0 => 0
  | n + 1 => natTo n + 1

/-- `tensor.mean()` -/
def mean (l : List α) : α := l.sum / natTo l.length

/-- `torch.max(tensor)` (first element when all are incomparable; `0` for an empty tensor) -/
def maxL : List α → α
  | [] => 0
  | x :: xs => xs.foldl (fun m y => if m < y then y else m) x

/-- `torch.logsumexp(row, -1)`: `m + log Σ exp(x − m)` with `m = max row` -/
def lse (l : List α) : α :=
  let m := maxL l
  m + Trans.log ((l.map fun x => Trans.exp (x - m)).sum)

/-- `ELBO._call`, sample shape `[S]`, Monte-Carlo entropy: `(p() − q()).mean()` -/
def elbo (w : List α) : α := mean w

/-- `ELBO._call`, sample shape `[S, K]`:
`(logsumexp(log_p − log_q, −1) − log K).mean()` -/
def elboMulti (w : List (List α)) : α :=
  mean (w.map fun row => lse row - Trans.log (natTo row.length))

/-- `ELBO._call` with `entropy=True`: `p().mean() + q.entropy().sum()` — `logp[s]` are the model
log densities, `h` the per-dimension entropies of `q` -/
def elboEntropy (logp : List α) (h : List α) : α := mean logp + h.sum

/-- one row of `VR._call`: `logsumexp((1−a)·w, −1) − log K` -/
def vrRow (a : α) (row : List α) : α :=
  lse (row.map fun x => (1 - a) * x) - Trans.log (natTo row.length)

/-- `VR._call`, sample shape `[K]` (the `sum(-1)` / `mean(-1)` of a 0-dim tensor is the identity) -/
def vr1 (a : α) (row : List α) : α := vrRow a row / (1 - a)

/-- `VR._call`, sample shape `[S, K]`, as repaired (F16): the rows are AVERAGED -/
def vr (a : α) (w : List (List α)) : α := mean (w.map (vrRow a)) / (1 - a)

/-- `VR._call` as it was before F16: the rows are SUMMED (`log_w_mean.sum(-1)`) -/
def vrSum (a : α) (w : List (List α)) : α := (w.map (vrRow a)).sum / (1 - a)

/-- `CUBO._call` (any sample shape; `w` flattened):
`log(mean(exp(w − max)^n)) / n + max` -/
def cubo (n : α) (w : List α) : α :=
  let m := maxL w
  Trans.log (mean (w.map fun x => Trans.pow (Trans.exp (x - m)) n)) / n + m

/-- one row of `KLpq._call`: `Σ exp(w − logsumexp(w)) · w` (self-normalised importance weights) -/
def klpqRow (row : List α) : α :=
  let z := lse row
  (row.map fun x => Trans.exp (x - z) * x).sum

/-- `KLpq._call`, sample shape `[S]` -/
def klpq (w : List α) : α := klpqRow w

/-- `KLpq._call`, sample shape `[S, K]`, as repaired (F17): weights normalised within each row,
rows averaged -/
def klpq2 (w : List (List α)) : α := mean (w.map klpqRow)

/-- `KLpq._call` on `[S, K]` as it was before F17: `log_w − logsumexp(log_w, −1)` broadcasts the
`[S]` vector of row normalisers along the LAST axis (needs `S = K`): entry `[s][k]` is normalised
by the normaliser of row `k`; then everything is summed -/
def klpq2Broadcast (w : List (List α)) : α :=
  let z := w.map lse
  (w.map fun row => ((row.zip z).map fun xz => Trans.exp (xz.1 - xz.2) * xz.1).sum).sum

/-- `ELBO._call` with `score=True` (a score-function gradient surrogate, not an estimate of `log Z`):
`((log p − log q).detach() · log q).mean()` over every sample -/
def elboScore (logp logq : List α) : α :=
  mean ((logp.zip logq).map fun pq => (pq.1 - pq.2) * pq.2)

/-- `KLpqImportance._call` (a gradient surrogate): `w = exp(log_w − max log_w)`, `−Σ (w / Σ w) · log q`
over every sample -/
def klpqImportance (logp logq : List α) : α :=
  let lw := (logp.zip logq).map fun pq => pq.1 - pq.2
  let m := maxL lw
  let w := lw.map fun x => Trans.exp (x - m)
  let tot := w.sum
  0 - ((w.zip logq).map fun wq => wq.1 / tot * wq.2).sum

end TT.C14
