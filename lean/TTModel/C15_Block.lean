import TTModel.Scalar
import TTModel.C15_Expr
import TTModel.C15_MCMC
/-!
# C15 — `GMRFPiecewiseCoalescentBlockUpdatingOperator._step` (`inference/mcmc/gmrf_block_updating.py`)

    precision_matrix          = gmrf.precision_matrix()            # Q(τ)   (C20's published matrix)
    gmrf.precision.tensor     = propose_precision()                # τ' = f τ  (`precisionMultiplier`)
    proposed_precision_matrix = gmrf.precision_matrix()            # Q(τ')
    mode_forward  = newton_raphson(counts, suff, gamma, Q(τ'))     # ABSTRACT here: any vector
    forwardQW     = Q(τ') + diag(suff * exp(-mode_forward))        # P_f
    diagonal1     = suff*exp(-mode_forward)*(mode_forward+1) - counts          # h_f
    z = randn(dim);  cholesky = chol(forwardQW, upper)             # P_f = Uᵀ U   (LinAlgError -> return inf)
    mu = U⁻¹ U⁻ᵀ h_f ;  u = U⁻¹ z ;  proposed_gamma = mu + u ;  field.tensor = proposed_gamma
    log_q_forward  = Σ_{U_ii > 1e-7} log U_ii - 0.5 z·z
    mode_backward = newton_raphson(counts, suff, proposed_gamma, Q(τ))
    backwardQW    = Q(τ) + diag(suff * exp(-mode_backward)) ; h_b ; cholesky (LinAlgError -> return inf)
    mu = ... ; d = gamma - mu ; log_q_backward = Σ_{U_ii > 1e-7} log U_ii - 0.5 d·(backwardQW d)
    return log_q_backward - log_q_forward

The Hastings bookkeeping (`logQForward`, `logQBackward`, `blockHastings`) is written over `Fin n` functions
(the theorem `block_hr` is about these definitions); Cholesky factorisation and the triangular solves are
executable array code whose contracts (`P = UᵀU`, `U x = b`) are hypotheses of the theorem and are checked
numerically against torch by the correspondence.
-/
namespace TT.C15

section bookkeeping
variable {α : Type} [Add α] [Sub α] [Mul α] [Neg α] [Zero α] [One α] [Trans α] [LT α]
  [DecidableLT α] {n : Nat}

/-- `suff * exp(-mode)` -/
def curvature (w m : Fin n → α) : Fin n → α := fun i => w i * Trans.exp (-(m i))

/-- `Q; Q[range(dim), range(dim)] += diagonal1` -/
def addDiag (Q : Fin n → Fin n → α) (d : Fin n → α) : Fin n → Fin n → α :=
  fun i j => if i = j then Q i j + d i else Q i j

/-- `diagonal1 * (mode + 1) - counts` -/
def linearTerm (w c m : Fin n → α) : Fin n → α := fun i => curvature w m i * (m i + 1) - c i

/-- `diagonal[diagonal > 0.0000001].log().sum()` -/
def logDiagSum (thr : α) (U : Fin n → Fin n → α) : α :=
  sumFin fun i => if thr < U i i then Trans.log (U i i) else 0

/-- `log_q_forward` -/
def logQForward (half thr : α) (U : Fin n → Fin n → α) (z : Fin n → α) : α :=
  logDiagSum thr U - half * sumFin fun i => z i * z i

/-- `log_q_backward`: `d = gamma - mu`, `diagonal3 = backwardQW @ d` -/
def logQBackward (half thr : α) (U P : Fin n → Fin n → α) (d : Fin n → α) : α :=
  logDiagSum thr U - half * sumFin fun i => d i * sumFin fun j => P i j * d j

/-- the value `_step` returns -/
def blockHastings (half thr : α) (Uf : Fin n → Fin n → α) (z : Fin n → α)
    (Ub Pb : Fin n → Fin n → α) (d : Fin n → α) : α :=
  logQBackward half thr Ub Pb d - logQForward half thr Uf z

end bookkeeping

/-! ## executable linear algebra (arrays; contracts are hypotheses of `block_hr`) -/
section linalg
variable {α : Type} [Add α] [Sub α] [Mul α] [Div α] [Neg α] [Zero α] [One α] [Trans α] [LT α]
  [DecidableLT α] [Inhabited α]

abbrev Mat (α : Type) := Array (Array α)

def Mat.get (M : Mat α) (i j : Nat) : α := (M.getD i #[]).getD j default

/-- `torch.linalg.cholesky(P, upper=True)`: `P = Uᵀ U`; `none` when a pivot is not positive
(`LinAlgError`) -/
def cholUpper (P : Mat α) : Option (Mat α) := Id.run do
  let n := P.size
  let mut U : Mat α := Array.replicate n (Array.replicate n 0)
  for j in [0:n] do
    -- diagonal entry
    let mut s : α := P.get j j
    for k in [0:j] do
      s := s - U.get k j * U.get k j
    if !(decide ((0 : α) < s)) then return none
    let d := Trans.sqrt s
    U := U.modify j fun row => row.set! j d
    for i in [j+1:n] do
      let mut t : α := P.get j i
      for k in [0:j] do
        t := t - U.get k j * U.get k i
      U := U.modify j fun row => row.set! i (t / d)
  return some U

/-- solve `Uᵀ v = b` (forward substitution on the transpose of an upper triangular `U`) -/
def solveUT (U : Mat α) (b : Array α) : Array α := Id.run do
  let n := b.size
  let mut v : Array α := Array.replicate n 0
  for i in [0:n] do
    let mut s := b.getD i default
    for k in [0:i] do
      s := s - U.get k i * v.getD k default
    v := v.set! i (s / U.get i i)
  return v

/-- solve `U x = b` (back substitution) -/
def solveU (U : Mat α) (b : Array α) : Array α := Id.run do
  let n := b.size
  let mut x : Array α := Array.replicate n 0
  for ii in [0:n] do
    let i := n - 1 - ii
    let mut s := b.getD i default
    for k in [i+1:n] do
      s := s - U.get i k * x.getD k default
    x := x.set! i (s / U.get i i)
  return x

def vecFn (a : Array α) (n : Nat) : Fin n → α := fun i => a.getD i.val default
def matFn (M : Mat α) (n : Nat) : Fin n → Fin n → α := fun i j => M.get i.val j.val

/-- `_step` after the precision proposal: `Q` = matrix of the current precision, `Qp` of the proposed one,
`mf`/`mb` the mode finder's outputs (abstract), `z` the normal draw.
Returns the field left in the parameter and the returned value. -/
def blockStep (half thr : α) (Q Qp : Mat α) (w c gamma mf mb z : Array α) : Array α × HR α :=
  let n := gamma.size
  let wf := vecFn w n; let cf := vecFn c n
  let Pf : Mat α := Array.ofFn fun i : Fin n => Array.ofFn fun j : Fin n =>
    addDiag (matFn Qp n) (curvature wf (vecFn mf n)) i j
  let hf : Array α := Array.ofFn (linearTerm wf cf (vecFn mf n))
  match cholUpper Pf with
  | none => (gamma, .inf)                       -- first `LinAlgError`: the field is not yet assigned
  | some Uf =>
    let mu := solveU Uf (solveUT Uf hf)
    let u := solveU Uf z
    let gamma' : Array α := Array.ofFn fun i : Fin n => mu.getD i.val default + u.getD i.val default
    let Pb : Mat α := Array.ofFn fun i : Fin n => Array.ofFn fun j : Fin n =>
      addDiag (matFn Q n) (curvature wf (vecFn mb n)) i j
    let hb : Array α := Array.ofFn (linearTerm wf cf (vecFn mb n))
    match cholUpper Pb with
    | none => (gamma', .inf)                    -- second `LinAlgError`: the proposed field is in place
    | some Ub =>
      let mub := solveU Ub (solveUT Ub hb)
      let d : Fin n → α := fun i => gamma.getD i.val default - mub.getD i.val default
      (gamma', .fin (blockHastings half thr (matFn Uf n) (vecFn z n) (matFn Ub n) (matFn Pb n) d))

end linalg
end TT.C15
