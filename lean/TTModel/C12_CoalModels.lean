import TTModel.Proto
import TTModel.C12_Expr
import TTModel.C12_Models
import TTModel.C08_Coalescent
import TTModel.C08_Linear
import TTModel.C08_Soft
import TTModel.C20_GMRF
/-!
# C12 (companion) — builders and driver operations for the C08 / C20 models that C12 did not cover

* `exponentialE`, `gintE`: expression builders (the `hasDerivAt_*` theorems of
  `TTProofs/Props/C12_Coalescent.lean` are stated about them);
* `handleExtra`: extra operations of `drv_c12` — the C08 / C20 DEFINITIONS (`exponentialLogProb`, `linearLogProb`,
  `softLogProb`, `gmrfLogProb` plain / weighted / time-aware, `gammaIntegratedLogProb`) run unchanged at
  `Dual Float`, value and forward-mode gradient in every parameter, and the builders evaluated the same way.

    coal2_def exp    | θ g | heights | (empty)            -> value, d/dθ, d/dg, d/dheight_i …
    coal2_def linear | θ… | heights | grid…               -> value, d/dθ_k …, d/dheight_i …
    coal2_def soft   | τ | θ… | heights | grid…           -> value, d/dθ_k …, d/dheight_i …
    exp_expr         | θ g | sorted times… | sorted marks…  -> value, d/dθ, d/dg, d/dsorted_time_j …
    gmrf_def <P|W|T0|T1> | field… | τ c | extra…          -> value, d/dfield_i …, d/dτ, (T modes: d/dinternal_height_i …)
    gint_def <P|W|T0|T1> | field… | c shape rate lgA lgAd | extra…  -> value, d/dfield_i …
    gint_expr        | field… | c shape rate lgA lgAd | weights… (may be empty) -> value, d/dfield_i …, d/drate
-/
namespace TT.C12
open Expr

/-- `ExponentialCoalescent.log_prob` after the sort: `ts` sorted event times, `marks` their marks:
`sum(-lchoose2 * (E[1:] - E[:-1]) / (θ g) - (log(θ exp(-t g)) * (mask == -1))[1:])`, `E = exp(t g)` -/
def exponentialE (θ g : Expr) (ts : List Expr) (marks : List Int) : Expr :=
  let Es := ts.map fun t => exp (mul t g)
  let integ := sumL (List.zipWith (fun k d => mul (choose2E k) (div d (mul θ g))) (lineagesM marks) (diffsE Es))
  let logs := sumL ((List.zipWith (fun (m : Int) t => if m = -1 then log (mul θ (exp (mul (neg t) g))) else nat 0)
      marks ts).tail)
  sub (neg integ) logs

/-- `GMRFGammaIntegrated._call` without tree: variables field `xs`, optional weights, `c = log 2π`, shape, rate,
`lgA = lgamma(shape)`, `lgAd = lgamma(shape + dim/2)` -/
def gintE (xs : List Expr) (ws : Option (List Expr)) (c shape rate lgA lgAd : Expr) : Expr :=
  let sq := (diffsRevE xs).map fun d => mul d d
  let sq := match ws with
    | none => sq
    | some w => List.zipWith div sq w
  let dim := xs.length - 1
  sub (add (sub (add (mul (div (neg (nat dim)) (nat 2)) c) (mul shape (log rate))) lgA) lgAd)
    (mul (add shape (div (nat dim) (nat 2))) (log (add (div (sumL sq) (nat 2)) rate)))

/-! ### driver side -/

abbrev DFx := Dual Float

namespace Extra
open TT.Proto

def floatsX (g : List String) : Option (List Float) := g.mapM parseFloatBits
def intsX (g : List String) : Option (List Int) := g.mapM parseInt
def showFX (l : List Float) : String := " ".intercalate (l.map floatBits)
def seedL (l : List Float) (i : Nat) : List DFx := l.zipIdx.map fun (x, j) => ⟨x, if j = i then 1.0 else 0.0⟩
def constL (l : List Float) : List DFx := l.map fun x => ⟨x, 0.0⟩
def cD (x : Float) : DFx := ⟨x, 0.0⟩

/-- value and gradient of `f` over the concatenation of the groups `gs` -/
def gradG (gs : List (List Float)) (f : List (List DFx) → DFx) : List Float :=
  let v := (f (gs.map constL)).v
  let total := gs.zipIdx.flatMap fun (g, gi) => (List.range g.length).map fun i => (gi, i)
  v :: total.map fun (gi, i) =>
    (f (gs.zipIdx.map fun (g, gj) => if gj = gi then seedL g i else constL g)).d

def envDx (l : List DFx) : Nat → DFx := fun i => l.getD i ⟨0.0, 0.0⟩

/-- the divisor list of the GMRF variant -/
def gmrfWeights (mode : String) (extra : List DFx) : Option (Option (List DFx)) :=
  match mode with
  | "P" => some none
  | "W" => some (some extra)
  | "T0" => some (some (C20.timeAwareWeights false extra))
  | "T1" => some (some (C20.timeAwareWeights true extra))
  | _ => none

end Extra

open Extra in
def handleExtra (op : String) (args : List String) (gs : List (List String)) : Option String := do
  match op, args, gs with
  | "coal2_def", ["exp"], [θg, h, _] =>
    let θg ← floatsX θg; let h ← floatsX h
    if h.length % 2 == 0 || θg.length != 2 then none
    let out := gradG [θg, h] fun g =>
      match g with
      | [[θ, gr], hd] => C08.exponentialLogProb θ gr hd
      | _ => ⟨0.0, 0.0⟩
    pure (showFX out)
  | "coal2_def", ["linear"], [θ, h, grid] =>
    let θ ← floatsX θ; let h ← floatsX h; let grid ← floatsX grid
    if h.length % 2 == 0 || θ.length != grid.length + 1 then none
    let out := gradG [θ, h] fun g =>
      match g with
      | [θd, hd] => C08.linearLogProb θd (constL grid) hd
      | _ => ⟨0.0, 0.0⟩
    pure (showFX out)
  | "coal2_def", ["soft"], [τ, θ, h, grid] =>
    let τ ← floatsX τ; let θ ← floatsX θ; let h ← floatsX h; let grid ← floatsX grid
    if h.length % 2 == 0 || θ.length != grid.length + 1 || τ.length != 1 then none
    let out := gradG [θ, h] fun g =>
      match g with
      | [θd, hd] => C08.softLogProb (cD (τ.headD 1.0)) θd (constL grid) hd
      | _ => ⟨0.0, 0.0⟩
    pure (showFX out)
  | "exp_expr", [], [θg, ts, marks] =>
    let θg ← floatsX θg; let ts ← floatsX ts; let marks ← intsX marks
    if marks.length != ts.length || θg.length != 2 then none
    let e := exponentialE (var 0) (var 1) ((List.range ts.length).map fun j => var (2 + j)) marks
    pure (showFX (gradG [θg, ts] fun g => eval (envDx g.flatten) e))
  | "gmrf_def", [mode], [x, tc, extra] =>
    let x ← floatsX x; let tc ← floatsX tc; let extra ← floatsX extra
    match tc with
    | [_, c] =>
      let _ ← gmrfWeights mode (constL extra)
      if mode == "W" && extra.length + 1 != x.length then none
      if (mode == "T0" || mode == "T1") && extra.length != x.length then none
      let groups := if mode == "T0" || mode == "T1" then [x, [tc.headD 1.0], extra] else [x, [tc.headD 1.0]]
      let out := gradG groups fun g =>
        match g with
        | [xd, [τd], ed] =>
          C20.gmrfLogProb (cD c) τd (C20.scaledDiffSq ((gmrfWeights mode ed).getD none) xd) xd.length
        | [xd, [τd]] =>
          C20.gmrfLogProb (cD c) τd (C20.scaledDiffSq ((gmrfWeights mode (constL extra)).getD none) xd) xd.length
        | _ => ⟨0.0, 0.0⟩
      pure (showFX out)
    | _ => none
  | "gint_def", [mode], [x, ps, extra] =>
    let x ← floatsX x; let ps ← floatsX ps; let extra ← floatsX extra
    match ps with
    | [c, sh, rt, lgA, lgAd] =>
      let w ← gmrfWeights mode (constL extra)
      if mode == "W" && extra.length + 1 != x.length then none
      if (mode == "T0" || mode == "T1") && extra.length != x.length then none
      let out := gradG [x] fun g =>
        match g with
        | [xd] => C20.gammaIntegratedLogProb (cD c) (cD sh) (cD rt) (cD lgA) (cD lgAd) (C20.scaledDiffSq w xd) xd.length
        | _ => ⟨0.0, 0.0⟩
      pure (showFX out)
    | _ => none
  | "gint_expr", [], [x, ps, w] =>
    let x ← floatsX x; let ps ← floatsX ps; let w ← floatsX w
    if ps.length != 5 then none
    if w.length != 0 && w.length + 1 != x.length then none
    let n := x.length
    let e := gintE ((List.range n).map var) (if w.isEmpty then none else some ((List.range w.length).map fun j => var (n + 5 + j)))
      (var n) (var (n + 1)) (var (n + 2)) (var (n + 3)) (var (n + 4))
    let all := gradG [x, ps, w] fun g => eval (envDx g.flatten) e
    -- value, d/dx…, d/drate (variable n + 2)
    pure (showFX (all.take (n + 1) ++ [all.getD (n + 3) 0.0]))
  | _, _, _ => none

end TT.C12
