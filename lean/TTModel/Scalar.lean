/-!
# Scalars shared by every numeric model (core Lean only)

Numeric models are written ONCE, polymorphic in the scalar `α`, using only the core classes
`Add Sub Mul Div Neg Zero One` (+ `LT`/`LE` with decidability where the code branches on
comparisons) and the class `Trans` below for transcendental functions.  They are then
* proved about at `ℝ` / any `CommSemiring` / `Field` in `TTProofs` (instance `Trans ℝ` lives in
  `TTProofs/Lemmas/ScalarReal.lean`),
* executed at `Rat` (exact) and `Float` (IEEE double) by the drivers.
-/
namespace TT

/-- transcendental functions a model may use -/
class Trans (α : Type) where
  exp : α → α
  log : α → α
  sqrt : α → α
  pow : α → α → α

instance : Trans Float := ⟨Float.exp, Float.log, Float.sqrt, Float.pow⟩

instance : Zero Float := ⟨0.0⟩
instance : One Float := ⟨1.0⟩

/-- sum over `Fin n` as a list sum: executable, and equal to `∑ i, f i` (`TTProofs/Lemmas/Sums.lean`) -/
def sumFin {α} [Add α] [Zero α] {n : Nat} (f : Fin n → α) : α :=
  ((List.finRange n).map f).sum

/-- product over `Fin n` -/
def prodFin {α} [Mul α] [One α] {n : Nat} (f : Fin n → α) : α :=
  ((List.finRange n).map f).foldr (· * ·) 1

/-- forward-mode dual numbers: (value, tangent). Running a model at `Dual α` yields its derivative. -/
structure Dual (α : Type) where
  v : α
  d : α
deriving Repr, Inhabited

namespace Dual
variable {α : Type}
def const [Zero α] (x : α) : Dual α := ⟨x, 0⟩
def var [One α] (x : α) : Dual α := ⟨x, 1⟩
instance [Zero α] : Zero (Dual α) := ⟨⟨0, 0⟩⟩
instance [One α] [Zero α] : One (Dual α) := ⟨⟨1, 0⟩⟩
instance [Add α] : Add (Dual α) := ⟨fun a b => ⟨a.v + b.v, a.d + b.d⟩⟩
instance [Sub α] : Sub (Dual α) := ⟨fun a b => ⟨a.v - b.v, a.d - b.d⟩⟩
instance [Neg α] : Neg (Dual α) := ⟨fun a => ⟨-a.v, -a.d⟩⟩
instance [Add α] [Mul α] : Mul (Dual α) := ⟨fun a b => ⟨a.v * b.v, a.d * b.v + a.v * b.d⟩⟩
instance [Add α] [Sub α] [Mul α] [Div α] : Div (Dual α) :=
  ⟨fun a b => ⟨a.v / b.v, (a.d * b.v - a.v * b.d) / (b.v * b.v)⟩⟩
instance [Add α] [Sub α] [Mul α] [Div α] [One α] [Trans α] : Trans (Dual α) where
  exp a := ⟨Trans.exp a.v, a.d * Trans.exp a.v⟩
  log a := ⟨Trans.log a.v, a.d / a.v⟩
  sqrt a := ⟨Trans.sqrt a.v, a.d / (Trans.sqrt a.v + Trans.sqrt a.v)⟩
  -- d(a^b) = a^b * (b' log a + b a'/a)
  pow a b := ⟨Trans.pow a.v b.v, Trans.pow a.v b.v * (b.d * Trans.log a.v + b.v * a.d / a.v)⟩
end Dual

end TT
