/-!
# C14 — the evaluation-request protocol of a variational objective

An objective (`ELBO`, `KLpq`, `VR`, `CUBO` …) is a `CallableModel`.  `CallableModel.__call__` returns
the stored value while `lp_needs_update` is clear; a class that overrides `__call__` without that
test recomputes — i.e. asks `q` for a new draw — on every request.  Which of the two a class does
is read off the source by `tr_wiring.py` (`guards` of the generated row: is there a guard in
`__call__`).  The draw a request's value was computed from is all that is modelled here.
-/
namespace TT.C14

/-- what happens between two requests -/
inductive Ev
  /-- somebody calls the objective -/
  | request
  /-- a change notification reaches the objective (optimiser step, explicit fire) -/
  | notify
deriving DecidableEq, Repr

structure ObjState where
  /-- number of draws made so far (`q.rsample` / `q.sample` calls) -/
  draws : Nat
  /-- draw the stored value `lp` was computed from -/
  cached : Nat
  dirty : Bool
deriving DecidableEq, Repr

/-- one event; `guarded`: does `__call__` test `lp_needs_update` (the inherited behaviour).
Returns the draw index the answer was computed from (requests only). -/
def stepObj (guarded : Bool) (s : ObjState) : Ev → ObjState × Option Nat
  | .notify => ({ s with dirty := true }, none)
  | .request =>
    if guarded && !s.dirty then (s, some s.cached)
    else
      -- `_call`: draw (the draw itself notifies the objective through q), evaluate p and q, store
      let d := s.draws + 1
      ({ draws := d, cached := d, dirty := false }, some d)

def runObj (guarded : Bool) : ObjState → List Ev → List Nat
  | _, [] => []
  | s, e :: es =>
    let r := stepObj guarded s e
    match r.2 with
    | some d => d :: runObj guarded r.1 es
    | none => runObj guarded r.1 es

def initObj : ObjState := { draws := 0, cached := 0, dirty := true }

/-- the estimator a call of `ELBO._call` computes -/
inductive ElboBranch | score | multi | analytic | mc | unknown
deriving DecidableEq, Repr, Inhabited

/-- one row of the generated branch table: options, rank of the sample shape, is its last dimension 1 -/
structure ElboCase where
  score : Bool
  entropy : Bool
  rank : Nat
  last1 : Bool
  branch : ElboBranch
deriving DecidableEq, Repr, Inhabited

/-- the branch the model (and the theorems `tight_*`) assign: the score surrogate when asked for; otherwise the
RANK of the sample shape alone decides — every two-dimensional shape, `[N,1]` and `[1,1]` included, is the
multi-sample estimator (which ignores `entropy`); a one-dimensional shape is the analytic-entropy or the
Monte-Carlo ELBO -/
def ElboCase.expected (c : ElboCase) : ElboBranch :=
  if c.score then .score else if c.rank = 2 then .multi else if c.entropy then .analytic else .mc

end TT.C14
