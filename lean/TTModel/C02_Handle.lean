import TTModel.C01_Handle
import TTModel.C02_Names
/-!
C02 request handler: the C01 requests plus

  rootings <mode> | <prefix tree>       -> every rooting (`allRootings`), `;`-separated prefix trees
  reroot   <mode> | <moves l r s w …> | <prefix tree>  -> the tree after the moves
  likn     <mode> S K N | <prefix tree with branch ids> | <π> | <props> | <mats by branch id> | <names…> | <data name·N·S>
                                         -> name-based likelihood `likN` per site

prefix tree: `N <branch> <left> <right>` | `L <name> <branch>`.
-/
open TT TT.Proto TT.C01 TT.C02 TT.C01.Drv

namespace TT.C02.Drv

def parsePrefix {β : Type} (pb : String → Option β) : Nat → List String → Option (LTree β × List String)
  | 0, _ => none
  | fuel + 1, "N" :: b :: rest => do
    let b ← pb b
    let (l, r1) ← parsePrefix pb fuel rest
    let (r, r2) ← parsePrefix pb fuel r1
    pure (.node l r b, r2)
  | _ + 1, "L" :: nm :: b :: rest => do
    let b ← pb b
    pure (.leaf nm b, rest)
  | _, _ => none

def parseLTree {β : Type} (pb : String → Option β) (ws : List String) : Option (LTree β) :=
  match parsePrefix pb (ws.length + 1) ws with
  | some (t, []) => some t
  | _ => none

def showLTree {β : Type} (sb : β → String) : LTree β → String
  | .leaf nm b => s!"L {nm} {sb b}"
  | .node l r b => s!"N {sb b} {showLTree sb l} {showLTree sb r}"

def parseMove : String → Option Move
  | "l" => some .left | "r" => some .right | "s" => some .swap | "w" => some .swapLeft | _ => none

section generic
variable {α : Type} [Add α] [Sub α] [Mul α] [Zero α] [One α] [Inhabited α] [Wire α] [TT.Trans α]

def doRootings (secs : List (List String)) : String :=
  match secs with
  | [ws] =>
    match parseLTree (β := α) Wire.parse ws with
    | some t => "ok " ++ " ; ".intercalate ((allRootings t).map (showLTree Wire.render))
    | none => "bad-op"
  | _ => "bad-op"

def doReroot (secs : List (List String)) : String :=
  match secs with
  | [ms, ws] =>
    match ms.mapM parseMove, parseLTree (β := α) Wire.parse ws with
    | some ms, some t => "ok " ++ showLTree Wire.render (reroot ms t)
    | _, _ => "bad-op"
  | _ => "bad-op"

def doLikN (S K N : Nat) (secs : List (List String)) : String :=
  match secs with
  | [ws, pi, pr, ms, names, dat] =>
    match parseLTree (β := Nat) (·.toNat?) ws, parseScalars (α := α) pi, parseScalars (α := α) pr,
          parseScalars (α := α) ms, parseScalars (α := α) dat with
    | some t, some pi, some pr, some ms, some dat =>
      if pi.size ≠ S || pr.size ≠ K || dat.size ≠ names.length * N * S then "bad-op" else
      let mats := matsOf K S ms
      let liks := (List.range N).map fun p =>
        some (likN (vecOf pi 0) (vecOf (S := K) pr 0) (fun b k => mats b k)
          (fun nm => vecOf dat ((names.idxOf nm * N + p) * S)) t)
      finishLik (α := α) liks none
    | _, _, _, _, _ => "bad-op"
  | _ => "bad-op"

end generic

def handle (line : String) : String :=
  match sections line with
  | ["rootings", m] :: rest =>
    if m = "q" then doRootings (α := Rat) rest else if m = "f" then doRootings (α := Float) rest else "bad-op"
  | ["reroot", m] :: rest =>
    if m = "q" then doReroot (α := Rat) rest else if m = "f" then doReroot (α := Float) rest else "bad-op"
  | ["likn", m, s, k, nn] :: rest =>
    match s.toNat?, k.toNat?, nn.toNat? with
    | some s, some k, some nn =>
      if m = "q" then doLikN (α := Rat) s k nn rest
      else if m = "f" then doLikN (α := Float) s k nn rest else "bad-op"
    | _, _, _ => "bad-op"
  | _ => TT.C01.Drv.handle line

end TT.C02.Drv
