import TTModel.Scalar
/-!
# C04 — substitution models (`torchtree/evolution/substitution_model/*.py`), as written

Executable, polymorphic in the scalar (core Lean only).  A matrix is `Mat n α = Fin n → Fin n → α`.

* rate-matrix builders `q()`: `jc69Q`, `hkyQ`, `gtrQ`, `generalJC69Q n`, `generalSymQ`
  (`GeneralSymmetricSubstitutionModel.q`, any mapping), `generalNonSymQ`
  (`GeneralNonSymmetricSubstitutionModel.q`, two mapping halves), `empiricalQ`
  (`EmpiricalSubstitutionModel.create_rate_matrix`), `mg94Q` (`MG94.q`, masks computed from the
  genetic-code table exactly as `MG94.__init__` does);
* `norm` (`AbstractSubstitutionModel.norm`), `normalised Q π = Q / norm`;
* closed forms `jc69P` (`JC69.p_t`), `generalJC69P n` (`GeneralJC69.p_t`);
* `recon`: `SymmetricSubstitutionModel.p_t` / `EmpiricalSubstitutionModel.p_t`
  `(sqrt_pi_inv @ v) @ diag(exp(e t)) @ (v.inverse() @ sqrt_pi)` with `(e, v, v.inverse())`
  PARAMETERS (the result of `torch.linalg.eigh`, trusted base), and `symmetrised`
  (`sqrt_pi @ Q @ sqrt_pi_inv`, the matrix handed to `eigh`).
-/
namespace TT.C04

abbrev Mat (n : Nat) (α : Type) := Fin n → Fin n → α

section
variable {α : Type} [Add α] [Sub α] [Mul α] [Div α] [Neg α] [Zero α] [One α] [NatCast α]

def mmul {n : Nat} (A B : Mat n α) : Mat n α := fun i j => sumFin fun k => A i k * B k j

def ident {n : Nat} : Mat n α := fun i j => if i = j then 1 else 0

/-- position of `(i, j)`, `i < j`, in `torch.triu_indices(n, n, 1)` (row-major upper triangle) -/
def triuIndex (n i j : Nat) : Nat := i * n - i * (i + 1) / 2 + (j - i - 1)

/-- `R[triu[0], triu[1]] = r; R[triu[1], triu[0]] = r` on a zero matrix: symmetric, zero diagonal -/
def symR {n : Nat} (r : Nat → α) : Mat n α := fun i j =>
  if i.val < j.val then r (triuIndex n i.val j.val)
  else if j.val < i.val then r (triuIndex n j.val i.val)
  else 0

/-- upper triangle from `up`, lower triangle from `lo` (GeneralNonSymmetric) -/
def nonSymR {n : Nat} (up lo : Nat → α) : Mat n α := fun i j =>
  if i.val < j.val then up (triuIndex n i.val j.val)
  else if j.val < i.val then lo (triuIndex n j.val i.val)
  else 0

/-- `Q = R @ diag(pi); Q[diag] = -sum(Q, -1)` -/
def fromR {n : Nat} (R : Mat n α) (π : Fin n → α) : Mat n α := fun i j =>
  if i = j then -(sumFin fun k => R i k * π k) else R i j * π j

/-- `AbstractSubstitutionModel.norm`: `-sum(diagonal(Q) * frequencies)` -/
def norm {n : Nat} (Q : Mat n α) (π : Fin n → α) : α := -(sumFin fun i => Q i i * π i)

/-- `Q_unnorm / norm(Q_unnorm)` -/
def normalised {n : Nat} (Q : Mat n α) (π : Fin n → α) : Mat n α := fun i j => Q i j / norm Q π

/-- `JC69.q()`: the literal matrix -/
def jc69Q : Mat 4 α := fun i j => if i = j then -1 else 1 / ((3 : Nat) : α)

/-- `JC69.frequencies` -/
def jc69Freq : Fin 4 → α := fun _ => 1 / ((4 : Nat) : α)

/-- `HKY.q()` entry by entry, in the order of the `torch.cat` -/
def hkyQ (κ : α) (π : Fin 4 → α) : Mat 4 α := fun i j =>
  match i.val, j.val with
  | 0, 0 => -(π 1 + κ * π 2 + π 3)
  | 0, 1 => π 1
  | 0, 2 => κ * π 2
  | 0, 3 => π 3
  | 1, 0 => π 0
  | 1, 1 => -(π 0 + π 2 + κ * π 3)
  | 1, 2 => π 2
  | 1, 3 => κ * π 3
  | 2, 0 => κ * π 0
  | 2, 1 => π 1
  | 2, 2 => -(κ * π 0 + π 1 + π 3)
  | 2, 3 => π 3
  | 3, 0 => π 0
  | 3, 1 => κ * π 1
  | 3, 2 => π 2
  | 3, 3 => -(π 0 + κ * π 1 + π 2)
  | _, _ => 0

/-- `GTR.q()` entry by entry; `r = (a, b, c, d, e, f)` -/
def gtrQ (r : Fin 6 → α) (π : Fin 4 → α) : Mat 4 α := fun i j =>
  match i.val, j.val with
  | 0, 0 => -(r 0 * π 1 + r 1 * π 2 + r 2 * π 3)
  | 0, 1 => r 0 * π 1
  | 0, 2 => r 1 * π 2
  | 0, 3 => r 2 * π 3
  | 1, 0 => r 0 * π 0
  | 1, 1 => -(r 0 * π 0 + r 3 * π 2 + r 4 * π 3)
  | 1, 2 => r 3 * π 2
  | 1, 3 => r 4 * π 3
  | 2, 0 => r 1 * π 0
  | 2, 1 => r 3 * π 1
  | 2, 2 => -(r 1 * π 0 + r 3 * π 1 + r 5 * π 3)
  | 2, 3 => r 5 * π 3
  | 3, 0 => r 2 * π 0
  | 3, 1 => r 4 * π 1
  | 3, 2 => r 5 * π 2
  | 3, 3 => -(r 2 * π 0 + r 4 * π 1 + r 5 * π 2)
  | _, _ => 0

/-- `GeneralJC69.q()`: `full(1.0 / (n - 1))`, diagonal `-1.0` -/
def generalJC69Q (n : Nat) : Mat n α := fun i j => if i = j then -1 else 1 / ((n - 1 : Nat) : α)

/-- `GeneralJC69.frequencies`: `full(1.0 / n)` -/
def generalJC69Freq (n : Nat) : Fin n → α := fun _ => 1 / (n : α)

/-- `GeneralSymmetricSubstitutionModel.q()`: `R[upper k] = R[lower k] = rates[mapping[k]]` -/
def generalSymQ {n : Nat} (mapping : Nat → Nat) (rates : Nat → α) (π : Fin n → α) : Mat n α :=
  fromR (symR fun k => rates (mapping k)) π

/-- `GeneralNonSymmetricSubstitutionModel.q()`: `dim = len(mapping) / 2`; upper triangle from
`mapping[:dim]`, lower from `mapping[dim:]` -/
def generalNonSymQ {n : Nat} (dim : Nat) (mapping : Nat → Nat) (rates : Nat → α) (π : Fin n → α) :
    Mat n α :=
  fromR (nonSymR (fun k => rates (mapping k)) (fun k => rates (mapping (dim + k)))) π

/-- `EmpiricalSubstitutionModel.create_rate_matrix` -/
def empiricalQ {n : Nat} (rates : Nat → α) (π : Fin n → α) : Mat n α := fromR (symR rates) π

/-- `where(transitions == 1, kappa, 1) * where(synonymous == 1, alpha, 1) *
where(non_synonymous == 1, beta, 1)` for one pair -/
def mg94Rate (alpha beta kappa : α) (m : Bool × Bool × Bool) : α :=
  (if m.1 then kappa else 1) * (if m.2.1 then alpha else 1) * (if m.2.2 then beta else 1)

/-- `MG94.q()`; `mask k = (transitions[k], synonymous[k], non_synonymous[k])` -/
def mg94Q {n : Nat} (mask : Nat → Bool × Bool × Bool) (alpha beta kappa : α) (π : Fin n → α) :
    Mat n α :=
  fromR (symR fun k => mg94Rate alpha beta kappa (mask k)) π

variable [Trans α]

/-- `JC69.p_t`: `a = 0.25 + 3.0/4.0 * exp(-4.0/3.0 * d)`, `b = 0.25 - 0.25 * exp(-4.0/3.0 * d)` -/
def jc69P (t : α) : Mat 4 α := fun i j =>
  let quarter : α := 1 / ((4 : Nat) : α)
  let ex : α := Trans.exp (-((4 : Nat) : α) / ((3 : Nat) : α) * t)
  if i = j then quarter + ((3 : Nat) : α) / ((4 : Nat) : α) * ex else quarter - quarter * ex

/-- `GeneralJC69.p_t`: `a = 1.0/n + (n - 1.0)/n * exp(-n/(n - 1.0) * d)`,
`b = 1.0/n - exp(-n/(n - 1.0) * d)/n` -/
def generalJC69P (n : Nat) (t : α) : Mat n α := fun i j =>
  let ex : α := Trans.exp (-(n : α) / ((n : α) - 1) * t)
  if i = j then 1 / (n : α) + ((n : α) - 1) / (n : α) * ex else 1 / (n : α) - ex / (n : α)

/-- `sqrt_pi @ Q @ sqrt_pi_inv`, the matrix handed to `eigh` -/
def symmetrised {n : Nat} (Q : Mat n α) (π : Fin n → α) : Mat n α := fun i j =>
  Trans.sqrt (π i) * Q i j * (1 / Trans.sqrt (π j))

/-- `(sqrt_pi_inv @ v) @ diag(exp(e * t))`: entry `(i,k)` is `(1/sqrt π_i) · V_ik · exp(e_k t)` -/
def reconA {n : Nat} (π : Fin n → α) (V : Mat n α) (e : Fin n → α) (t : α) : Mat n α :=
  fun i k => (1 / Trans.sqrt (π i)) * V i k * Trans.exp (e k * t)

/-- `v.inverse() @ sqrt_pi`: entry `(k,j)` is `Vinv_kj · sqrt π_j` -/
def reconB {n : Nat} (π : Fin n → α) (Vinv : Mat n α) : Mat n α :=
  fun k j => Vinv k j * Trans.sqrt (π j)

/-- `(sqrt_pi_inv @ v) @ diag(exp(e * t)) @ (v.inverse() @ sqrt_pi)` with `e, v, v.inverse()` parameters -/
def recon {n : Nat} (π : Fin n → α) (V Vinv : Mat n α) (e : Fin n → α) (t : α) : Mat n α :=
  mmul (reconA π V e t) (reconB π Vinv)

end

/-! ## masks of `MG94.__init__`, computed from the genetic-code table and the codon triplets -/

/-- `coding_indices`: positions `i < 64` whose table entry is not a stop
(tables and triplets are lists of characters so that everything reduces in the kernel) -/
def codingIndices (table : List Char) : List Nat :=
  (List.range 64).filter fun i => table.getD i '*' != '*'

def isTransitionPair (a b : Char) : Bool :=
  (a == 'A' && b == 'G') || (a == 'G' && b == 'A') || (a == 'C' && b == 'T') || (a == 'T' && b == 'C')

/-- the body of the loop over `combinations(triplets, 2)` for the pair of coding positions `(x, y)`:
`(transitions, synonymous, non_synonymous)` -/
def pairMask (table : List Char) (triplets : List (List Char)) (coding : List Nat) (x y : Nat) :
    Bool × Bool × Bool :=
  let cx := coding.getD x 0
  let cy := coding.getD y 0
  let c1 := triplets.getD cx []
  let c2 := triplets.getD cy []
  let diff := List.zipWith (fun a b => a != b) c1 c2
  if (diff.filter id).length == 1 then
    let idx := diff.findIdx id
    let ts := isTransitionPair (c1.getD idx ' ') (c2.getD idx ' ')
    let same := table.getD cx '*' == table.getD cy '*'
    (ts, same, !same)
  else (false, false, false)

/-- masks in `combinations` order (= `triu_indices` order) -/
def mg94Masks (table : List Char) (triplets : List (List Char)) : Array (Bool × Bool × Bool) :=
  let coding := codingIndices table
  let n := coding.length
  ((List.range n).flatMap fun x =>
    ((List.range n).filter fun y => x < y).map fun y => pairMask table triplets coding x y).toArray

end TT.C04
