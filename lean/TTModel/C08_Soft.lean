import TTModel.Scalar
import TTModel.C08_Coalescent
import TTModel.C08_Linear
/-!
# C08 — executable model of `SoftPiecewiseConstantCoalescentGrid.log_prob` with a temperature

As written in `coalescent.py` / `ops/smooth.py`:

* events: `torch.unique` sampling times with multiplicities, internal heights (mask `-1`), grid (mask `0`);
* `soft_sort(-heights, τ)`: row `i` of the relaxed permutation is `softmax_j(-|sorted_i - h_j| / τ)`
  (`sorted` = heights in increasing order); soft-sorted heights and masks are `P @ heights`, `P @ mask`;
* lineage counts `cumsum(mask_sorted)[:-1]` (now real numbers), `lchoose2 = l (l - 1) / 2`, durations = differences of
  the soft-sorted heights;
* for an event time `t`: `d_k = t - grid0_k` (`grid0 = [0] ++ grid`),
  `w = softmax_k( softmax_k(cumsum_k(d / τ)) · d / τ )`, population size `Σ_k w_k θ_k`
  — used at the soft-sorted heights `[1:]` for the interval terms and at the internal node heights for the log terms;
* `log p = Σ_i -lchoose2_i · dur_i / θ̃_i - Σ_c log θ̃(c)`.

`torch.softmax` subtracts the maximum before exponentiating; the model does the same (equal over ℝ).
-/
namespace TT.C08

variable {α : Type}

section soft
variable [LE α] [DecidableLE α] [Add α] [Sub α] [Mul α] [Div α] [Neg α] [Zero α] [One α] [IntCast α]
  [OfNat α 2] [Trans α]

/-- maximum of a list (first element as start) -/
def maxList : List α → α
  | [] => 0
  | x :: xs => xs.foldl (fun a b => if a ≤ b then b else a) x

/-- `torch.softmax(xs, -1)` -/
def softmax (xs : List α) : List α :=
  let m := maxList xs
  let es := xs.map fun x => Trans.exp (x - m)
  let s := es.sum
  es.map fun e => e / s

def absα (x : α) : α := if 0 ≤ x then x else -x

/-- dot product `Σ w_k x_k` (a row of `P @ x`) -/
def dot (w x : List α) : α := (List.zipWith (fun a b => a * b) w x).sum

/-- rows of `soft_sort(-heights, τ)` -/
def softSortRows (τ : α) (heights : List α) : List (List α) :=
  let sorted := times (sortEvents (heights.map fun h => (⟨h, 0⟩ : Ev α)))
  sorted.map fun s => softmax (heights.map fun h => -(absα (s - h)) / τ)

/-- the weights over the pieces at time `t`:
`softmax( softmax(cumsum((t - grid0)/τ)) · (t - grid0) / τ )` -/
def pieceWeights (τ : α) (grid : List α) (t : α) : List α :=
  let d := ((0 : α) :: grid).map fun g => t - g
  let inner := softmax (cumsum (d.map fun x => x / τ))
  softmax (List.zipWith (fun w x => w * x / τ) inner d)

/-- soft population size at time `t` -/
def softTheta (τ : α) (θ grid : List α) (t : α) : α := dot (pieceWeights τ grid t) θ

/-- the relaxed events: (heights, masks as scalars) -/
def softEvents (heights grid : List α) : List α × List α :=
  let n := taxaCount heights
  let u := uniqueCounts (heights.take n)
  (u.map (·.1) ++ heights.drop n ++ grid,
   u.map (fun p => (((p.2 : Nat) : Int) : α)) ++ (heights.drop n).map (fun _ => (-1 : α)) ++ grid.map (fun _ => (0 : α)))

/-- soft-sorted heights and masks -/
def softSorted (τ : α) (heights grid : List α) : List α × List α :=
  let ev := softEvents heights grid
  let P := softSortRows τ ev.1
  (P.map fun row => dot row ev.1, P.map fun row => dot row ev.2)

/-- `Σ lchoose2 · durations` of the relaxed events, each term divided by its soft population size -/
def softIntegral (τ : α) (θ grid heights : List α) : α :=
  let s := softSorted τ heights grid
  let lin := (cumsum s.2).dropLast
  let dur := diffs s.1
  let th := s.1.tail.map fun t => softTheta τ θ grid t
  (zipWith3 (fun l d t => l * (l - 1) / 2 * d / t) lin dur th).sum

/-- `Σ_c log θ̃(c)` over the internal node heights -/
def softLogs (τ : α) (θ grid heights : List α) : α :=
  ((heights.drop (taxaCount heights)).map fun c => Trans.log (softTheta τ θ grid c)).sum

/-- `SoftPiecewiseConstantCoalescentGrid(thetas, grid, temperature).log_prob` -/
def softLogProb (τ : α) (θ grid heights : List α) : α :=
  -(softIntegral τ θ grid heights) - softLogs τ θ grid heights

/-- the statistic `Σ lchoose2 · durations` of the relaxed events (no population size) -/
def softStat (τ : α) (grid heights : List α) : α :=
  let s := softSorted τ heights grid
  (List.zipWith (fun l d => l * (l - 1) / 2 * d) (cumsum s.2).dropLast (diffs s.1)).sum

end soft

end TT.C08
