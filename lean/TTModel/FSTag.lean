import TTModel.FS
/-!
# C18 — the file-system model with payload identities

`TT.FS` abstracts a file to absent / truncated / complete. Here a complete file also carries
*which* payload it holds (`α`: a generation number, or a label), so that "the previous or the
new checkpoint — never an older one, never a mixture" can be stated. The operations never
inspect a payload; `erase` forgets the payloads and commutes with execution (`TTProofs`),
which ties this model to `TT.FS` and, through the correspondence check, to the code.
Core Lean only: linked into the compiled driver.
-/
namespace TT.FSTag
open TT.FS

inductive TContent (α : Type) where
  | absent | trunc | complete (a : α)
deriving DecidableEq, Repr, Inhabited

structure TSt (α : Type) where
  name : TContent α
  new : TContent α
  old : TContent α
deriving DecidableEq, Repr, Inhabited

variable {α β : Type}

def TContent.erase : TContent α → Content
  | .absent => .absent | .trunc => .trunc | .complete _ => .complete

def TContent.map (h : α → β) : TContent α → TContent β
  | .absent => .absent | .trunc => .trunc | .complete a => .complete (h a)

def TSt.erase (s : TSt α) : St := ⟨s.name.erase, s.new.erase, s.old.erase⟩

def TSt.map (h : α → β) (s : TSt α) : TSt β := ⟨s.name.map h, s.new.map h, s.old.map h⟩

def TSt.get (s : TSt α) : Path → TContent α
  | .name => s.name | .new => s.new | .old => s.old

def TSt.set (s : TSt α) : Path → TContent α → TSt α
  | .name, c => { s with name := c }
  | .new, c => { s with new := c }
  | .old, c => { s with old := c }

/-- `TT.FS.step` with payloads: the write in progress carries payload `a`; `finishWrite`
makes the file a complete copy of `a`; `rename` moves whatever the source holds. -/
def tstep (a : α) (s : TSt α) : Op → Option (TSt α)
  | .openTrunc p => some (s.set p .trunc)
  | .writeChunk p => if (s.get p).erase = .absent then none else some (s.set p .trunc)
  | .finishWrite p => if (s.get p).erase = .absent then none else some (s.set p (.complete a))
  | .rename x y => if (s.get x).erase = .absent then none else some ((s.set y (s.get x)).set x .absent)
  | .remove p => if (s.get p).erase = .absent then none else some (s.set p .absent)

/-- `TT.FS.runProg` with payloads (conditions only look at which files exist) -/
def trunProg (f : Flags) (a : α) : TSt α → Prog → Nat → TSt α
  | s, .done, _ => s
  | s, .seq o rest, k =>
    match k with
    | 0 => s
    | k + 1 =>
      match tstep a s o with
      | none => s
      | some s' => trunProg f a s' rest k
  | s, .ite c t e, k => if c.eval f s.erase then trunProg f a s t k else trunProg f a s e k

/-- run explicit operations, stopping (state kept) at the first one that raises -/
def trun (a : α) (s : TSt α) : List Op → TSt α
  | [] => s
  | op :: ops => match tstep a s op with
    | none => s
    | some s' => trun a s' ops

/-- the checkpoint a restart would use: the file under the name if it is complete, else `.old` -/
def best (s : TSt α) : Option α :=
  match s.name with
  | .complete x => some x
  | _ => match s.old with
    | .complete y => some y
    | _ => none

/-- labels: where a payload came from — what the name / `.new` / `.old` held before the write,
or the payload being written -/
inductive Lbl | n0 | w0 | o0 | fresh
deriving DecidableEq, Repr, Inhabited

/-- a directory shape with every complete file labelled by its own position -/
def pos (s : St) : TSt Lbl :=
  ⟨match s.name with | .complete => .complete .n0 | .trunc => .trunc | .absent => .absent,
   match s.new with | .complete => .complete .w0 | .trunc => .trunc | .absent => .absent,
   match s.old with | .complete => .complete .o0 | .trunc => .trunc | .absent => .absent⟩

/-- the payloads of a state, read back as an interpretation of the labels (`a` = the payload
being written, also the default for files that hold none) -/
def interp (a : α) (s : TSt α) : Lbl → α
  | .n0 => match s.name with | .complete x => x | _ => a
  | .w0 => match s.new with | .complete x => x | _ => a
  | .o0 => match s.old with | .complete x => x | _ => a
  | .fresh => a

/-- every complete file of `s'` holds a payload that was complete somewhere in `s`, or `a` -/
def NoMixture (a : α) (s s' : TSt α) : Prop :=
  ∀ p x, s'.get p = .complete x → x = a ∨ ∃ q, s.get q = .complete x

end TT.FSTag
