/-!
# C10 — shapes, sample-shape inference and the shape-dependent reduction of
`JointDistributionModel.log_prob` (core Lean only, executable)

Everything numeric in torchtree is torch broadcasting except ONE place where the reduction applied
to a value is chosen by Python `if`s on shapes: `JointDistributionModel.log_prob`
(`torchtree/distributions/joint_distribution.py`).  For each component it compares the shape `L`
of the component's value `lp`, the sample shape `C` the component reports (`distr.sample_shape`)
and the joint's own sample shape `J` (`self.sample_shape`) and then unsqueezes / flattens-and-sums /
sums the last axis / expands / squeezes / keeps; the pieces are concatenated along the last axis
and summed.  This file mirrors that code branch by branch (same order of tests, same quirks).

Tensors are modelled as a shape and an index → value function, which is all that is needed to say
*which entries are added into which output entry*.
-/
namespace TT.C10

abbrev Shape := List Nat

/-- all multi-indices of a shape in row-major order -/
def indices : Shape → List (List Nat)
  | [] => [[]]
  | d :: ds => (List.range d).flatMap fun i => (indices ds).map (i :: ·)

structure Tensor (α : Type) where
  shape : Shape
  get : List Nat → α

/-! ## sample-shape inference -/

/-- Python `max(shapes, key=len)`: the longest, the FIRST one among equally long ones -/
def longest : List Shape → Shape
  | [] => []
  | [s] => s
  | s :: rest => let r := longest rest; if s.length ≥ r.length then s else r

/-- `Container._sample_shape`: longest `shape[:-1]` among parameters, longest `sample_shape` among
sub-models, then `max(models, parameters, key=len)` (models win ties). Empty groups count as `[]`. -/
def containerSampleShape (paramShapes : List Shape) (modelSampleShapes : List Shape) : Shape :=
  let sp := if paramShapes.isEmpty then [] else longest (paramShapes.map List.dropLast)
  let sm := if modelSampleShapes.isEmpty then [] else longest modelSampleShapes
  if sm.length ≥ sp.length then sm else sp

/-- `TreeLikelihoodModel._sample_shape`, coalescent / BDSK / site / substitution models:
`max([...], key=len)` over the sample shapes of the parts -/
def modelSampleShape (parts : List Shape) : Shape := longest parts

/-- `Distribution._sample_shape` (`x_shape`, `batch_shape` and the number of event dimensions of
the wrapped torch distribution) -/
def distSampleShape (x batch : Shape) (eventLen : Nat) : Shape :=
  if x.length > batch.length then
    let offset := if batch.length = 0 then 1 else batch.length
    x.take (x.length - offset)
  else
    batch.take (batch.length - (x.length - eventLen))

/-! ## the reduction plan of `JointDistributionModel.log_prob` -/

inductive Plan where
  | unsqueezeLast          -- `lp.shape == sample_shape`            : `lp.unsqueeze(-1)`
  | unsqueeze0             -- `lp.shape == []`                      : `lp.unsqueeze(0)`
  | flattenSum (n : Nat)   -- `len(lp.shape) > len(sample_shape)`   : `lp.view(lp.shape[:n] + (-1,)).sum(-1, keepdim=True)`
  | sumLast                -- `lp.shape[-1] != 1`                   : `lp.sum(-1, keepdim=True)`
  | expand                 -- `lp.dim() == 1`                       : `lp.expand(self.sample_shape + (1,))`
  | squeeze0               -- `lp.dim() > 1 and len(self.sample_shape) == 0` : `lp.squeeze(0)`
  | keep                   -- else                                  : `lp`
deriving DecidableEq, Repr

/-- the chain of `if/elif` of `log_prob`, in source order. `L` = `lp.shape`, `C` = the component's
`sample_shape`, `J` = the joint's `sample_shape`. -/
def choosePlan (L C J : Shape) : Plan :=
  if L = C then .unsqueezeLast
  else if L = [] then .unsqueeze0
  else if L.length > C.length then .flattenSum C.length
  else if L.getLast? ≠ some 1 then .sumLast
  else if L.length = 1 then .expand
  else if L.length > 1 ∧ J.length = 0 then .squeeze0
  else .keep

inductive Err where
  | catEmpty        -- `torch.cat` of an empty list
  | catZeroDim      -- zero-dimensional tensors cannot be concatenated
  | catNdim         -- "Tensors must have same number of dimensions"
  | catSize         -- "Sizes of tensors must match except in dimension"
  | expandSize      -- `expand` to an incompatible size
deriving DecidableEq, Repr

variable {α : Type} [Add α] [Zero α]

/-- sum over all trailing indices from axis `n` on, keeping one axis of size 1:
`view(shape[:n] + (-1,)).sum(-1, keepdim=True)` -/
def sumFrom (n : Nat) (t : Tensor α) : Tensor α :=
  ⟨t.shape.take n ++ [1], fun i => ((indices (t.shape.drop n)).map fun e => t.get (i.take n ++ e)).sum⟩

/-- what one branch does to the component's value -/
def applyPlan (p : Plan) (J : Shape) (t : Tensor α) : Except Err (Tensor α) :=
  match p with
  | .unsqueezeLast => .ok ⟨t.shape ++ [1], fun i => t.get i.dropLast⟩
  | .unsqueeze0 => .ok ⟨1 :: t.shape, fun i => t.get i.tail⟩
  | .flattenSum n => .ok (sumFrom n t)
  | .sumLast => .ok (sumFrom (t.shape.length - 1) t)
  | .expand =>
      -- a 1-d tensor expanded to `J ++ [1]`: its only axis must be 1 (it is: this branch is reached
      -- with `lp.shape[-1] == 1`), new leading axes are broadcast
      if t.shape = [1] then .ok ⟨J ++ [1], fun _ => t.get [0]⟩ else .error .expandSize
  | .squeeze0 =>
      match t.shape with
      | 1 :: rest => .ok ⟨rest, fun i => t.get (0 :: i)⟩
      | _ => .ok t
  | .keep => .ok t

/-- `torch.cat(pieces, -1).sum(-1)` -/
def catSumLast (pieces : List (Tensor α)) : Except Err (Tensor α) :=
  match pieces with
  | [] => .error .catEmpty
  | p :: rest =>
    if p.shape = [] then .error .catZeroDim
    else if rest.any (fun q => q.shape.length ≠ p.shape.length) then .error .catNdim
    else if rest.any (fun q => q.shape.dropLast ≠ p.shape.dropLast) then .error .catSize
    else .ok ⟨p.shape.dropLast, fun s =>
      (pieces.map fun q => ((List.range (q.shape.getLastD 0)).map fun j => q.get (s ++ [j])).sum).sum⟩

/-- a component as the joint sees it: its value and the sample shape it reports -/
structure Component (α : Type) where
  value : Tensor α
  claimed : Shape

/-- `log_prob` given the joint's sample shape -/
def jointWith (J : Shape) (comps : List (Component α)) : Except Err (Tensor α) := do
  let pieces ← comps.mapM fun c => applyPlan (choosePlan c.value.shape c.claimed J) J c.value
  catSumLast pieces

/-- the joint's own sample shape: its container holds the components (all of them models here) -/
def jointSampleShape (comps : List (Component α)) : Shape :=
  containerSampleShape [] (comps.map (·.claimed))

/-- `JointDistributionModel.log_prob` -/
def joint (comps : List (Component α)) : Except Err (Tensor α) :=
  jointWith (jointSampleShape comps) comps

/-! ## how many leading axes survive a branch

Every branch except `expand`/`squeeze0` is "sum over all axes from `cut` on, keep one axis of
size 1" (`keep` is reached only when the last axis has size 1, where summing it changes nothing).
A component whose value really is `J ++ E` (sample axes then event axes) is reduced per sample
iff `cut = J.length`; `cut < J.length` adds up different samples. -/

def cut (L C : Shape) : Nat :=
  if L = C then L.length
  else if L = [] then 0
  else if L.length > C.length then C.length
  else L.length - 1

/-- classification of a shape triple for a component whose value has `nSample` leading sample
axes (`L = J' ++ E` with `J'.length = nSample`) -/
inductive Verdict where
  | perSample      -- every output entry sums exactly the event entries of one sample
  | addToAll       -- a one-element value broadcast to every sample (`expand`)
  | mixes          -- an output entry adds up entries of different samples
  | keepsEvent     -- event axes survive as if they were sample axes (no mixing, not fully reduced)
  | other          -- `squeeze0` (unreachable inside a joint, see `squeeze0_unreachable`)
deriving DecidableEq, Repr

def classify (L C J : Shape) (nSample : Nat) : Verdict :=
  match choosePlan L C J with
  | .expand => if nSample = 0 then .addToAll else if J = [1] then .perSample else .other
  | .squeeze0 => .other
  | _ =>
    let c := cut L C
    if c = nSample then .perSample else if c < nSample then .mixes else .keepsEvent

end TT.C10
