/-!
# C18 — file-system model for `save_parameters`

Three paths (the checkpoint name, its `.new` and `.old` siblings), each of which is
absent, truncated (opened for writing, last chunk not yet written) or complete.
Core Lean only: this file is linked into the compiled driver.
(`partial` is a Lean keyword, the truncated state is called `trunc`.)
-/
namespace TT.FS

inductive Content | absent | trunc | complete
deriving DecidableEq, Repr, Inhabited

inductive Path | name | new | old
deriving DecidableEq, Repr, Inhabited

structure St where
  name : Content
  new : Content
  old : Content
deriving DecidableEq, Repr, Inhabited

def St.get (s : St) : Path → Content
  | .name => s.name | .new => s.new | .old => s.old

def St.set (s : St) : Path → Content → St
  | .name, c => { s with name := c }
  | .new, c => { s with new := c }
  | .old, c => { s with old := c }

/-- One file-system operation performed by a checkpoint write. `openTrunc` is `open(p,'w')`
(the file exists and is empty/partial from that instant on); `writeChunk` is any
non-final write (content stays truncated); `finishWrite` is the last chunk + close.
`rename`/`remove` are the POSIX atomic operations. -/
inductive Op
  | openTrunc (p : Path)
  | writeChunk (p : Path)
  | finishWrite (p : Path)
  | rename (a b : Path)
  | remove (p : Path)
deriving DecidableEq, Repr, Inhabited

/-- result of a step: the new state, or `none` when the operation raises (renaming or
removing a file that does not exist) — the Python process then dies with the state unchanged. -/
def step (s : St) : Op → Option St
  | .openTrunc p => some (s.set p .trunc)
  | .writeChunk p => if s.get p = .absent then none else some (s.set p .trunc)
  | .finishWrite p => if s.get p = .absent then none else some (s.set p .complete)
  | .rename a b => if s.get a = .absent then none else some ((s.set b (s.get a)).set a .absent)
  | .remove p => if s.get p = .absent then none else some (s.set p .absent)

/-- run a list of operations, stopping (state kept) at the first one that raises -/
def run (s : St) : List Op → St
  | [] => s
  | op :: ops => match step s op with
    | none => s
    | some s' => run s' ops

/-- the two keyword flags of `save_parameters` -/
structure Flags where
  safely : Bool
  overwrite : Bool
deriving DecidableEq, Repr, Inhabited

/-- boolean conditions the source tests before an operation (`if` conditions over the
flags and `os.path.lexists`), evaluated in the state reached so far -/
inductive BExp
  | tt
  | safely
  | overwrite
  | pathExists (p : Path)
  | not (a : BExp)
  | and (a b : BExp)
  | or (a b : BExp)
deriving DecidableEq, Repr, Inhabited

def BExp.eval (f : Flags) (s : St) : BExp → Bool
  | .tt => true
  | .safely => f.safely
  | .overwrite => f.overwrite
  | .pathExists p => s.get p != .absent
  | .not a => !(a.eval f s)
  | .and a b => a.eval f s && b.eval f s
  | .or a b => a.eval f s || b.eval f s

/-- A write program: operations in sequence, with `if` tests evaluated at the point where
the source evaluates them. The translator writes the code following an `if` statement into
both branches (continuation-passing), so the type is a plain tree and every function on it
is structurally recursive. -/
inductive Prog
  | done
  | seq (o : Op) (rest : Prog)
  | ite (c : BExp) (t e : Prog)
deriving Repr, Inhabited

/-- execute at most `k` operations of a program (a crash after `k` operations); an
operation that raises also ends the execution, state unchanged. -/
def runProg (f : Flags) : St → Prog → Nat → St
  | s, .done, _ => s
  | s, .seq o rest, k =>
    match k with
    | 0 => s
    | k + 1 =>
      match step s o with
      | none => s
      | some s' => runProg f s' rest k
  | s, .ite c t e, k => if c.eval f s then runProg f s t k else runProg f s e k

/-- the operations a complete, uninterrupted execution attempts from `s` (the last one may raise) -/
def effectiveOps (f : Flags) : St → Prog → List Op
  | _, .done => []
  | s, .seq o rest =>
    match step s o with
    | none => [o]
    | some s' => o :: effectiveOps f s' rest
  | s, .ite c t e => if c.eval f s then effectiveOps f s t else effectiveOps f s e

/-- an upper bound on the number of operations of any execution -/
def Prog.depth : Prog → Nat
  | .done => 0
  | .seq _ rest => rest.depth + 1
  | .ite _ t e => max t.depth e.depth

/-- the inductive safety invariant: a complete checkpoint exists under the name or `.old`
(a complete `.new` alone is not enough: the next write truncates it first), and the
checkpoint name itself never refers to a truncated file -/
def CkInv (s : St) : Prop :=
  (s.name = .complete ∨ s.old = .complete) ∧ s.name ≠ .trunc

/-- what the property literally asks of a directory state -/
def Safe (s : St) : Prop :=
  (s.name = .complete ∨ s.old = .complete ∨ s.new = .complete) ∧ s.name ≠ .trunc

instance : DecidablePred Safe := fun s => by unfold Safe; infer_instance

instance : DecidablePred CkInv := fun s => by unfold CkInv; infer_instance

def allContents : List Content := [.absent, .trunc, .complete]

def allStates : List St :=
  allContents.flatMap fun a => allContents.flatMap fun b => allContents.map fun c => ⟨a, b, c⟩

end TT.FS
