import TTModel.C11_Reads
import TTGen.C11_Wiring
/-! C11 — the class table the machine runs on: each generated row paired with the hand-written reads -/
namespace TT.C11

def theTable : List (ClassSpec × ClassReads) :=
  TTGen.C11_Wiring.classes.map fun c => (c, Reads.find c.name)

/-- the classes `torchtree_wellwired` covers -/
def covered : List String := Reads.anchored ++ Reads.further

end TT.C11
