import TTModel.Scalar
/-!
# C12 — a small expression language for the densities' scalar programs (core Lean only)

`Expr` is the language of everything the numeric code does with its continuous inputs once the
combinatorial structure (sort order, tree, grid cell of each event, …) is fixed:
variables, integer/natural literals, `+ − × ÷`, negation, `exp log sqrt pow`.
Finite sums and products over lists are derived forms (`sumL`, `prodL`), so that ONE structural
induction (`TTProofs/Lemmas/C12_Dual.lean : dual_sound`) covers expressions of every size.

`eval` is polymorphic in the scalar: the same expression is evaluated at `ℝ` (theorems), at
`Float` (the value compared with torch), and at `Dual ℝ` / `Dual Float` (forward-mode derivative).
-/
namespace TT

namespace Dual
variable {α : Type}
instance instNatCastDualC12 [NatCast α] [Zero α] : NatCast (Dual α) := ⟨fun n => ⟨(n : α), 0⟩⟩
instance instIntCastDualC12 [IntCast α] [Zero α] : IntCast (Dual α) := ⟨fun n => ⟨(n : α), 0⟩⟩
/-- comparisons look at the value only (what `argsort`, `max`, `searchsorted` see) -/
instance instLEDualC12 [LE α] : LE (Dual α) := ⟨fun a b => a.v ≤ b.v⟩
instance instLTDualC12 [LT α] : LT (Dual α) := ⟨fun a b => a.v < b.v⟩
instance instDecLEDualC12 [LE α] [DecidableLE α] : DecidableLE (Dual α) := fun a b => inferInstanceAs (Decidable (a.v ≤ b.v))
instance instDecLTDualC12 [LT α] [DecidableLT α] : DecidableLT (Dual α) := fun a b => inferInstanceAs (Decidable (a.v < b.v))
end Dual

namespace C12

instance instNatCastFloatC12 : NatCast Float := ⟨Float.ofNat⟩
instance instIntCastFloatC12 : IntCast Float := ⟨Float.ofInt⟩

inductive Expr where
  | var (i : Nat)
  | nat (n : Nat)
  | int (k : Int)
  | add (a b : Expr)
  | sub (a b : Expr)
  | mul (a b : Expr)
  | div (a b : Expr)
  | neg (a : Expr)
  | exp (a : Expr)
  | log (a : Expr)
  | sqrt (a : Expr)
  | pow (a b : Expr)
deriving Repr, Inhabited

namespace Expr

/-- number of constructors (expressions of every size are covered by the theorems) -/
def size : Expr → Nat
  | var _ | nat _ | int _ => 1
  | add a b | sub a b | mul a b | div a b | pow a b => a.size + b.size + 1
  | neg a | exp a | log a | sqrt a => a.size + 1

section eval
variable {α : Type} [Add α] [Sub α] [Mul α] [Div α] [Neg α] [NatCast α] [IntCast α] [Trans α]

/-- evaluation in any scalar type -/
def eval (ρ : Nat → α) : Expr → α
  | var i => ρ i
  | nat n => (n : α)
  | int k => (k : α)
  | add a b => eval ρ a + eval ρ b
  | sub a b => eval ρ a - eval ρ b
  | mul a b => eval ρ a * eval ρ b
  | div a b => eval ρ a / eval ρ b
  | neg a => -(eval ρ a)
  | exp a => Trans.exp (eval ρ a)
  | log a => Trans.log (eval ρ a)
  | sqrt a => Trans.sqrt (eval ρ a)
  | pow a b => Trans.pow (eval ρ a) (eval ρ b)

end eval

/-- `Σ l` as a right-nested chain of additions ending in the literal 0 (= `List.sum`) -/
def sumL (l : List Expr) : Expr := l.foldr add (nat 0)
/-- `Π l` -/
def prodL (l : List Expr) : Expr := l.foldr mul (nat 1)

/-- rational literal `p/q` -/
def ratio (p q : Nat) : Expr := div (nat p) (nat q)

end Expr

/-- the environment that seeds coordinate `i`: value `x j`, tangent `1` at `i` and `0` elsewhere -/
def seed {α : Type} [Zero α] [One α] (x : Nat → α) (i : Nat) : Nat → Dual α :=
  fun j => ⟨x j, if j = i then 1 else 0⟩

/-- forward-mode partial derivative of an expression -/
def partialD {α : Type} [Add α] [Sub α] [Mul α] [Div α] [Neg α] [Zero α] [One α] [NatCast α] [IntCast α]
    [Trans α] (e : Expr) (x : Nat → α) (i : Nat) : α :=
  (Expr.eval (seed x i) e).d

/-- environment from a list (variables beyond the list read `0`) -/
def envOf {α : Type} [Zero α] (l : List α) : Nat → α := fun i => l.getD i 0

end C12
end TT
