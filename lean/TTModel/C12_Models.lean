import TTModel.C12_Expr
import TTModel.C08_Coalescent
/-!
# C12 — the densities' scalar programs as expression builders (core Lean only)

Each builder maps the COMBINATORIAL structure of an input (sorted event marks, tree traversal,
number of categories, …) to an `Expr` over `Expr`-valued inputs, mirroring the order of the
floating-point operations of the Python code.  The driver evaluates them at `Dual Float`; the
theorems (`TTProofs/Props/C12.lean`) evaluate them at `ℝ`, identify them with the other
properties' model definitions, and obtain their derivatives from `dual_sound`.
-/
namespace TT

namespace Dual
instance instOfNatDualC12 {α : Type} {n : Nat} [OfNat α n] [Zero α] : OfNat (Dual α) n := ⟨⟨OfNat.ofNat n, 0⟩⟩
end Dual

namespace C12
open Expr

/-- `lineage_count * (lineage_count - 1) / 2.0` -/
def choose2E (k : Int) : Expr := div (int (k * (k - 1))) (nat 2)

/-- `x[1:] - x[:-1]` -/
def diffsE : List Expr → List Expr
  | a :: b :: rest => sub b a :: diffsE (b :: rest)
  | _ => []

/-- `mask_sorted.cumsum(-1)[..., :-1]` on the sorted marks -/
def lineagesM (marks : List Int) : List Int := (C08.cumsum marks).dropLast

/-- `where(mask == -1, 1, 0).cumsum(-1)[..., :-1]` -/
def skyrideIdxM (marks : List Int) : List Nat := (C08.cumsum (C08.isMark (-1) marks)).dropLast

/-- `where(mask == 0, 1, 0).cumsum(-1)` -/
def skygridIdxM (marks : List Int) : List Nat := C08.cumsum (C08.isMark 0 marks)

/-- `ConstantCoalescent.log_prob` after the sort: `ts` sorted event times, `marks` their marks,
`m = taxa - 1`:  `sum(-lchoose2 * durations / theta) - m * log(theta)` -/
def constantE (θ : Expr) (ts : List Expr) (marks : List Int) (m : Nat) : Expr :=
  sub (sumL (List.zipWith (fun k d => div (mul (neg (choose2E k)) d) θ) (lineagesM marks) (diffsE ts)))
    (mul (nat m) (log θ))

/-- `PiecewiseConstantCoalescent.log_prob` (skyride) after the sort:
`-sum(lchoose2 * durations / theta.gather(idx)) - theta.log().sum()` -/
def skyrideE (θs : List Expr) (ts : List Expr) (marks : List Int) : Expr :=
  sub (neg (sumL (C08.zipWith3 (fun k d i => div (mul (choose2E k) d) (θs.getD i (nat 0)))
      (lineagesM marks) (diffsE ts) (skyrideIdxM marks))))
    (sumL (θs.map log))

/-- `PiecewiseConstantCoalescentGrid.log_prob` (skygrid) after the sort (grid points have mark 0):
`sum(-lchoose2 * durations / thetas[:-1] - where(mask == -1, log thetas, 0)[1:])` -/
def skygridE (θs : List Expr) (ts : List Expr) (marks : List Int) : Expr :=
  let idx := skygridIdxM marks
  let logs := (List.zipWith (fun m i => if m = -1 then log (θs.getD i (nat 0)) else nat 0) marks idx).tail
  let ints := C08.zipWith3 (fun k d i => div (mul (neg (choose2E k)) d) (θs.getD i (nat 0)))
      (lineagesM marks) (diffsE ts) idx.dropLast
  sumL (List.zipWith sub ints logs)

/-- `x[:-1] - x[1:]` -/
def diffsRevE : List Expr → List Expr
  | a :: b :: rest => sub a b :: diffsRevE (b :: rest)
  | _ => []

/-- `GMRF._call` (no tree): `diff_square = pow(x[:-1] - x[1:], 2)` (`/= weights` when given),
`log(tau) * dim / 2 - sum(diff_square) * tau / 2 - dim / 2 * c`, `dim = N - 1`, `c = log(2 pi)` literal -/
def gmrfE (xs : List Expr) (τ : Expr) (ws : Option (List Expr)) (c : Expr) : Expr :=
  let sq := (diffsRevE xs).map fun d => mul d d
  let sq := match ws with
    | none => sq
    | some w => List.zipWith div sq w
  let dim := xs.length - 1
  sub (sub (div (mul (log τ) (nat dim)) (nat 2)) (div (mul (sumL sq) τ) (nat 2)))
    (mul (div (nat dim) (nat 2)) c)

/-- `(2.0 * i + 1.0) / (2.0 * K)` -/
def quantileE (K i : Nat) : Expr := div (add (mul (nat 2) (nat i)) (nat 1)) (mul (nat 2) (nat K))

/-- `torch.pow(-torch.log(1.0 - quantile), 1.0 / shape)` -/
def weibullIcdfE (shape : Expr) (K i : Nat) : Expr :=
  pow (neg (log (sub (nat 1) (quantileE K i)))) (div (nat 1) shape)

/-- `WeibullSiteModel.rates()` with `K` categories, optional invariant proportion and `mu`:
`rates = raw / sum(raw * probs)` (`*= mu`) -/
def weibullRatesE (K : Nat) (shape : Expr) (inv mu : Option Expr) : List Expr :=
  let raws := (List.range K).map (weibullIcdfE shape K)
  let raw := match inv with
    | none => raws
    | some _ => nat 0 :: raws
  let probs := match inv with
    | none => (List.range K).map fun _ => div (nat 1) (nat K)
    | some p => p :: (List.range K).map fun _ => div (sub (nat 1) p) (nat K)
  let nrm := sumL (List.zipWith mul raw probs)
  raw.map fun r => match mu with
    | none => div r nrm
    | some m => mul (div r nrm) m

/-- `t[i] = v` on expression-valued arrays -/
def updE (f : Nat → Expr) (i : Nat) (v : Expr) : Nat → Expr := fun j => if j = i then v else f j

/-- `GeneralNodeHeightTransform._call`: over `_forward_indices` (pairs of internal positions
`(parent, child)`): `heights[c] = bounds[c] + x[c] * (heights[p] - bounds[c])`, starting from `x` -/
def heightsE (fwd : List (Nat × Nat)) (b x : Nat → Expr) : Nat → Expr :=
  fwd.foldl (fun h (a : Nat × Nat) => updE h a.2 (add (b a.2) (mul (x a.2) (sub (h a.1) (b a.2))))) x

/-- `GeneralNodeHeightTransform.log_abs_det_jacobian`: `log(y[_det_indices] - _bounds[n:-1]).sum()` -/
def logJacE (det : List Nat) (b h : Nat → Expr) : Expr :=
  sumL (det.zipIdx.map fun a => log (sub (h a.1) (b a.2)))

/-- `JC69.p_t` diagonal entry `0.25 + 3.0/4.0 * exp(-4.0/3.0 * d)` -/
def jcDiagE (t : Expr) : Expr := add (ratio 1 4) (mul (ratio 3 4) (exp (mul (div (neg (nat 4)) (nat 3)) t)))
/-- `JC69.p_t` off-diagonal entry `0.25 - 0.25 * exp(-4.0/3.0 * d)` -/
def jcOffE (t : Expr) : Expr := sub (ratio 1 4) (mul (ratio 1 4) (exp (mul (div (neg (nat 4)) (nat 3)) t)))

end C12
end TT
