import TTModel.Proto
import TTModel.C13_Json
/-!
Wire encoding of JSON values for the C13 / C19 drivers (prefix code, space separated tokens):
`N` null · `T`/`F` · `I<int>` · `D<16 hex digits>` float bits · `S<hex of utf8>` string ·
`A<n>` then n values · `O<n>` then n × (S-token key, value).  Core Lean only; not used in theorems.
-/
namespace TT.C13
open TT.Proto

/-- the numbers of a Python-loaded JSON document -/
inductive JNumber where
  | int (n : Int)
  | flt (x : Float)
  deriving Inhabited

instance : JNum JNumber where
  truthy
    | .int n => n != 0
    | .flt x => x != 0.0

def hexOfString (s : String) : String :=
  let digits := "0123456789abcdef".toList.toArray
  String.ofList (s.toUTF8.toList.flatMap fun b => [digits[b.toNat / 16]!, digits[b.toNat % 16]!])

def stringOfHex (h : String) : Option String :=
  let rec go : List Char → List UInt8 → Option (List UInt8)
    | [], acc => some acc.reverse
    | [_], _ => none
    | a :: b :: rest, acc => do
      let x ← hexDigit a
      let y ← hexDigit b
      go rest ((x * 16 + y).toUInt8 :: acc)
  (go h.toList []).bind fun bytes => String.fromUTF8? ⟨bytes.toArray⟩

partial def encode : Json JNumber → List String
  | .null => ["N"]
  | .bool true => ["T"]
  | .bool false => ["F"]
  | .num (.int n) => [s!"I{n}"]
  | .num (.flt x) => ["D" ++ floatBits x]
  | .str s => ["S" ++ hexOfString s]
  | .arr xs => s!"A{xs.length}" :: xs.flatMap encode
  | .obj kvs => s!"O{kvs.length}" :: kvs.flatMap fun (k, v) => ("S" ++ hexOfString k) :: encode v

def encodeStr (j : Json JNumber) : String := " ".intercalate (encode j)

mutual
partial def decode : List String → Option (Json JNumber × List String)
  | [] => none
  | tok :: rest =>
    let body := (tok.drop 1).toString
    match tok.front with
    | 'N' => if body = "" then some (.null, rest) else none
    | 'T' => if body = "" then some (.bool true, rest) else none
    | 'F' => if body = "" then some (.bool false, rest) else none
    | 'I' => body.toInt?.map fun n => (.num (.int n), rest)
    | 'D' => (parseFloatBits body).map fun x => (.num (.flt x), rest)
    | 'S' => (stringOfHex body).map fun s => (.str s, rest)
    | 'A' => body.toNat?.bind fun n => (decodeN n rest []).map fun (xs, r) => (.arr xs, r)
    | 'O' => body.toNat?.bind fun n => (decodeKV n rest []).map fun (kvs, r) => (.obj kvs, r)
    | _ => none
partial def decodeN : Nat → List String → List (Json JNumber) → Option (List (Json JNumber) × List String)
  | 0, rest, acc => some (acc.reverse, rest)
  | n + 1, rest, acc => (decode rest).bind fun (x, r) => decodeN n r (x :: acc)
partial def decodeKV : Nat → List String → List (String × Json JNumber) →
    Option (List (String × Json JNumber) × List String)
  | 0, rest, acc => some (acc.reverse, rest)
  | n + 1, rest, acc =>
    match decode rest with
    | some (.str k, r) => (decode r).bind fun (v, r') => decodeKV n r' ((k, v) :: acc)
    | _ => none
end

/-- decode a whole token list into exactly one value -/
def decodeAll (toks : List String) : Option (Json JNumber) :=
  match decode toks with
  | some (j, []) => some j
  | _ => none

/-- total number of nodes (a generous fuel) -/
partial def size : Json JNumber → Nat
  | .arr xs => 1 + (xs.map size).sum
  | .obj kvs => 1 + (kvs.map fun kv => size kv.2).sum
  | _ => 1

end TT.C13
