import TTModel.Proto
import TTModel.Scalar
import TTModel.C01_Tree
import TTModel.C01_Pruning
import TTModel.C01_Patterns
/-!
C01/C02 request handler (shared by `drv_c01` and `drv_c02`). One request per line, sections separated by `|`, words by blanks.
Scalars: mode `q` = `Rat` written `p/q`, mode `f` = `Float` written as 16 hex digits.

  idx   | <taxa…> | <tokens…>                       -> post a,b,c;… pre p,c;… tree <indexed shape> leaves <i…>
  blt   <mode> | <taxa…> | <tokens…> | <heights 2n-1>        -> branch lengths by child index (time tree)
  blu   <mode> | <taxa…> | <tokens…> | <edge lengths by node index 2n-2> -> kept lengths (unrooted, 2n-3)
  asmu  <mode> | <bls> | <site rates>               -> t[b][k] rows `;`-separated (zero branch appended)
  asmc  <mode> | <bls> | <clock rates> | <site rates>
  lik   <mode> S K n N | <triples a,b,c …> | <π S> | <props K> | <mats B·K·S·S> | <tips n·N·S> [| <weights N>]
  likts <mode> S K N   | <triples> | <π> | <props> | <mats> | <states n·N> [| <weights N>]
  marg  <mode> S K n N | <taxa…> | <tokens…> | <π> | <props> | <mats> | <tips n·N·S>
  pat   <size> <dt 0|1|c<k>> <useAmb 0/1> | <taxa…> | <name=SEQ …> [| <indices 3 1:5 ::2 …>] -> patterns, weights, tip vectors, tip states
  patg  <useAmb> | <taxa…> | <name=SEQ …> | <codes…> | <K=A,G …>   -> the same for a GeneralDataType
  codon <k> <o1> <o2> <o3>                          -> tip vector, tip state, state count for genetic code k
  site  <j> | <columns…>                            -> index of the pattern site j belongs to
  sym   <aa 0/1> <useAmb 0/1> <ord>                 -> tip vector and tip state of one character
  jc69  <t hex>                                     -> the 16 entries of the JC69 matrix in closed form (Float)
-/
open TT TT.Proto TT.C01

namespace TT.C01.Drv

class Wire (α : Type) where
  parse : String → Option α
  render : α → String

instance : Wire Rat := ⟨parseRat, showRat⟩
instance : Wire Float := ⟨parseFloatBits, floatBits⟩
instance : TT.Trans Rat := ⟨fun x => x, fun x => x, fun x => x, fun x _ => x⟩  -- never used at `Rat`

def sections (line : String) : List (List String) :=
  (line.splitOn "|").map splitWords

def parseNats (ws : List String) : Option (List Nat) := ws.mapM (·.toNat?)

def parseTriple (w : String) : Option (Nat × Nat × Nat) :=
  match (w.splitOn ",").mapM (·.toNat?) with
  | some [a, b, c] => some (a, b, c)
  | _ => none

def showTriples (l : List (Nat × Nat × Nat)) : String :=
  ";".intercalate (l.map fun t => s!"{t.1},{t.2.1},{t.2.2}")
def showPairs (l : List (Nat × Nat)) : String :=
  ";".intercalate (l.map fun t => s!"{t.1},{t.2}")

def showITree : ITree → String
  | .leaf i => toString i
  | .node i l r => s!"({showITree l},{showITree r}){i}"

def buildTree (taxa toks : List String) : Option (ITree × BTree) := do
  let nt ← parseNTree toks
  if nt.leaves.any (fun nm => !taxa.contains nm) then none else
  let bt := nt.toBTree taxa
  pure (setupIndexes taxa.length bt, bt)

section generic
variable {α : Type} [Add α] [Sub α] [Mul α] [Zero α] [One α] [Inhabited α] [Wire α] [TT.Trans α]

def parseScalars (ws : List String) : Option (Array α) := (ws.mapM Wire.parse).map List.toArray
def renderList (l : List α) : String := " ".intercalate (l.map Wire.render)

def matsOf (K S : Nat) (a : Array α) : Mats α K S :=
  fun b k s j => a[((b * K + k.val) * S + s.val) * S + j.val]!

def vecOf {S : Nat} (a : Array α) (off : Nat) : Fin S → α := fun s => a[off + s.val]!

def finishLik (liks : List (Option α)) (weights : Option (Array α)) : String :=
  match liks.mapM id with
  | none => "none"
  | some ls =>
    let base := "ok " ++ renderList ls
    match weights with
    | some w => base ++ " ll " ++ Wire.render (logLik ls w.toList)
    | none => base

def doLik (S K n N : Nat) (secs : List (List String)) : String :=
  match secs with
  | tr :: pi :: pr :: ms :: tp :: rest =>
    match tr.mapM parseTriple, parseScalars (α := α) pi, parseScalars (α := α) pr,
          parseScalars (α := α) ms, parseScalars (α := α) tp with
    | some post, some pi, some pr, some ms, some tp =>
      if pi.size ≠ S || pr.size ≠ K || tp.size ≠ n * N * S || ms.size % (K * S * S) ≠ 0 then "bad-op" else
      let weights : Option (Option (Array α)) := match rest with
        | [] => some none
        | [w] => (parseScalars (α := α) w).map some
        | _ => none
      match weights with
      | none => "bad-op"
      | some weights =>
        let mats := matsOf K S ms
        let liks := (List.range N).map fun p =>
          siteLik (vecOf pi 0) (vecOf (S := K) pr 0) mats post n (fun i => vecOf tp ((i * N + p) * S))
        finishLik liks weights
    | _, _, _, _, _ => "bad-op"
  | _ => "bad-op"

def doLikTS (S K N : Nat) (secs : List (List String)) : String :=
  match secs with
  | tr :: pi :: pr :: ms :: stt :: rest =>
    match tr.mapM parseTriple, parseScalars (α := α) pi, parseScalars (α := α) pr,
          parseScalars (α := α) ms, parseNats stt with
    | some post, some pi, some pr, some ms, some stt =>
      if pi.size ≠ S || pr.size ≠ K || ms.size % (K * S * S) ≠ 0 || stt.length ≠ (post.length + 1) * N then "bad-op" else
      let weights : Option (Option (Array α)) := match rest with
        | [] => some none
        | [w] => (parseScalars (α := α) w).map some
        | _ => none
      match weights with
      | none => "bad-op"
      | some weights =>
        let mats := matsOf K S ms
        let stt := stt.toArray
        let liks := (List.range N).map fun p =>
          siteLikTS (vecOf pi 0) (vecOf (S := K) pr 0) mats post (fun i => stt[i * N + p]!)
        finishLik liks weights
    | _, _, _, _, _ => "bad-op"
  | _ => "bad-op"

def doMarg (S K n N : Nat) (secs : List (List String)) : String :=
  match secs with
  | [taxa, toks, pi, pr, ms, tp] =>
    match buildTree taxa toks, parseScalars (α := α) pi, parseScalars (α := α) pr,
          parseScalars (α := α) ms, parseScalars (α := α) tp with
    | some (it, _), some pi, some pr, some ms, some tp =>
      if taxa.length ≠ n || pi.size ≠ S || pr.size ≠ K || tp.size ≠ n * N * S || ms.size % (K * S * S) ≠ 0 then "bad-op" else
      let mats := matsOf K S ms
      let liks := (List.range N).map fun p =>
        some (marginal (vecOf pi 0) (vecOf (S := K) pr 0) mats (fun i => vecOf tp ((i * N + p) * S)) it)
      finishLik liks none
    | _, _, _, _, _ => "bad-op"
  | _ => "bad-op"

def doBlt (secs : List (List String)) : String :=
  match secs with
  | [taxa, toks, hs] =>
    match buildTree taxa toks, parseScalars (α := α) hs with
    | some (it, _), some hs =>
      if hs.size ≠ 2 * taxa.length - 1 then "bad-op" else
      "ok " ++ renderList (timeTreeBranchLengths hs it)
    | _, _ => "bad-op"
  | _ => "bad-op"

def doBlu (secs : List (List String)) : String :=
  match secs with
  | [taxa, toks, es] =>
    match buildTree taxa toks, parseScalars (α := α) es with
    | some (it, _), some es =>
      if es.size ≠ 2 * taxa.length - 2 then "bad-op" else
      "ok " ++ renderList (unrootedKeptLengths es it)
    | _, _ => "bad-op"
  | _ => "bad-op"

def renderRows (rows : List (List α)) : String := " ; ".intercalate (rows.map renderList)

def doAsmU (secs : List (List String)) : String :=
  match secs with
  | [bl, sr] =>
    match parseScalars (α := α) bl, parseScalars (α := α) sr with
    | some bl, some sr => "ok " ++ renderRows (assembleUnrooted bl.toList sr.toList)
    | _, _ => "bad-op"
  | _ => "bad-op"

def doAsmC (secs : List (List String)) : String :=
  match secs with
  | [bl, cr, sr] =>
    match parseScalars (α := α) bl, parseScalars (α := α) cr, parseScalars (α := α) sr with
    | some bl, some cr, some sr =>
      if bl.size ≠ cr.size then "bad-op" else
      "ok " ++ renderRows (assembleClock bl.toList cr.toList sr.toList)
    | _, _, _ => "bad-op"
  | _ => "bad-op"

end generic

def parseSeq (w : String) : Option (String × List Char) :=
  match w.splitOn "=" with
  | [nm, s] => some (nm, s.toList)
  | _ => none

def showSym (s : Sym) : String := String.ofList s
def showNats (l : List Nat) : String := "".intercalate (l.map toString)

def parseOptInt (w : String) : Option (Option Int) := if w = "" then some none else (w.toInt?).map some

/-- `3`, `-1`, `1:5`, `:4`, `::2`, `5:0:-1` -/
def parseIdx (w : String) : Option Idx :=
  match w.splitOn ":" with
  | [i] => (i.toInt?).map Idx.at
  | [a, b] => do pure (Idx.slice (← parseOptInt a) (← parseOptInt b) none)
  | [a, b, c] => do pure (Idx.slice (← parseOptInt a) (← parseOptInt b) (← parseOptInt c))
  | _ => none

/-- `0` nucleotide, `1` amino acid, `c<k>` codon with genetic code number `k` -/
def parseDT (w : String) : Option DT :=
  if w = "0" then some .nuc else if w = "1" then some .aa
  else if w.startsWith "c" then
    match (w.drop 1).toNat? with
    | some k => (TTGen.C01.geneticCodes[k]?).map DT.codon
    | none => none
  else none

def doPatDT (size : Nat) (dt : DT) (useAmb : Bool) (taxa : List String) (seqs : List String)
    (idx : Option (List Idx)) : String :=
  match seqs.mapM parseSeq with
  | none => "bad-op"
  | some seqs =>
    match patternsIdx size taxa seqs idx with
    | none => "err index"
    | some pats =>
      let cols := pats.map (·.1)
      let ws := pats.map (·.2)
      -- per taxon (Taxa order): symbols of every pattern, tip vectors, tip states
      let rows := taxa.map fun nm => cols.map fun p => symbolOf taxa seqs nm p
      if rows.any (fun r => r.any Option.isNone) then "err missing-taxon" else
      let rows := rows.map fun r => r.map fun o => o.getD []
      let part := rows.map fun r => r.map fun s => symPartialDT dt useAmb s
      let sts := rows.map fun r => r.map fun s => symTipStateDT dt s
      let showPart (r : List (Option (List Nat))) : String :=
        ",".intercalate (r.map fun o => match o with | some v => showNats v | none => "x")
      let showSt (r : List (Option Nat)) : String :=
        ",".intercalate (r.map fun o => match o with | some v => toString v | none => "x")
      s!"ok w {",".intercalate (ws.map toString)} rows {";".intercalate (rows.map fun r => ",".intercalate (r.map showSym))} part {";".intercalate (part.map showPart)} st {";".intercalate (sts.map showSt)}"

def doPat (size : Nat) (dt : DT) (useAmb : Bool) (secs : List (List String)) : String :=
  match secs with
  | [taxa, seqs] => doPatDT size dt useAmb taxa seqs none
  | [taxa, seqs, ix] =>
    match ix.mapM parseIdx with
    | some ix => doPatDT size dt useAmb taxa seqs (some ix)
    | none => "bad-op"
  | _ => "bad-op"

/-- `K=A,G` (ambiguity key = listed codes) -/
def parseAmb (w : String) : Option (Sym × List Sym) :=
  match w.splitOn "=" with
  | [k, v] => some (k.toList, (v.splitOn ",").map String.toList)
  | _ => none

/-- `patg <useAmb> | taxa | seqs | codes… | K=A,G …` — GeneralDataType with one-character codes -/
def doPatG (useAmb : Bool) (secs : List (List String)) : String :=
  match secs with
  | [taxa, seqs, codes, ambs] =>
    match ambs.mapM parseAmb with
    | some ambs => doPatDT 1 (.general (codes.map String.toList) ambs) useAmb taxa seqs none
    | none => "bad-op"
  | [taxa, seqs, codes, ambs, ix] =>
    match ambs.mapM parseAmb, ix.mapM parseIdx with
    | some ambs, some ix => doPatDT 1 (.general (codes.map String.toList) ambs) useAmb taxa seqs (some ix)
    | _, _ => "bad-op"
  | _ => "bad-op"

def parseBool : String → Option Bool | "1" => some true | "0" => some false | _ => none

def handle (line : String) : String :=
  match sections line with
  | [["idx"], taxa, toks] =>
    match buildTree taxa toks with
    | some (it, bt) =>
      s!"ok post {showTriples (postorder it)} pre {showPairs (preorder it)} tree {showITree it} leaves {" ".intercalate (bt.leaves.map toString)}"
    | none => "bad-op"
  | ["blt", m] :: rest =>
    if m = "q" then doBlt (α := Rat) rest else if m = "f" then doBlt (α := Float) rest else "bad-op"
  | ["blu", m] :: rest =>
    if m = "q" then doBlu (α := Rat) rest else if m = "f" then doBlu (α := Float) rest else "bad-op"
  | ["asmu", m] :: rest =>
    if m = "q" then doAsmU (α := Rat) rest else if m = "f" then doAsmU (α := Float) rest else "bad-op"
  | ["asmc", m] :: rest =>
    if m = "q" then doAsmC (α := Rat) rest else if m = "f" then doAsmC (α := Float) rest else "bad-op"
  | ["lik", m, s, k, n, nn] :: rest =>
    match s.toNat?, k.toNat?, n.toNat?, nn.toNat? with
    | some s, some k, some n, some nn =>
      if m = "q" then doLik (α := Rat) s k n nn rest
      else if m = "f" then doLik (α := Float) s k n nn rest else "bad-op"
    | _, _, _, _ => "bad-op"
  | ["likts", m, s, k, nn] :: rest =>
    match s.toNat?, k.toNat?, nn.toNat? with
    | some s, some k, some nn =>
      if m = "q" then doLikTS (α := Rat) s k nn rest
      else if m = "f" then doLikTS (α := Float) s k nn rest else "bad-op"
    | _, _, _ => "bad-op"
  | ["marg", m, s, k, n, nn] :: rest =>
    match s.toNat?, k.toNat?, n.toNat?, nn.toNat? with
    | some s, some k, some n, some nn =>
      if m = "q" then doMarg (α := Rat) s k n nn rest
      else if m = "f" then doMarg (α := Float) s k n nn rest else "bad-op"
    | _, _, _, _ => "bad-op"
  | [["jc69", t]] =>
    match parseFloatBits t with
    | some d =>
      let m := jc69P (α := Float) Nat.toFloat d
      "ok " ++ " ".intercalate ((List.finRange 4).flatMap fun s => (List.finRange 4).map fun j => floatBits (m s j))
    | none => "bad-op"
  | ["pat", size, dt, ua] :: rest =>
    match size.toNat?, parseDT dt, parseBool ua with
    | some size, some dt, some ua => doPat size dt ua rest
    | _, _, _ => "bad-op"
  | ["patg", ua] :: rest =>
    match parseBool ua with
    | some ua => doPatG ua rest
    | none => "bad-op"
  | [["codon", k, o1, o2, o3]] =>
    match k.toNat?, o1.toNat?, o2.toNat?, o3.toNat? with
    | some k, some o1, some o2, some o3 =>
      match TTGen.C01.geneticCodes[k]? with
      | some t =>
        let p := codonPartial t [o1, o2, o3]
        let st := codonTipState t [o1, o2, o3]
        s!"ok {match p with | some v => showNats v | none => "x"} {match st with | some v => toString v | none => "x"} {codonStateCount t}"
      | none => "bad-op"
    | _, _, _, _ => "bad-op"
  | [["site", j], cols] =>
    match j.toNat? with
    | some j => match patternOf (cols.map String.toList) j with
      | some p => s!"ok {p}"
      | none => "err index"
    | none => "bad-op"
  | [["sym", aa, ua, o]] =>
    match parseBool aa, parseBool ua, o.toNat? with
    | some aa, some ua, some o =>
      let c := Char.ofNat o
      let p := symPartial aa ua [c]
      let st := symTipState aa [c]
      s!"ok {match p with | some v => showNats v | none => "x"} {match st with | some v => toString v | none => "x"}"
    | _, _, _ => "bad-op"
  | _ => "bad-op"

end TT.C01.Drv
