import TTModel.C17_Codec
/-!
# C17 — state_dict / load_state_dict tables, torch's re-attachment of optimiser state, and the
iteration counter around a checkpoint (core Lean only)

* `ClassKeys` / `LoopSpec` are the shapes of the tables `harness/translators/tr_statedict.py`
  regenerates into `TTGen/C17_StateKeys.lean` from the source on every run.
* `stateDict` / `load` give those tables their meaning on an object seen as `attribute ↦ value`.
* `attached` is what `torch.optim.Optimizer.load_state_dict` does with the keys of `"state"`.
* `runFrom` is the `while self._epoch <= self.iterations` loop of `Optimizer._run`,
  `Optimizer._run_closure` and `MCMC.run`; `savedCounter` is what the checkpoint written during
  iteration `e` records as `"iteration"`.
-/
namespace TT.C17

/-- ⟨JSON key, `self.…` attribute the value comes from / goes to, normalised condition,
functions applied to the value on its way (sorted)⟩ -/
structure KeyE where
  key : String
  attr : String
  cond : String
  via : List String := []
deriving DecidableEq, Repr

structure ClassKeys where
  name : String
  written : List KeyE
  read : List KeyE
  /-- `return self.attr.state_dict()` -/
  delegateW : Option String
  /-- `self.attr.load_state_dict(state_dict)` -/
  delegateR : Option String
  /-- functions applied to the values of the delegated dictionary before it is handed over -/
  delegateVia : List String := []
deriving Repr

/-- a top-level statement of a run-loop body -/
inductive LoopEvent
  | step        -- optimiser / operator / integrator step
  | decide      -- accept / reject (parameters possibly put back)
  | logger
  | tune        -- operator.tune (operators and adaptors learn)
  | scheduler
  | convergence
  | adapt       -- warm-up adaptor of HMC.run
  | snapshot    -- `completed = self._epoch`
  | increment   -- `self._epoch += 1` (or the header of a `for … in range` loop)
  | save        -- `if … % checkpoint_frequency == 0: save…`
  | other
deriving DecidableEq, Repr

/-- one checkpointing loop as read from the AST -/
structure LoopSpec where
  name : String
  /-- top-level statements of the loop body in source order -/
  events : List LoopEvent
  /-- the counter is an attribute of the object (`self._epoch`), not a local of the method -/
  counterIsAttr : Bool
  /-- the class's `state_dict` writes that attribute and `load_state_dict` reads it back -/
  counterSaved : Bool
  /-- the checkpoint statement writes the algorithm state (`state_dict()`), not only the parameters -/
  savesState : Bool
deriving Repr

/-- `self._epoch += 1` stands before the statement that writes the checkpoint -/
def LoopSpec.incBeforeSave (l : LoopSpec) : Bool :=
  l.events.contains .increment && l.events.contains .save &&
    decide (l.events.idxOf .increment < l.events.idxOf .save)

/-- everything that changes the run state during an iteration happens before the checkpoint is written -/
def LoopSpec.mutationsBeforeSave (l : LoopSpec) : Bool :=
  [LoopEvent.step, .decide, .tune, .scheduler, .adapt].all fun e =>
    !l.events.contains e || decide (l.events.idxOf e < l.events.idxOf .save)

/-- the counter reaches the file and comes back from it -/
def LoopSpec.counterRoundTrips (l : LoopSpec) : Bool := l.counterIsAttr && l.counterSaved && l.savesState

/-- the checkpoint written during an iteration lets a restart continue with the next one -/
def LoopSpec.storesNext (l : LoopSpec) : Bool :=
  l.counterRoundTrips && l.incBeforeSave && l.mutationsBeforeSave

/-- keys that identify an object (children are matched on them) rather than carry run state -/
def identityKeys : List String := ["id"]

/-- the read of `r` happens whenever the write of `w` did: same condition, or the value is a list of
children written unconditionally and read by a loop over those same children -/
def condOk (w r : KeyE) : Bool :=
  r.cond == w.cond || (w.cond == "" && r.cond == "nonempty:" ++ r.attr)

/-- first entry with the given key -/
def findKey (k : String) : List KeyE → Option KeyE
  | [] => none
  | e :: r => if e.key = k then some e else findKey k r

def distinctStr : List String → Bool
  | [] => true
  | s :: r => !r.contains s && distinctStr r

/-- the table of one class is consistent:
every key read is the one written from the same attribute under a condition that implies it was
written; every written key other than an identity key is read back; no key is written twice, no
attribute is loaded twice; the reserved key `"type"` is not used -/
def ClassKeys.ok (c : ClassKeys) : Bool :=
  match c.delegateW, c.delegateR with
  | some a, some b => a == b && c.written.isEmpty && c.read.isEmpty
  | none, none =>
      c.read.all (fun r => match findKey r.key c.written with
        | some w => w.attr == r.attr && condOk w r
        | none => false)
      && c.written.all (fun w => identityKeys.contains w.key ||
          c.read.any fun r => r.key == w.key && r.attr == w.attr && condOk w r)
      && distinctStr (c.written.map (·.key))
      && distinctStr (c.read.map (·.attr))
      && !(c.written.map (·.key)).contains "type"
  | _, _ => false

/-! ## meaning of a table: an object is `attribute ↦ value`; `en` says which conditions hold -/

abbrev Attrs := String → Val

def kvsOf (st : Attrs) : List KeyE → KVs
  | [] => .nil
  | e :: r => .cons (.str e.key) (st e.attr) (kvsOf st r)

/-- `obj.state_dict()` -/
def stateDict (c : ClassKeys) (en : String → Bool) (st : Attrs) : KVs :=
  kvsOf st (c.written.filter fun e => en e.cond)

def loadEntries (d : KVs) : List KeyE → Attrs → Option Attrs
  | [], st => some st
  | e :: r, st =>
    match d.lookup e.key with
    | Option.none => Option.none  -- KeyError
    | some v => loadEntries d r (fun a => if a = e.attr then v else st a)

/-- `obj.load_state_dict(d)` on an object whose attributes are `st0` (`none`: KeyError) -/
def load (c : ClassKeys) (en : String → Bool) (d : KVs) (st0 : Attrs) : Option Attrs :=
  loadEntries d (c.read.filter fun e => en e.cond) st0

/-! ## torch.optim.Optimizer.load_state_dict: which saved entry is attached to parameter `i` -/

/-- torch files `state[k]` under parameter `id_map[k]` only when `k` is one of the saved parameter
indices (integers); any other key is kept verbatim and belongs to no parameter.  So the state
parameter `i` continues from is the entry under the *integer* key `i`. -/
def attached (state : KVs) (i : Int) : Option Val := state.lookupKey (.int i)

/-! ## the iteration counter -/

/-- the iteration label a run restarted from the checkpoint of iteration `e` begins with: the value of
`self._epoch` that `state_dict()` saw when the file was written, if the counter round-trips -/
def savedCounter (l : LoopSpec) (e : Nat) : Nat :=
  if l.counterRoundTrips then (if l.incBeforeSave then e + 1 else e)
  else 1  -- nothing comes back: the restarted loop begins with its initial value

/-- `n` passes through the loop body starting with `self._epoch = e`: the visited
(iteration label, state after the step) pairs.  `step e s` is one pass (deterministic). -/
def runFrom {S : Type} (step : Nat → S → S) : Nat → Nat → S → List (Nat × S)
  | _, 0, _ => []
  | e, n + 1, s => (e, step e s) :: runFrom step (e + 1) n (step e s)

/-- state after `n` passes starting with label `e` -/
def stateAfter {S : Type} (step : Nat → S → S) : Nat → Nat → S → S
  | _, 0, s => s
  | e, n + 1, s => stateAfter step (e + 1) n (step e s)

/-- the function that gives integer keys back (`torchtree.core.utils.restore_int_keys`) -/
def intKeysFn : String := "restore_int_keys"

/-- the generated table shows the integer keys being given back on both paths that carry torch
state keyed by integers: `Optimizer` (`"optimizer"` → `self.optimizer`) and `Scheduler` -/
def intKeysRestored (classes : List ClassKeys) : Bool :=
  (classes.any fun c => c.name == "Optimizer" &&
      c.read.any fun r => r.key == "optimizer" && r.via.contains intKeysFn)
  && (classes.any fun c => c.name == "Scheduler" && c.delegateVia.contains intKeysFn)

/-- the uninterrupted run: `_epoch = 1 … iterations` -/
def fullRun {S : Type} (step : Nat → S → S) (iterations : Nat) (s0 : S) : List (Nat × S) :=
  runFrom step 1 iterations s0

/-- a run restarted with `_epoch = c`: the loop runs while `c ≤ iterations` -/
def resumedRun {S : Type} (step : Nat → S → S) (iterations c : Nat) (s : S) : List (Nat × S) :=
  runFrom step c (iterations + 1 - c) s

end TT.C17
