import TTModel.Scalar
import TTModel.C07_Transforms
/-!
# C07 — the torch transforms reachable from generated configurations, as torch computes them

Source read: `torch/distributions/transforms.py` of the installed torch (`ExpTransform`,
`SigmoidTransform` with `_clipped_sigmoid`, `AffineTransform` (event_dim 0, as the CLI uses it),
`SoftplusTransform`, `PowerTransform` (reached through `torchtree.distributions.InverseGamma`),
`StickBreakingTransform`, `_InverseTransform` (`t.inv`), `ComposeTransform`).

What `torchtree/cli` emits (`make_unconstrained`, `apply_*_transform`, `create_*`): `ExpTransform`
(lower bound 0), `SigmoidTransform` (bounds 0,1), `AffineTransform(loc, scale = 1.0)` over a
parameter that is itself Exp-transformed (lower bound ≠ 0, birth–death origin), and
`StickBreakingTransform` (simplex). Nesting is by nested `TransformedParameter`s.

`F.softplus` is modelled with its threshold (`x > 20 ↦ x`), the clipping of the sigmoid with its two
constants passed in (`finfo.tiny`, `1 − finfo.eps`). `log1p`/`expm1` are `log(1+·)`/`exp(·)−1`.
-/
namespace TT.C07.Torch
open TT TT.C07

section
variable {α : Type} [Add α] [Sub α] [Mul α] [Div α] [Neg α] [Zero α] [One α] [Trans α]
  [LT α] [DecidableLT α]

/-- the number `k` in the scalar type (`x.new_ones(n).cumsum(-1)` and the literal 20) -/
def nat : Nat → α
  | 0 => 0
  | k + 1 => nat k + 1

/-- `torch.clamp(v, min=lo, max=hi)` -/
def clamp (lo hi v : α) : α := if v < lo then lo else if hi < v then hi else v
/-- `torch.clamp(v, min=lo)` -/
def clampMin (lo v : α) : α := if v < lo then lo else v
/-- `abs` -/
def absS (v : α) : α := if v < 0 then -v else v

/-- `F.softplus(x)` (beta 1, threshold 20) -/
def softplusT (x : α) : α := if (nat 20 : α) < x then x else Trans.log (1 + Trans.exp x)
/-- `torch.sigmoid` -/
def sigmoid (x : α) : α := 1 / (1 + Trans.exp (-x))
/-- `F.logsigmoid(x)` = `-softplus(-x)` without threshold -/
def logsigmoid (x : α) : α := -(Trans.log (1 + Trans.exp (-x)))

/-! ### element-wise transforms (applied entry by entry; log-Jacobian reported per entry) -/

def expFwd (x : α) : α := Trans.exp x
def expInv (y : α) : α := Trans.log y
/-- `return x` -/
def expLd (x _y : α) : α := x

/-- `_clipped_sigmoid` -/
def sigmoidFwd (lo hi : α) (x : α) : α := clamp lo hi (sigmoid x)
/-- `y.clamp(...)`; `y.log() - (-y).log1p()` -/
def sigmoidInv (lo hi : α) (y : α) : α :=
  Trans.log (clamp lo hi y) - Trans.log (1 + -(clamp lo hi y))
/-- `-F.softplus(-x) - F.softplus(x)` -/
def sigmoidLd (x _y : α) : α := -softplusT (-x) - softplusT x

/-- `loc + scale * x` -/
def affineFwd (loc scale : α) (x : α) : α := loc + scale * x
def affineInv (loc scale : α) (y : α) : α := (y - loc) / scale
/-- `math.log(abs(scale))` broadcast -/
def affineLd (scale : α) (_x _y : α) : α := Trans.log (absS scale)

def softplusFwdT (x : α) : α := softplusT x
/-- `(-y).expm1().neg().log() + y` -/
def softplusInvT (y : α) : α := Trans.log (-(Trans.exp (-y) - 1)) + y
/-- `-softplus(-x)` -/
def softplusLdT (x _y : α) : α := -softplusT (-x)

/-- `x.pow(exponent)` -/
def powerFwd (e : α) (x : α) : α := Trans.pow x e
def powerInv (e : α) (y : α) : α := Trans.pow y (1 / e)
/-- `(exponent * y / x).abs().log()` -/
def powerLd (e : α) (x y : α) : α := Trans.log (absS (e * y / x))

/-! ### `_InverseTransform` and `ComposeTransform` (element-wise parts) -/

/-- `t.inv.log_abs_det_jacobian(x, y) = -t.log_abs_det_jacobian(y, x)` -/
def invLd (ld : α → α → α) (x y : α) : α := -(ld y x)

/-- an element-wise transform: forward map and reported log-Jacobian -/
structure Part (α : Type) where
  fwd : α → α
  ld : α → α → α

/-- `ComposeTransform.__call__` -/
def composeFwd (parts : List (Part α)) (x : α) : α := parts.foldl (fun v p => p.fwd v) x
/-- `ComposeTransform.log_abs_det_jacobian`: the intermediates are recomputed from `x`, the terms added -/
def composeLd : List (Part α) → α → α
  | [], _ => 0
  | p :: ps, x => p.ld x (p.fwd x) + composeLd ps (p.fwd x)

/-! ### StickBreakingTransform: `n` unconstrained coordinates ↦ a point of the `n`-simplex (`n+1` coordinates) -/

/-- `z = _clipped_sigmoid(x - offset.log())`, `offset_i = n + 1 - (i+1)` -/
def sbZ (lo hi : α) (n : Nat) (x : Nat → α) (i : Nat) : α :=
  clamp lo hi (sigmoid (x i - Trans.log (nat (n - i))))

/-- `(1 - z).cumprod(-1)[i]` -/
def cumprod1m (z : Nat → α) : Nat → α
  | 0 => 1 - z 0
  | i + 1 => cumprod1m z i * (1 - z (i + 1))

/-- `pad(z, [0,1], value=1) * pad(z_cumprod, [1,0], value=1)` -/
def sbFwd (lo hi : α) (n : Nat) (x : Nat → α) (i : Nat) : α :=
  (if i < n then sbZ lo hi n x i else 1) * (if i = 0 then 1 else cumprod1m (sbZ lo hi n x) (i - 1))

/-- `y_crop.log() - clamp(1 - y_crop.cumsum(-1), min=tiny).log() + offset.log()` -/
def sbInv (tiny : α) (n : Nat) (y : Nat → α) (i : Nat) : α :=
  Trans.log (y i) - Trans.log (clampMin tiny (1 - csum y i)) + Trans.log (nat (n - i))

/-- `(-x + F.logsigmoid(x) + y[..., :-1].log()).sum(-1)` with `x := x - offset.log()` -/
def sbLd (n : Nat) (x y : Nat → α) : α :=
  sumTo n (fun i =>
    (fun u => -u + logsigmoid u + Trans.log (y i)) (x i - Trans.log (nat (n - i))))

end

end TT.C07.Torch
