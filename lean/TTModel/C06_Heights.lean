import TTModel.Scalar
/-!
# C06 — node-height parameterisations (model of the code as written)

Mirrors `torchtree/evolution/tree_model.py` (`TimeTreeModel.update_traversals`,
`update_leaf_heights`, `node_heights`, `branch_lengths`) and
`torchtree/evolution/tree_height_transform.py` (`GeneralNodeHeightTransform`,
`DifferenceNodeHeightTransform`).

Index conventions kept as in the code:
* a leaf's index is its taxon's position in `Taxa` (`0 … n-1`);
* internal nodes are numbered in post-order starting at `n = taxa_count`, so the root is `2n-2`;
* `preorder` is the list of `(parent, child)` pairs in pre-order, root excluded;
* the transforms work on arrays of the `n-1` internal nodes, addressed by `index - taxa_count`;
* the ratio parameter vector is `ratios ++ [root_height]` (root = internal position `n-2`).

Tensors are modelled as functions `Nat → α` (the entries beyond the length are never read when
the tree is well formed); tensor updates `t[i] = v` as `upd`.
-/
namespace TT.C06

/-- `t[i] = v` -/
def upd {α : Type} (f : Nat → α) (i : Nat) (v : α) : Nat → α :=
  fun j => if j = i then v else f j

/-- A tensor under construction inside a loop. A structure (not a bare function) only so that the
compiled drivers evaluate every written entry once, when it is written: a loop body returning a
bare function would be eta-expanded by the compiler and re-evaluated at every later read.
`foldl_vec` (TTProofs/Lemmas/C06_Folds.lean) shows the wrapper changes nothing. -/
structure Vec (α : Type) where
  get : Nat → α

/-- a rooted binary tree as dendropy holds it after `resolve_polytomies`: leaves carry the
position of their taxon in `Taxa` -/
inductive BTree where
  | leaf (taxon : Nat)
  | node (l r : BTree)
deriving Repr, Inhabited, DecidableEq

namespace BTree

/-- number of internal nodes -/
def ints : BTree → Nat
  | leaf _ => 0
  | node l r => l.ints + r.ints + 1

/-- taxa at the tips, left to right -/
def tips : BTree → List Nat
  | leaf t => [t]
  | node l r => l.tips ++ r.tips

/-- index (`setup_indexes`) of the root of a subtree whose first internal node in post-order
receives number `k` -/
def rootIdx (k : Nat) : BTree → Nat
  | leaf t => t
  | node l r => k + l.ints + r.ints

/-- `AbstractTreeModel.update_traversals`: `(node, left, right)` in post-order -/
def post (k : Nat) : BTree → List (Nat × Nat × Nat)
  | leaf _ => []
  | node l r =>
      post k l ++ post (k + l.ints) r ++
        [(k + l.ints + r.ints, l.rootIdx k, r.rootIdx (k + l.ints))]

/-- `TimeTreeModel.update_traversals`: `(parent, child)` for every non-root node in pre-order -/
def pre (k : Nat) : BTree → List (Nat × Nat)
  | leaf _ => []
  | node l r =>
      (k + l.ints + r.ints, l.rootIdx k) :: pre k l ++
        (k + l.ints + r.ints, r.rootIdx (k + l.ints)) :: pre (k + l.ints) r

end BTree

/-- `tree_model.preorder` -/
def preorder (n : Nat) (t : BTree) : List (Nat × Nat) := t.pre n
/-- `tree_model.postorder` -/
def postorder (n : Nat) (t : BTree) : List (Nat × Nat × Nat) := t.post n

/-- `preorder[torch.argsort(preorder[:, 1])]` (keys are distinct on a well-formed tree) -/
def indicesSorted (n : Nat) (t : BTree) : List (Nat × Nat) :=
  (preorder n t).mergeSort (fun a b => a.2 ≤ b.2)

/-- `GeneralNodeHeightTransform._forward_indices`:
`preorder[preorder[:,1] >= taxa_count, :] - taxa_count` -/
def forwardIndices (n : Nat) (t : BTree) : List (Nat × Nat) :=
  ((preorder n t).filter (fun a => n ≤ a.2)).map (fun a => (a.1 - n, a.2 - n))

/-- `GeneralNodeHeightTransform._det_indices`:
`preorder[argsort(preorder[:,1])].t()[0, taxa_count:] - taxa_count` -/
def detIndices (n : Nat) (t : BTree) : List Nat :=
  ((indicesSorted n t).drop n).map (fun a => a.1 - n)

section numeric
variable {α : Type} [Add α] [Sub α] [Mul α] [Div α] [Zero α] [LT α] [DecidableLT α]

/-- `TimeTreeModel.update_leaf_heights`: dates → leaf heights. When the smallest date is 0 the
dates are taken as ages; otherwise as calendar dates and the height is `max − date`. -/
def listMax (d : List α) : α := d.foldl (fun m x => if m < x then x else m) (d.headD 0)
def listMin (d : List α) : α := d.foldl (fun m x => if x < m then x else m) (d.headD 0)

/-- `min(dates) == 0.0` is modelled with `<` only (`¬ m < 0 ∧ ¬ 0 < m`) -/
def leafHeights (dates : List α) : List α :=
  if listMin dates < 0 ∨ 0 < listMin dates then dates.map (fun d => listMax dates - d) else dates

/-- `GeneralNodeHeightTransform.update_bounds`, the list `internal_heights` (position
`node - taxa_count`) after the post-order loop -/
def boundsInternal (n : Nat) (s : Nat → α) (post : List (Nat × Nat × Nat)) : Nat → α :=
  (post.foldl (fun (ih : Vec α) (tr : Nat × Nat × Nat) =>
    let lh := if tr.2.1 < n then s tr.2.1 else ih.get (tr.2.1 - n)
    let rh := if tr.2.2 < n then s tr.2.2 else ih.get (tr.2.2 - n)
    Vec.mk (upd ih.get (tr.1 - n) (if rh < lh then lh else rh))) ⟨fun _ => 0⟩).get

/-- `_bounds = cat(sampling_times, stack(internal_heights))` -/
def bounds (n : Nat) (s : Nat → α) (post : List (Nat × Nat × Nat)) : Nat → α :=
  fun i => if i < n then s i else boundsInternal n s post (i - n)

/-- `GeneralNodeHeightTransform._call`: `heights = x.clone()`, `bounds = _bounds[n:]`, then
`heights[id] = bounds[id] + x[id] * (heights[parent] - bounds[id])` over `_forward_indices` -/
def ratioFwd (n : Nat) (b : Nat → α) (fwd : List (Nat × Nat)) (x : Nat → α) : Nat → α :=
  (fwd.foldl (fun (h : Vec α) (a : Nat × Nat) =>
    Vec.mk (upd h.get a.2 (b (n + a.2) + x a.2 * (h.get a.1 - b (n + a.2))))) ⟨x⟩).get

/-- `GeneralNodeHeightTransform._inverse` (with the concatenation along the last axis):
position `j < n-2` gets `(y[c-n] - bounds[c]) / (y[p-n] - bounds[c])` for the pair `(p,c)` at
position `n+j` of the child-sorted pre-order; the last position gets `y[-1]`. -/
def ratioInv (n : Nat) (b : Nat → α) (srt : List (Nat × Nat)) (y : Nat → α) : Nat → α :=
  fun j =>
    if j < n - 2 then
      let a := srt.getD (n + j) (0, 0)
      (y (a.2 - n) - b a.2) / (y (a.1 - n) - b a.2)
    else y (n - 2)

/-- the terms whose logs `GeneralNodeHeightTransform.log_abs_det_jacobian` sums:
`y[_det_indices] - _bounds[n:-1]` -/
def ratioDetTerms (n : Nat) (b : Nat → α) (det : List Nat) (y : Nat → α) : List α :=
  (det.zipIdx).map (fun a => y a.1 - b (n + a.2))

/-- `node_heights = cat(sampling_times, internal heights)` -/
def nodeHeights (n : Nat) (s : Nat → α) (h : Nat → α) : Nat → α :=
  fun i => if i < n then s i else h (i - n)

/-- `TimeTreeModel.branch_lengths`: `heights[indices_sorted[0]] - heights[indices_sorted[1]]` -/
def branchLengths (srt : List (Nat × Nat)) (H : Nat → α) : List α :=
  srt.map (fun a => H a.1 - H a.2)

/-- `DifferenceNodeHeightTransform._call`: the list `heights` (all `2n-1` nodes) after the
post-order loop; `mx` is `torch.max` (k ≤ 0) or the smooth maximum (k > 0). The transform
returns `heights[n:]`. -/
def diffFwdAll (n : Nat) (mx : α → α → α) (s : Nat → α) (post : List (Nat × Nat × Nat))
    (x : Nat → α) : Nat → α :=
  (post.foldl (fun (H : Vec α) (tr : Nat × Nat × Nat) =>
    Vec.mk (upd H.get tr.1 (mx (H.get tr.2.1) (H.get tr.2.2) + x (tr.1 - n))))
    ⟨fun i => if i < n then s i else 0⟩).get

def diffFwd (n : Nat) (mx : α → α → α) (s : Nat → α) (post : List (Nat × Nat × Nat))
    (x : Nat → α) : Nat → α :=
  fun j => diffFwdAll n mx s post x (n + j)

/-- `DifferenceNodeHeightTransform._inverse`: `x[node-n] = heights[node] - max(heights[left],
heights[right])` with `heights = sampling_times ++ y` -/
def diffInv (n : Nat) (mx : α → α → α) (s : Nat → α) (post : List (Nat × Nat × Nat))
    (y : Nat → α) : Nat → α :=
  (post.foldl (fun (X : Vec α) (tr : Nat × Nat × Nat) =>
    Vec.mk (upd X.get (tr.1 - n)
      (nodeHeights n s y tr.1 - mx (nodeHeights n s y tr.2.1) (nodeHeights n s y tr.2.2))))
    ⟨fun _ => 0⟩).get

/-- `torch.max` of two values -/
def max2 (a b : α) : α := if a < b then b else a

end numeric

/-- smooth maximum `torch.logsumexp(k·[a,b]) / k` used when `k > 0`. `torch.logsumexp` subtracts the
larger argument before exponentiating (so it cannot overflow); the model does the same:
`m + log(exp(ka − m) + exp(kb − m))` with `m = max(ka, kb)`, divided by `k`. -/
def smoothMax {α : Type} [Add α] [Sub α] [Mul α] [Div α] [Trans α] [LT α] [DecidableLT α]
    (k : α) (a b : α) : α :=
  let m := if a * k < b * k then b * k else a * k
  (m + Trans.log (Trans.exp (a * k - m) + Trans.exp (b * k - m))) / k

/-! ## which parameterisation a model carries (device/dtype state machine) -/

/-- the two node-height parameterisations a `ReparameterizedTimeTreeModel` can carry -/
inductive Kind | ratio | difference
deriving Repr, DecidableEq, Inhabited

/-- what a `cuda/cpu/to` method body does to `self.transform` -/
inductive DevAction
  | keep                 -- does not assign `self.transform`
  | install (k : Kind)   -- assigns a fixed constructor whatever the current transform is
  | reinstall            -- rebuilds a transform of the class currently installed
  | unrecognised         -- code shape the translator does not understand
deriving Repr, DecidableEq, Inhabited

/-- kind in force after the action; `none` = cannot tell -/
def DevAction.apply : DevAction → Kind → Option Kind
  | .keep, k => some k
  | .install k', _ => some k'
  | .reinstall, k => some k
  | .unrecognised, _ => none

end TT.C06
