import TTModel.C11_Cache
/-!
# C11 — which inputs each class READS (hand-written; semantic)

For every class of the anchored files (and the further classes used in the check's graph) the
observable quantities (`cells`), the dirty flag guarding each, the notifications each is sensitive
to, and the groups of inputs it reads.  The guard named here is cross-checked against the guard
the translator finds in the source (`cellOK`), the rest is validated by perturbation against the
real objects on every run of `./check C11` (an input whose change alters the freshly rebuilt
value must be read according to this table).
-/
namespace TT.C11.Reads
open TT.C11

private def P : Kind := .param
private def M : Kind := .model

/-- a cached `CallableModel` value -/
private def lp (kinds : List Kind) (ext : List (Origin × Kind)) (own : List (Nat × Bool) := []) : CellT :=
  { getter := "__call__", impl := "__call__", guard := some "lp_needs_update", always := false,
    kinds := kinds, ext := ext, own := own }

/-- an uncached quantity -/
private def live (getter : String) (kinds : List Kind) (ext : List (Origin × Kind))
    (own : List (Nat × Bool) := []) : CellT :=
  { getter := getter, impl := getter, guard := none, always := false, kinds := kinds, ext := ext, own := own }

def table : List ClassReads := [
  -- core/parameter.py ---------------------------------------------------------------------
  { cls := "Parameter", leaf := true, setter := .leaf, cells := [live "tensor" [] []] },
  { cls := "ViewParameter", leaf := false, setter := .view,
    cells := [live "tensor" [P] [(.explicit, P)]] },
  { cls := "CatParameter", leaf := false, setter := .cat,
    cells := [{ getter := "tensor", impl := "update", guard := some "_need_update", always := false,
                kinds := [P], ext := [(.explicit, P)], own := [] }] },
  -- `tensor` reads x (attribute) and whatever the transform object itself depends on
  -- (`RescaledRateTransform(rate, tree_model)`, `ConvexCombinationTransform(weights)`,
  -- `LinearTransform(weight, bias)`); `__call__` = log|det J| reads x and the cached tensor
  { cls := "TransformedParameter", leaf := false, setter := .trans,
    cells := [{ getter := "tensor", impl := "tensor", guard := some "need_update", always := false,
                kinds := [P, M], ext := [(.attr, P), (.explicit, P), (.explicit, M)], own := [] },
              live "__call__" [P, M] [(.attr, P)] [(0, true)]] },
  -- core/container.py: forwards; its "contents" are what its holder reads through it
  { cls := "Container", leaf := false, setter := .none,
    cells := [live "contents" [P, M] [(.attr, P), (.attr, M)]] },
  -- evolution/tree_model.py ------------------------------------------------------------------
  { cls := "UnRootedTreeModel", leaf := false, setter := .none,
    cells := [live "branch_lengths" [P] [(.attr, P)]] },
  { cls := "TimeTreeModel", leaf := false, setter := .none,
    cells := [{ getter := "node_heights", impl := "node_heights", guard := some "heights_need_update",
                always := false, kinds := [P], ext := [(.attr, P)], own := [] },
              { getter := "branch_lengths", impl := "branch_lengths", guard := some "branch_lengths_need_update",
                always := false, kinds := [P], ext := [], own := [(0, true)] }] },
  { cls := "FlexibleTimeTreeModel", leaf := false, setter := .none,
    cells := [{ getter := "node_heights", impl := "node_heights", guard := some "heights_need_update",
                always := false, kinds := [P], ext := [(.attr, P)], own := [] },
              { getter := "branch_lengths", impl := "branch_lengths", guard := some "branch_lengths_need_update",
                always := false, kinds := [P], ext := [], own := [(0, true)] }] },
  -- `_call` refreshes the heights WITHOUT clearing heights_need_update (own read (0,false))
  { cls := "ReparameterizedTimeTreeModel", leaf := false, setter := .none,
    cells := [{ getter := "node_heights", impl := "node_heights", guard := some "heights_need_update",
                always := false, kinds := [P], ext := [(.attr, P)], own := [] },
              { getter := "branch_lengths", impl := "branch_lengths", guard := some "branch_lengths_need_update",
                always := false, kinds := [P], ext := [], own := [(0, true)] },
              lp [P] [(.attr, P)] [(0, false)]] },
  -- evolution/site_model.py ------------------------------------------------------------------
  -- rates() and probabilities() are refreshed together under one flag: one cell
  { cls := "ConstantSiteModel", leaf := false, setter := .none,
    cells := [{ getter := "rates", impl := "rates", guard := some "needs_update", always := true,
                kinds := [P], ext := [(.attr, P)], own := [] }] },
  { cls := "InvariantSiteModel", leaf := false, setter := .none,
    cells := [{ getter := "rates", impl := "rates", guard := some "needs_update", always := false,
                kinds := [P], ext := [(.attr, P)], own := [] }] },
  { cls := "WeibullSiteModel", leaf := false, setter := .none,
    cells := [{ getter := "rates", impl := "rates", guard := some "needs_update", always := false,
                kinds := [P], ext := [(.attr, P)], own := [] }] },
  -- evolution/substitution_model ----------------------------------------------------------------
  { cls := "MG94", leaf := false, setter := .none, cells := [live "q" [P] [(.attr, P)]] },
  { cls := "HKY", leaf := false, setter := .none, cells := [live "q" [P] [(.attr, P)]] },
  { cls := "GTR", leaf := false, setter := .none, cells := [live "q" [P] [(.attr, P)]] },
  -- evolution/branch_model.py: `rates` reads the rate parameter only (the tree gives a constant count)
  { cls := "StrictClockModel", leaf := false, setter := .none, cells := [live "rates" [P] [(.attr, P)]] },
  { cls := "SimpleClockModel", leaf := false, setter := .none, cells := [live "rates" [P] [(.attr, P)]] },
  { cls := "SitePattern", leaf := false, setter := .none, cells := [] },
  -- distributions/tree_prior.py ---------------------------------------------------------------
  { cls := "CompoundGammaDirichletPrior", leaf := false, setter := .none,
    cells := [lp [P, M] [(.attr, P), (.attr, M)]] },
  -- further CallableModels of the graph ----------------------------------------------------------
  { cls := "ConstantCoalescentModel", leaf := false, setter := .none,
    cells := [lp [P, M] [(.attr, P), (.attr, M)]] },
  { cls := "TreeLikelihoodModel", leaf := false, setter := .none, cells := [lp [M] [(.attr, M)]] },
  -- x is an attribute, the distribution's parameters are read through the Container it builds
  { cls := "Distribution", leaf := false, setter := .none,
    cells := [lp [P, M] [(.attr, P), (.attr, M)]] },
  { cls := "JointDistributionModel", leaf := false, setter := .none, cells := [lp [M] [(.attr, M)]] },
  -- JC69 has no parameters: its rate matrix is a constant
  { cls := "JC69", leaf := false, setter := .none, cells := [live "q" [] []] },
  { cls := "ExponentialCoalescentModel", leaf := false, setter := .none,
    cells := [lp [P, M] [(.attr, P), (.attr, M)]] },
  -- torchtree's own MultivariateNormal model: x, loc and the matrix parameter are attributes
  { cls := "MultivariateNormal", leaf := false, setter := .none, cells := [lp [P] [(.attr, P)]] },
  { cls := "BayesianBridge", leaf := false, setter := .none, cells := [lp [P] [(.attr, P)]] },
  { cls := "CTMCScale", leaf := false, setter := .none, cells := [lp [P, M] [(.attr, P), (.attr, M)]] }
]

def find (n : String) : ClassReads :=
  (table.find? fun c => c.cls == n).getD { cls := "?", leaf := false, setter := .none, cells := [] }

/-- classes defined in the files the property anchors (abstract bases have no instances and no
quantities of their own; they are covered through their concrete subclasses) -/
def anchored : List String := [
  "Parameter", "ViewParameter", "CatParameter", "TransformedParameter", "Container",
  "UnRootedTreeModel", "TimeTreeModel", "ReparameterizedTimeTreeModel",
  "ConstantSiteModel", "InvariantSiteModel", "WeibullSiteModel",
  "CompoundGammaDirichletPrior", "MG94"]

/-- the other classes the check's graph instantiates -/
def further : List String := [
  "FlexibleTimeTreeModel", "HKY", "GTR", "StrictClockModel", "SimpleClockModel", "SitePattern", "ConstantCoalescentModel",
  "TreeLikelihoodModel", "Distribution", "JointDistributionModel", "JC69", "ExponentialCoalescentModel",
  "MultivariateNormal", "BayesianBridge", "CTMCScale"]

end TT.C11.Reads
