import TTModel.C03_Rescale
/-!
# C03 — batched evaluation (a leading sample dimension): ONE flag, ONE `rescaled[]` list

With a sample dimension `[B, …]` the functions of `tree_likelihood.py` work on all samples at once:

* `self.rescale` is an attribute of the model object, not of a sample;
* `torch.any(torch.isinf(log_p))` (after fix F21 also `torch.any(root max < threshold)`) is taken
  over ALL samples: if any sample asks for the switch, every sample is recomputed by the safe pass
  and from then on every sample of every later evaluation takes the rescaled branch;
* inside `calculate_treelikelihood_discrete_safe` the list `rescaled[]` is shared and the test
  `torch.any(torch.max(partials[node], -2)[0] < threshold)` runs over samples too: a node of sample
  `b` is recomputed and rescaled because some OTHER sample is below the threshold there;
* everything else (matrices, partials, scalers, returned value) is per sample.

`safeStepD` is the safe loop body with the threshold decision supplied from outside; the batched
pass projected to one sample is such a pass (`TTProofs/Lemmas/C03_Batch.lean`).
-/
namespace TT.C03

section dec
variable {α : Type} [Add α] [Mul α] [Zero α] [Div α]
variable {N K S : Nat}

/-- body of the safe loop with the outcome `td.2` of the threshold test given -/
def safeStepD (scaler : Nat → Fin N → Part α N K S → α) (M : Mats α K S) (ss : SState α N K S)
    (td : Triple × Bool) : SState α N K S :=
  if ss.flags td.1.2.1 || ss.flags td.1.2.2 || td.2 then
    let raw := combine 0 noTips M ss.st td.1.2.1 td.1.2.2
    let sc : Vector α N := Vector.ofFn fun n => scaler td.1.1 n raw
    { st := ss.st.set td.1.1 (divide raw sc),
      flags := setFlag ss.flags td.1.1,
      scalers := ss.scalers ++ [sc] }
  else ss

def peelSafeDec (scaler : Nat → Fin N → Part α N K S → α) (M : Mats α K S) (ss : SState α N K S)
    (tds : List (Triple × Bool)) : SState α N K S :=
  tds.foldl (safeStepD scaler M) ss

end dec

section batch
variable {α : Type} [Add α] [Mul α] [Zero α] [One α] [Div α] [Max α] [LT α] [DecidableLT α] [Trans α]
variable {N K S B : Nat}

/-- loop state of the safe pass on a batch: per-sample lists and scalers, one shared `rescaled[]` -/
structure BState (α : Type) (N K S B : Nat) where
  st : Fin B → Store α N K S
  flags : Nat → Bool
  scalers : Fin B → List (Vector α N)

/-- `torch.any(torch.max(partials[node], -2)[0] < threshold)` over categories, sites AND samples -/
def belowThrB (thr : α) (st : Fin B → Store α N K S) (node : Nat) : Bool :=
  (List.finRange B).any fun b => belowThr thr ((st b).get node)

/-- body of `calculate_treelikelihood_discrete_safe` on a batch -/
def safeStepB (thr : α) (M : Fin B → Mats α K S) (bs : BState α N K S B) (t : Triple) :
    BState α N K S B :=
  if bs.flags t.2.1 || bs.flags t.2.2 || belowThrB thr bs.st t.1 then
    { st := fun b => (rescStep (fun _ n p => maxKS p n) 0 noTips (M b) ⟨bs.st b, bs.scalers b⟩ t).st,
      flags := setFlag bs.flags t.1,
      scalers := fun b => (rescStep (fun _ n p => maxKS p n) 0 noTips (M b) ⟨bs.st b, bs.scalers b⟩ t).scalers }
  else bs

def peelSafeB (thr : α) (M : Fin B → Mats α K S) (st : Fin B → Store α N K S) (ts : List Triple) :
    BState α N K S B :=
  ts.foldl (safeStepB thr M) ⟨st, fun _ => false, fun _ => []⟩

/-- one sample of the batched loop state, as a single-sample loop state -/
def BState.sample (bs : BState α N K S B) (b : Fin B) : SState α N K S :=
  ⟨bs.st b, bs.flags, bs.scalers b⟩

/-- `calculate_with_tip_partials` on a batch: `switchB values rootPartials` is the test over all
  samples. Returns per-sample values, the branch (one for the whole batch), the flag, the lists. -/
def evalBatchPartials (switchB : (Fin B → α) → (Fin B → Part α N K S) → Bool) (thr : α)
    (w : Fin N → α) (ts : List Triple) (rescale : Bool) (st : Fin B → Store α N K S)
    (inp : Fin B → Inputs α K S) : (Fin B → α) × Branch × Bool × (Fin B → Store α N K S) :=
  if rescale then
    (fun b =>
      let rs := peelRescaled 0 noTips (inp b).mats (st b) ts
      logLikScaled (inp b).freqs (inp b).props w (rs.st.get (rootOf ts)) rs.scalers,
     .rescaled, true, fun b => (peelRescaled 0 noTips (inp b).mats (st b) ts).st)
  else
    let st1 : Fin B → Store α N K S := fun b => peel 0 noTips (inp b).mats (st b) ts
    let v : Fin B → α := fun b => logLikPlain (inp b).freqs (inp b).props w ((st1 b).get (rootOf ts))
    if switchB v (fun b => (st1 b).get (rootOf ts)) then
      let bs := peelSafeB thr (fun b => (inp b).mats) st1 ts
      (fun b => logLikScaled (inp b).freqs (inp b).props w ((bs.st b).get (rootOf ts)) (bs.scalers b),
       .plainThenSafe, true, bs.st)
    else (v, .plain, false, st1)

/-- a history of batched evaluations of one model object: (values, branch, flag afterwards) -/
def runBatch (thr : α) (w : Fin N → α) (ts : List Triple) :
    Bool → (Fin B → Store α N K S) →
    List ((Fin B → Inputs α K S) × ((Fin B → α) → (Fin B → Part α N K S) → Bool)) →
    List ((Fin B → α) × Branch × Bool)
  | _, _, [] => []
  | r, st, e :: rest =>
    let out := evalBatchPartials e.2 thr w ts r st e.1
    (out.1, out.2.1, out.2.2.1) :: runBatch thr w ts out.2.2.1 out.2.2.2 rest

end batch

end TT.C03
