import TTModel.Scalar
import TTModel.C08_Coalescent
/-!
# C20 — executable model of the smoothing / integrated priors and of the sufficient statistics

`torchtree/distributions/gmrf.py` (`GMRF._call`, `GMRF.precision_matrix`),
`torchtree/distributions/gmrf_integrated.py` (`GMRFGammaIntegrated._call`),
`torchtree/evolution/coalescent.py` (`ConstantCoalescentIntegrated.log_prob`,
`PiecewiseConstantCoalescent(Grid).sufficient_statistics`).  Core Lean only; scalar-polymorphic.
-/
namespace TT.C20
open TT TT.C08

variable {α : Type}

/-- `torch.pow(field[..., :-1] - field[..., 1:], 2.0)` -/
def diffSq [Sub α] [Mul α] : List α → List α
  | a :: b :: rest => ((a - b) * (a - b)) :: diffSq (b :: rest)
  | _ => []

section weights
variable [Add α] [Sub α] [Mul α] [Div α] [Zero α] [OfNat α 2] [LE α] [DecidableLE α]

/-- sorted `cat([0], internal heights)` of the time-aware GMRF -/
def sortedHeights (internal : List α) : List α :=
  times (sortEvents ((0 :: internal).map fun h => (⟨h, 0⟩ : Ev α)))

/-- the divisor of the time-aware GMRF: `(durations[:-1] + durations[1:]) / 2` (then `/ root` when
`rescale`: the code multiplies the squared differences by `heights_sorted[-1]`) -/
def timeAwareWeights (rescale : Bool) (internal : List α) : List α :=
  let hs := sortedHeights internal
  let dur := diffs hs
  let w := List.zipWith (fun a b => (a + b) / 2) dur dur.tail
  if rescale then w.map (fun x => x / hs.getLastD 0) else w

/-- `diff_square` after the optional division (`None` = plain GMRF) -/
def scaledDiffSq (w : Option (List α)) (field : List α) : List α :=
  match w with
  | none => diffSq field
  | some w => List.zipWith (fun q w => q / w) (diffSq field) w

/-- precision of each first difference, `τ / w_i` (plain: `τ`), as used by the repaired
`precision_matrix` (F19) -/
def offDiag (τ : α) (w : Option (List α)) (n : Nat) : List α :=
  match w with
  | none => List.replicate (n - 1) τ
  | some w => (w.take (n - 1)).map (fun w => τ / w)

end weights

section matrix
variable [Add α] [Neg α] [Zero α]

/-- entry `(i, j)` of the matrix `precision_matrix` publishes, `off` = precisions of the first
differences: off-diagonals `-off_i`, diagonal `off_{i-1} + off_i` (missing neighbours count 0; with all
`off_i = τ` this is `τ, 2τ, …, 2τ, τ`) -/
def precEntry (off : List α) (i j : Nat) : α :=
  if i = j then off.getD i 0 + (if 1 ≤ i then off.getD (i - 1) 0 else 0)
  else if j = i + 1 then -(off.getD i 0)
  else if i = j + 1 then -(off.getD j 0)
  else 0

/-- `GMRF.precision_matrix()` as rows -/
def precisionMatrix (off : List α) : List (List α) :=
  (List.range (off.length + 1)).map fun i => (List.range (off.length + 1)).map fun j => precEntry off i j

/-- `xᵀ Q x` -/
def quadForm [Mul α] (Q : List (List α)) (x : List α) : α :=
  (List.zipWith (fun xi row => (List.zipWith (fun q xj => xi * q * xj) row x).sum) x Q).sum

end matrix

section density
variable [Add α] [Sub α] [Mul α] [Div α] [Neg α] [Zero α] [IntCast α] [OfNat α 2] [Trans α]

/-- `GMRF._call`: `log τ · dim/2 − Σ q · τ/2 − dim/2 · 1.8378770664093453`, `dim = len(field) − 1`;
`log2pi` is the literal constant of the code -/
def gmrfLogProb (log2pi τ : α) (qs : List α) (fieldLen : Nat) : α :=
  let dim : α := (((fieldLen - 1 : Nat) : Int) : α)
  Trans.log τ * dim / 2 - qs.sum * τ / 2 - dim / 2 * log2pi

/-- `GMRFGammaIntegrated._call`; `lgA = lgamma(shape)`, `lgAd = lgamma(shape + dim/2)` are computed by
`math.lgamma` and passed in -/
def gammaIntegratedLogProb (log2pi shape rate lgA lgAd : α) (qs : List α) (fieldLen : Nat) : α :=
  let dim : α := (((fieldLen - 1 : Nat) : Int) : α)
  (-dim / 2 * log2pi + shape * Trans.log rate - lgA + lgAd)
    - (shape + dim / 2) * Trans.log (qs.sum / 2 + rate)

/-- `ConstantCoalescentIntegrated.log_prob`; `stat = Σ lchoose2·durations` (`C08.constantStat`),
`m = n − 1` coalescent events, `lgA = lgamma(alpha)`, `lgAm = lgamma(alpha + m)` -/
def constantIntegratedLogProb (alpha beta lgA lgAm stat : α) (m : Nat) : α :=
  alpha * Trans.log beta - lgA + lgAm - (alpha + ((m : Int) : α)) * Trans.log (beta + stat)

end density

/-! ### sufficient statistics -/

/-- put `x` in front of the first section -/
def consHead {β : Type} (x : β) : List (List β) → List (List β)
  | g :: gs => (x :: g) :: gs
  | [] => [[x]]

/-- `torch.tensor_split(values, torch.where(mask == v)[0])`: cut `values` before every position whose
mark is `v` (a mark at a position past the end of `values` still opens a new, empty, section).  The
head of the result is the section that is open at the current position. -/
def splitAtMarks {β : Type} (v : Int) : List Int → List β → List (List β)
  | [], vals => [vals]
  | m :: ms, [] => if m = v then [] :: splitAtMarks v ms [] else splitAtMarks v ms []
  | m :: ms, x :: xs =>
      if m = v then [] :: consHead x (splitAtMarks v ms xs) else consHead x (splitAtMarks v ms xs)

section suff
variable [Add α] [Sub α] [Mul α] [Div α] [Zero α] [IntCast α] [OfNat α 2] [LE α] [DecidableLE α]

/-- `lchoose2 * durations` of the sorted events -/
def intervalTerms (ev : List (Ev α)) : List α :=
  List.zipWith (fun k d => (choose2 k : α) * d) (lineages ev) (diffs (times ev))

/-- `PiecewiseConstantCoalescentGrid.sufficient_statistics`: (Σ per grid section, coalescent counts per
grid section) -/
def skygridSuffStats (grid heights : List α) : List α × List Nat :=
  let ev := sortEvents (mkEvents heights grid)
  ((splitAtMarks 0 (marks ev) (intervalTerms ev)).map List.sum,
   (splitAtMarks 0 (marks ev) (isMark (-1) (marks ev))).map List.sum)

/-- `PiecewiseConstantCoalescent.sufficient_statistics`: sections between coalescent marks, `groups[:-1]`;
counts are `ones(n − 1)` -/
def skyrideSuffStats (heights : List α) : List α × List Nat :=
  let ev := sortEvents (mkEvents heights [])
  (((splitAtMarks (-1) (marks ev) (intervalTerms ev)).dropLast).map List.sum,
   List.replicate (taxaCount heights - 1) 1)

end suff

/-- `Σ_g ss_g / θ_g + Σ_g c_g · log θ_g`: what the block-update sampler takes for `−log p` -/
def reproduce [Add α] [Mul α] [Div α] [Zero α] [IntCast α] [Trans α] (θ ss : List α) (cnt : List Nat) : α :=
  (List.zipWith (fun s t => s / t) ss θ).sum
    + (List.zipWith (fun (c : Nat) t => ((c : Int) : α) * Trans.log t) cnt θ).sum

end TT.C20
