/-!
# C17 — what a checkpoint file does to a state value (core Lean only)

Mirrors `torchtree/core/parameter_encoder.py:ParameterEncoder`, `torchtree/core/utils.py:
TensorEncoder / TensorDecoder` composed with Python's `json.dump` / `json.load` semantics:

* `json.dump`   : tuples are written as arrays; dictionary keys are written as strings
                  (`1 ↦ "1"`); `default` is called on tensors and `Parameter`s.
* `json.load`   : every JSON object becomes `dict(pairs)` (first position, last value for a
                  repeated key) and is then handed to `TensorDecoder.object_hook`, bottom-up.
* `object_hook` : a dictionary whose `"type"` is `"torch.Tensor"` becomes a tensor
                  (`dtype` from `"dtype"` through `getattr(torch, name.split(".")[-1])`, wrapped in
                  `nn.Parameter` when the key `"nn"` is present — whatever its value); everything
                  else stays a dictionary, in particular the encoding of a `Parameter`.

`decode` returns `none` where Python raises.  Floats are carried as IEEE bit patterns.
-/
namespace TT.C17

inductive DType
  | float16 | float32 | float64 | int32 | int64 | bool
deriving DecidableEq, Repr, Inhabited

/-- `str(tensor.dtype)` -/
def DType.name : DType → String
  | .float16 => "torch.float16" | .float32 => "torch.float32" | .float64 => "torch.float64"
  | .int32 => "torch.int32" | .int64 => "torch.int64" | .bool => "torch.bool"

/-- `getattr(torch, s.split(".")[-1])` restricted to the modelled dtypes: both `torch.float64` and
`float64` resolve; anything else raises -/
def DType.parse (s : String) : Option DType :=
  if s = "torch.float16" ∨ s = "float16" then some .float16
  else if s = "torch.float32" ∨ s = "float32" then some .float32
  else if s = "torch.float64" ∨ s = "float64" then some .float64
  else if s = "torch.int32" ∨ s = "int32" then some .int32
  else if s = "torch.int64" ∨ s = "int64" then some .int64
  else if s = "torch.bool" ∨ s = "bool" then some .bool
  else none

def DType.isFloat : DType → Bool
  | .float16 | .float32 | .float64 => true
  | _ => false

/-- dictionary keys occurring in run state -/
inductive Key
  | int (n : Int)
  | str (s : String)
deriving DecidableEq, Repr, Inhabited

/-- `json.dump` writes every key as a string (`str(n)` for an integer) -/
def Key.toStr : Key → String
  | .int n => n.repr
  | .str s => s

mutual
/-- Python values that occur in a `state_dict` -/
inductive Val
  | none
  | bool (b : Bool)
  | int (n : Int)
  | float (bits : Nat)
  | str (s : String)
  | list (xs : Vals)
  | tuple (xs : Vals)
  | dict (kvs : KVs)
  /-- `torch.Tensor` / `nn.Parameter` (flag): `data` is what `.tolist()` returns -/
  | tensor (dt : DType) (nn : Bool) (data : Val)
  /-- torchtree `Parameter(id, tensor)` -/
  | param (id : String) (dt : DType) (nn : Bool) (data : Val)
inductive Vals
  | nil
  | cons (v : Val) (r : Vals)
inductive KVs
  | nil
  | cons (k : Key) (v : Val) (r : KVs)
end

mutual
inductive Json
  | null
  | bool (b : Bool)
  | int (n : Int)
  | float (bits : Nat)
  | str (s : String)
  | arr (xs : Jsons)
  | obj (kvs : JKVs)
inductive Jsons
  | nil
  | cons (j : Json) (r : Jsons)
inductive JKVs
  | nil
  | cons (k : String) (j : Json) (r : JKVs)
end

instance : Inhabited Val := ⟨.none⟩
instance : Inhabited Json := ⟨.null⟩

/-! ## dictionaries as insertion-ordered association lists -/

/-- `d[k] = v` on a `dict` (position of the first insertion is kept) -/
def KVs.upsert (k : String) (v : Val) : KVs → KVs
  | .nil => .cons (.str k) v .nil
  | .cons k' v' r => if k'.toStr = k then .cons k' v r else .cons k' v' (KVs.upsert k v r)

def KVs.lookup (k : String) : KVs → Option Val
  | .nil => Option.none
  | .cons k' v r => if k'.toStr = k then some v else KVs.lookup k r

/-- lookup by the Python key itself: `1` and `"1"` are different keys -/
def KVs.lookupKey (k : Key) : KVs → Option Val
  | .nil => Option.none
  | .cons k' v r => if k' = k then some v else KVs.lookupKey k r

def KVs.erase (k : String) : KVs → KVs
  | .nil => .nil
  | .cons k' v r => if k'.toStr = k then KVs.erase k r else .cons k' v (KVs.erase k r)

def KVs.keys : KVs → List String
  | .nil => []
  | .cons k _ r => k.toStr :: KVs.keys r

def KVs.append : KVs → KVs → KVs
  | .nil, b => b
  | .cons k v r, b => .cons k v (KVs.append r b)

/-! ## encoder -/

mutual
/-- `json.dumps(v, cls=ParameterEncoder)` as a JSON tree -/
def encode : Val → Json
  | .none => .null
  | .bool b => .bool b
  | .int n => .int n
  | .float x => .float x
  | .str s => .str s
  | .list xs => .arr (encodeVals xs)
  | .tuple xs => .arr (encodeVals xs)
  | .dict kvs => .obj (encodeKVs kvs)
  | .tensor dt nn data =>
      -- TensorEncoder.default: {"type", "values", "dtype"} and "nn": True only for nn.Parameter
      .obj (.cons "type" (.str "torch.Tensor") (.cons "values" (encode data) (.cons "dtype" (.str dt.name)
        (if nn then .cons "nn" (.bool true) .nil else .nil))))
  | .param id dt nn data =>
      -- ParameterEncoder.default: always writes "nn"
      .obj (.cons "id" (.str id) (.cons "type" (.str "torchtree.Parameter") (.cons "tensor" (encode data)
        (.cons "dtype" (.str dt.name) (.cons "nn" (.bool nn) .nil)))))
def encodeVals : Vals → Jsons
  | .nil => .nil
  | .cons v r => .cons (encode v) (encodeVals r)
def encodeKVs : KVs → JKVs
  | .nil => .nil
  | .cons k v r => .cons k.toStr (encode v) (encodeKVs r)
end

/-! ## decoder -/

/-! kinds of leaves of a nested list, for `torch.tensor`'s dtype inference -/
mutual
def hasFloat : Val → Bool
  | .float _ => true
  | .list xs => hasFloatVals xs
  | _ => false
def hasFloatVals : Vals → Bool
  | .nil => false
  | .cons v r => hasFloat v || hasFloatVals r
end
mutual
def hasInt : Val → Bool
  | .int _ => true
  | .list xs => hasIntVals xs
  | _ => false
def hasIntVals : Vals → Bool
  | .nil => false
  | .cons v r => hasInt v || hasIntVals r
end
mutual
def hasBool : Val → Bool
  | .bool _ => true
  | .list xs => hasBoolVals xs
  | _ => false
def hasBoolVals : Vals → Bool
  | .nil => false
  | .cons v r => hasBool v || hasBoolVals r
end

/-- `torch.tensor(values)` without a dtype: floats → the default dtype, else ints → int64,
else bools → bool, empty → the default dtype -/
def inferDType (dflt : DType) (data : Val) : DType :=
  if hasFloat data then dflt else if hasInt data then .int64 else if hasBool data then .bool else dflt

/-- `dic["type"] == "torch.Tensor"` (after the `"type" in dic` test) -/
def isTensorTag : Option Val → Bool
  | some (.str s) => s == "torch.Tensor"
  | _ => false

/-- keyword arguments of `torch.tensor` that are not part of the modelled identity of a tensor -/
def tensorKwargs : List String := ["device", "requires_grad", "pin_memory"]

/-- `TensorDecoder.object_hook` applied to an already decoded dictionary.
`torch.tensor(values, dtype=…)` casts every leaf to the dtype; the model keeps the leaves as they
are, i.e. it covers dictionaries whose `values` already have the dtype's Python type and are exactly
representable in it — always the case for what `TensorEncoder` wrote (`tolist()` of that dtype). -/
def objectHook (dflt : DType) (d : KVs) : Option Val :=
  if isTensorTag (d.lookup "type") then
    let d1 := d.erase "type"
    let dt? : Option (Option DType) :=
      match d1.lookup "dtype" with
      | Option.none => some Option.none
      | some (.str s) => (DType.parse s).map some  -- getattr fails → raises
      | some _ => Option.none                          -- `.split` on a non-string raises
    match dt? with
    | Option.none => Option.none
    | some dt =>
      let nn := (d1.lookup "nn").isSome
      let d2 := d1.erase "nn"
      match d2.lookup "values" with
      | Option.none => Option.none  -- KeyError
      | some values =>
        let rest := ((d2.erase "values").erase "dtype").keys
        if rest.all (fun k => tensorKwargs.contains k) then
          let dt' := dt.getD (inferDType dflt values)
          -- `torch.nn.Parameter(tensor)` asks for gradients: only floating point tensors can
          if nn && !dt'.isFloat then Option.none else some (.tensor dt' nn values)
        else Option.none  -- TypeError: unexpected keyword argument
  else some (.dict d)

mutual
/-- `json.load(fp, cls=TensorDecoder)`; `dflt` is torch's default dtype -/
def decode (dflt : DType) : Json → Option Val
  | .null => some .none
  | .bool b => some (.bool b)
  | .int n => some (.int n)
  | .float x => some (.float x)
  | .str s => some (.str s)
  | .arr xs => (decodeVals dflt xs).map .list
  | .obj kvs => (decodeKVs dflt kvs .nil).bind (objectHook dflt)
def decodeVals (dflt : DType) : Jsons → Option Vals
  | .nil => some .nil
  | .cons j r => (decode dflt j).bind fun v => (decodeVals dflt r).map (.cons v)
/-- `dict(pairs)`: accumulate left to right -/
def decodeKVs (dflt : DType) : JKVs → KVs → Option KVs
  | .nil, acc => some acc
  | .cons k j r, acc => (decode dflt j).bind fun v => decodeKVs dflt r (acc.upsert k v)
end

/-! ## what comes back: the canonical image of a value -/

mutual
/-- what `decode ∘ encode` turns a value into (`none`: reading the file back raises).
It is the identity except for the lossy coercions, all visible here:
tuples become lists; every dictionary key becomes a string (and keys that collide as strings
merge, last value wins); a dictionary that *looks like* an encoded tensor becomes one (or raises);
a `Parameter` comes back as its JSON dictionary; an `nn.Parameter` of a non floating point dtype
makes the load raise. -/
def canon (dflt : DType) : Val → Option Val
  | .none => some .none
  | .bool b => some (.bool b)
  | .int n => some (.int n)
  | .float x => some (.float x)
  | .str s => some (.str s)
  | .list xs => (canonVals dflt xs).map .list
  | .tuple xs => (canonVals dflt xs).map .list
  | .dict kvs => (canonKVs dflt kvs .nil).bind (objectHook dflt)
  | .tensor dt nn data =>
      if nn && !dt.isFloat then Option.none  -- an integer `nn.Parameter` cannot be rebuilt
      else (canon dflt data).map (.tensor dt nn)
  | .param id dt nn data => (canon dflt data).map fun d =>
      .dict (.cons (.str "id") (.str id) (.cons (.str "type") (.str "torchtree.Parameter")
        (.cons (.str "tensor") d (.cons (.str "dtype") (.str dt.name) (.cons (.str "nn") (.bool nn) .nil)))))
def canonVals (dflt : DType) : Vals → Option Vals
  | .nil => some .nil
  | .cons v r => (canon dflt v).bind fun v' => (canonVals dflt r).map (.cons v')
def canonKVs (dflt : DType) : KVs → KVs → Option KVs
  | .nil, acc => some acc
  | .cons k v r, acc => (canon dflt v).bind fun v' => canonKVs dflt r (acc.upsert k.toStr v')
end

/-! ## values on which a checkpoint is lossless -/

mutual
/-- no tuple, no `Parameter`, string keys only, pairwise distinct, and no dictionary posing as an
encoded tensor -/
def Plain : Val → Bool
  | .none | .bool _ | .int _ | .float _ | .str _ => true
  | .list xs => PlainVals xs
  | .tuple _ => false
  | .dict kvs => PlainKVs kvs [] && !isTensorTag (kvs.lookup "type")
  | .tensor dt nn data => (!nn || dt.isFloat) && Plain data
  | .param _ _ _ _ => false
def PlainVals : Vals → Bool
  | .nil => true
  | .cons v r => Plain v && PlainVals r
/-- `seen`: keys to the left -/
def PlainKVs : KVs → List String → Bool
  | .nil, _ => true
  | .cons (.str s) v r, seen => !seen.contains s && Plain v && PlainKVs r (s :: seen)
  | .cons (.int _) _ _, _ => false
end

/-! ## undoing the coercions (what a `load_state_dict` has to do) -/

/-- `Parameter.from_json` on the dictionary a `Parameter` comes back as (`HMCOperator._load_state_dict`) -/
def paramOfDict : Val → Option Val
  | .dict d =>
    match d.lookup "id", d.lookup "tensor", d.lookup "dtype", d.lookup "nn" with
    | some (.str id), some data, some (.str s), some (.bool nn) =>
        (DType.parse s).map fun dt => .param id dt nn data
    | _, _, _, _ => Option.none
  | _ => Option.none

/-- give integer keys back to a dictionary whose keys went through JSON
(`{int(k): v for k, v in d.items()}` for keys that spell an integer) -/
def KVs.intKeys : KVs → KVs
  | .nil => .nil
  | .cons (.str s) v r =>
      match s.toInt? with
      | some n => .cons (.int n) v (KVs.intKeys r)
      | Option.none => .cons (.str s) v (KVs.intKeys r)
  | .cons (.int n) v r => .cons (.int n) v (KVs.intKeys r)

/-- `tuple(x)` for the entries that must be tuples again -/
def Val.toTuple : Val → Val
  | .list xs => .tuple xs
  | v => v

end TT.C17
