import TTModel.Scalar
/-!
# C15 — expression trees the tuning translator emits (`harness/translators/tr_tuning.py`)

`adaptable_parameter` getters, `set_adaptable_parameter` bodies and the Robbins–Monro update of
`MCMCOperator.tune` are read from the Python AST as trees over `+ − * /`, unary minus,
`math.log/exp/sqrt` and named variables (`self._scaler` ↦ `"field"`, `value` ↦ `"value"`, …).
Evaluation is polymorphic in the scalar: `Float` in the driver, `ℝ` in the theorems.
-/
namespace TT.C15

/-- numbers `0,1,2,…` in the scalar type (`2 + self._adapt_count`, literals) -/
class FromNat (α : Type) where
  ofNat : Nat → α

instance : FromNat Float := ⟨Float.ofNat⟩
instance : FromNat Rat := ⟨fun n => (n : Rat)⟩

inductive Expr where
  | num (n : Int) (d : Nat)      -- the literal n/d (d ≥ 1)
  | var (name : String)
  | add (a b : Expr)
  | sub (a b : Expr)
  | mul (a b : Expr)
  | div (a b : Expr)
  | neg (a : Expr)
  | log (a : Expr)
  | exp (a : Expr)
  | sqrt (a : Expr)
  | pow (a b : Expr)             -- `math.pow(a, b)`
deriving Repr, BEq, DecidableEq

variable {α : Type} [Add α] [Sub α] [Mul α] [Div α] [Neg α] [FromNat α] [Trans α]

def litVal (n : Int) (d : Nat) : α :=
  let m : α := FromNat.ofNat n.natAbs
  let s : α := if n < 0 then -m else m
  if d = 1 then s else s / FromNat.ofNat d

def Expr.eval (env : String → α) : Expr → α
  | .num n d => litVal n d
  | .var x => env x
  | .add a b => a.eval env + b.eval env
  | .sub a b => a.eval env - b.eval env
  | .mul a b => a.eval env * b.eval env
  | .div a b => a.eval env / b.eval env
  | .neg a => -(a.eval env)
  | .log a => Trans.log (a.eval env)
  | .exp a => Trans.exp (a.eval env)
  | .sqrt a => Trans.sqrt (a.eval env)
  | .pow a b => Trans.pow (a.eval env) (b.eval env)

/-- what the translator emits for one operator class -/
structure TuningSpec where
  cls : String
  field : String          -- attribute holding the proposal scale (`_scaler`, `_width`, …)
  getter : Expr           -- body of the `adaptable_parameter` getter, variable "field"
  setter : Expr           -- right-hand side of `set_adaptable_parameter`, variable "value"
deriving Repr

def envField (x : α) (dflt : α) : String → α := fun s => if s = "field" then x else dflt
def envValue (x : α) (dflt : α) : String → α := fun s => if s = "value" then x else dflt

/-- `adaptable_parameter` as a function of the scale field -/
def TuningSpec.get (t : TuningSpec) (zero : α) (fld : α) : α := t.getter.eval (envField fld zero)
/-- the new scale field `set_adaptable_parameter(value)` stores -/
def TuningSpec.set (t : TuningSpec) (zero : α) (v : α) : α := t.setter.eval (envValue v zero)

/-- environment of the Robbins–Monro expression of `MCMCOperator.tune` -/
def envTune (adaptable acc target count zero : α) : String → α := fun s =>
  if s = "adaptable" then adaptable else if s = "acc" then acc
  else if s = "target" then target else if s = "count" then count else zero

/-- sequential assignments `name = expr` (locals and attributes of a method body) -/
def evalAssigns (env : String → α) : List (String × Expr) → String → α
  | [] => env
  | (x, e) :: rest =>
    let v := e.eval env
    evalAssigns (fun s => if s = x then v else env s) rest

end TT.C15
