import TTModel.C17_Codec
/-!
# C17 — re-injection of saved parameter tensors into the specification (core Lean only)

Mirrors `torchtree/core/utils.py:update_parameters` (called by `torchtree.py:main` with the
`torchtree.Parameter` entries of the checkpoint keyed by id) followed by `Parameter.from_json`
on the rewritten specification entry.
-/
namespace TT.C17

def JKVs.lookup (k : String) : JKVs → Option Json
  | .nil => none
  | .cons k' j r => if k' = k then some j else JKVs.lookup k r

/-- `for key in list(d): if key not in keep: del d[key]` -/
def JKVs.keepOnly (keep : List String) : JKVs → JKVs
  | .nil => .nil
  | .cons k j r => if keep.contains k then .cons k j (JKVs.keepOnly keep r) else JKVs.keepOnly keep r

/-- `d[k] = j` for a key that is not in `d` (appended) -/
def JKVs.snoc (k : String) (j : Json) : JKVs → JKVs
  | .nil => .cons k j .nil
  | .cons k' j' r => .cons k' j' (JKVs.snoc k j r)

def paramTypeNames : List String :=
  ["torchtree.core.parameter.Parameter", "torchtree.Parameter", "Parameter"]

/-- keys of a Parameter specification that survive the re-injection -/
def keptKeys : List String := ["id", "type", "dtype", "nn", "device", "requires_grad"]

def isParamSpec (kvs : JKVs) : Bool :=
  match kvs.lookup "type" with
  | some (.str s) => paramTypeNames.contains s
  | _ => false

mutual
/-- `update_parameters(json_object, parameters)`; `ck id` is the checkpoint entry of that id -/
def updateParams (ck : String → Option JKVs) : Json → Json
  | .arr xs => .arr (updateParamsList ck xs)
  | .obj kvs =>
      if isParamSpec kvs then
        match kvs.lookup "id" with
        | some (.str i) =>
            match ck i with
            | some saved =>
                match saved.lookup "tensor" with
                | some d => .obj ((kvs.keepOnly keptKeys).snoc "tensor" d)
                | none => .obj kvs  -- KeyError in Python; not reachable for entries written by ParameterEncoder
            -- a parameter that is not in the checkpoint may define others inline (`full_like`, `zeros_like`, …)
            | none => .obj (updateParamsKVs ck kvs)
        | _ => .obj (updateParamsKVs ck kvs)
      else .obj (updateParamsKVs ck kvs)
  | j => j
def updateParamsList (ck : String → Option JKVs) : Jsons → Jsons
  | .nil => .nil
  | .cons j r => .cons (updateParams ck j) (updateParamsList ck r)
def updateParamsKVs (ck : String → Option JKVs) : JKVs → JKVs
  | .nil => .nil
  | .cons k j r => .cons k (updateParams ck j) (updateParamsKVs ck r)
end

/-- the alternative constructors of `Parameter.from_json`, tried before `tensor` -/
def generatorKeys : List String :=
  ["full_like", "full", "zeros_like", "zeros", "ones_like", "ones", "eye", "eye_like", "arange"]

/-- `get_class("torch.float64")` -/
def DType.parseFull (s : String) : Option DType :=
  if s = "torch.float16" then some .float16
  else if s = "torch.float32" then some .float32
  else if s = "torch.float64" then some .float64
  else if s = "torch.int32" then some .int32
  else if s = "torch.int64" then some .int64
  else if s = "torch.bool" then some .bool
  else none

/-- `Parameter.from_json` on a specification entry, `tensor` branch only (`none`: another branch
or an error).  `torch.tensor(values, dtype=…)` rounds the values to the dtype; as in `objectHook` the
model keeps them, i.e. it covers values exactly representable in the dtype the entry names. -/
def paramFromSpec (dflt : DType) : Json → Option Val
  | .obj kvs =>
      if generatorKeys.any (fun k => (kvs.lookup k).isSome) then none else
      match kvs.lookup "id", kvs.lookup "tensor" with
      | some (.str i), some d =>
          match decode dflt d with
          | none => none
          | some data =>
              let nn := match kvs.lookup "nn" with
                | some (.bool true) => true
                | _ => false
              match kvs.lookup "dtype" with
              | none => some (.param i (inferDType dflt data) nn data)
              | some (.str s) => (DType.parseFull s).map fun dt => .param i dt nn data
              | some _ => none
      | _, _ => none
  | _ => none

end TT.C17
