import TTModel.C13_Json
/-!
# C19 — the logic of `torchtree-cli`: constraint annotations → transformed parameters, and the
collection of Jacobian ids

Modelled as coded, on the C13 `Json` (dicts are insertion-ordered; `d[k] = v` replaces in place or
appends; `del d[k]`):
* `cli/jacobians.py:create_jacobians`            → `createJacobians`
* `cli/utils.py:make_unconstrained`              → `makeUnconstrained`
* `cli/advi.py:create_meanfield` (the rewriting it performs through `apply_*_transform`, for the
  default `--distribution Normal`)                → `meanfieldRewrite`
An exception in the Python code (KeyError, NotImplementedError, `.item()` on a non-scalar …) is
`none`.  The numeric inverse transforms are parameters of the model (`CliNum`): the driver runs
them at `Float`, the theorems hold for any interpretation.  Core Lean only.
-/
namespace TT.C19
open TT.C13 TT.C13.Json

/-- what the rewrites need from the numbers -/
class CliNum (ν : Type) extends JNum ν where
  isZero : ν → Bool          -- `x == 0`
  isOne : ν → Bool           -- `x == 1` (also `== 1.0`)
  pos : ν → Bool             -- `x > 0`
  eq : ν → ν → Bool          -- `x == y`
  zeroF : ν                  -- the literal `0.0`
  oneF : ν                   -- the literal `1.0`
  zeroI : ν                  -- the literal `0`
  pred : ν → ν               -- `n - 1`
  toNat : ν → Option Nat     -- a size
  sub : ν → ν → ν            -- AffineTransform(loc, 1.0).inv : y ↦ (y − loc) / 1.0
  log : ν → ν                -- ExpTransform.inv
  logit : ν → ν              -- SigmoidTransform.inv
  stickInv : List ν → List ν -- StickBreakingTransform.inv on a vector

variable {ν : Type}

def strIs (s : String) : Option (Json ν) → Bool
  | some (str t) => t == s
  | _ => false

/-! ## create_jacobians -/

def isAffine : Json ν → Bool
  | str t => t == "torch.distributions.AffineTransform"
  | _ => false

/-- `dict_def['parameters']['scale'] == 1.0` (`none`: a key is missing) -/
def affineScaleOne [CliNum ν] (kvs : List (String × Json ν)) : Option Bool :=
  match lookup "parameters" kvs with
  | some (obj ps) => match lookup "scale" ps with
    | some (num x) => some (CliNum.isOne x)
    | some (Json.bool b) => some b          -- True == 1.0
    | some _ => some false
    | none => none
  | _ => none

/-- is this TransformedParameter left out (`AffineTransform` with `scale == 1.0`)? -/
def excluded [CliNum ν] (kvs : List (String × Json ν)) (tr : Json ν) : Option Bool :=
  if isAffine tr then affineScaleOne kvs else some false

/-- the contribution of one dict: `[id]` for a TransformedParameter that is not an
`AffineTransform` with `scale == 1.0`, else `[]`; `none` where Python raises (missing key) -/
def tpEntry [CliNum ν] (kvs : List (String × Json ν)) : Option (List (Json ν)) :=
  if strIs "TransformedParameter" (lookup "type" kvs) then
    match lookup "transform" kvs with
    | none => none
    | some tr =>
      match excluded kvs tr with
      | none => none
      | some true => some []
      | some false => match lookup "id" kvs with
        | some i => some [i]
        | none => none
  else some []

mutual
/-- `create_jacobians(dict_def)` -/
def createJacobians [CliNum ν] : Json ν → Option (List (Json ν))
  | arr xs => cjList xs
  | obj kvs => match tpEntry kvs, cjFields kvs with
    | some h, some r => some (h ++ r)
    | _, _ => none
  | _ => some []
def cjList [CliNum ν] : List (Json ν) → Option (List (Json ν))
  | [] => some []
  | x :: xs => match createJacobians x, cjList xs with
    | some h, some r => some (h ++ r)
    | _, _ => none
def cjFields [CliNum ν] : List (String × Json ν) → Option (List (Json ν))
  | [] => some []
  | (_, v) :: rest => match createJacobians v, cjFields rest with
    | some h, some r => some (h ++ r)
    | _, _ => none
end

mutual
/-- every value occurring in `j`, at any depth, in document order (`j` itself first) -/
def subvalues : Json ν → List (Json ν)
  | arr xs => arr xs :: subvaluesList xs
  | obj kvs => obj kvs :: subvaluesFields kvs
  | j => [j]
def subvaluesList : List (Json ν) → List (Json ν)
  | [] => []
  | x :: xs => subvalues x ++ subvaluesList xs
def subvaluesFields : List (String × Json ν) → List (Json ν)
  | [] => []
  | (_, v) :: rest => subvalues v ++ subvaluesFields rest
end

/-- the contribution of one value -/
def entryOf [CliNum ν] : Json ν → Option (List (Json ν))
  | obj kvs => tpEntry kvs
  | _ => some []

/-- `mapM` + flatten in `Option`, written out (the specification side of `jacobians_exactly_once`) -/
def collect [CliNum ν] : List (Json ν) → Option (List (Json ν))
  | [] => some []
  | v :: vs => match entryOf v, collect vs with
    | some h, some r => some (h ++ r)
    | _, _ => none

/-! ## make_unconstrained -/

/-- apply `f` to every number of a (possibly nested) list / scalar: `T.inv(torch.tensor(v)).tolist()` -/
def mapNum (f : ν → ν) : Json ν → Option (Json ν)
  | num x => some (num (f x))
  | arr xs =>
    let rec go : List (Json ν) → Option (List (Json ν))
      | [] => some []
      | y :: ys => match mapNum f y, go ys with
        | some a, some b => some (a :: b)
        | _, _ => none
    (go xs).map arr
  | _ => none

/-- `.item()`: the result must be a scalar -/
def scalarOnly : Option (Json ν) → Option (Json ν)
  | some (num x) => some (num x)
  | _ => none

def numList : List (Json ν) → Option (List ν)
  | [] => some []
  | num x :: rest => (numList rest).map (x :: ·)
  | _ => none

/-- `id + suffix` -/
def idPlus (kvs : List (String × Json ν)) (suffix : String) : Option (Json ν) :=
  match lookup "id" kvs with
  | some (str i) => some (str (i ++ suffix))
  | _ => none

/-- result of rewriting one value: the rewritten value, `parameters_unres`, `parameters` -/
structure Unc (ν : Type) where
  json : Json ν
  unres : List (Json ν)
  params : List (Json ν)

/-- the unconstrained child `{id, type, tensor[, full | full_like]}` and the parent's keys to delete -/
def childOf [CliNum ν] (inv : ν → ν) (kvs : List (String × Json ν)) (xid : Json ν)
    (listOnlyFirst : Bool) : Option (List (String × Json ν) × List String) :=
  let x0 : List (String × Json ν) := [("id", xid), ("type", str "Parameter")]
  let tensorIsList : Bool := match lookup "tensor" kvs with | some (arr _) => true | _ => false
  if listOnlyFirst && tensorIsList then do
    let tensor ← lookup "tensor" kvs
    let t ← mapNum inv tensor
    pure (x0 ++ [("tensor", t)], [])
  else if hasKey "full" kvs then do
    let tensor ← lookup "tensor" kvs
    let t ← scalarOnly (mapNum inv tensor)
    let full ← lookup "full" kvs
    pure (x0 ++ [("tensor", t), ("full", full)], ["full"])
  else if hasKey "full_like" kvs then do
    let tensor ← lookup "tensor" kvs
    let t ← scalarOnly (mapNum inv tensor)
    let fl ← lookup "full_like" kvs
    pure (x0 ++ [("tensor", t), ("full_like", fl)], ["full_like"])
  else if listOnlyFirst then pure (x0, [])          -- sigmoid branch: no tensor written
  else do
    let tensor ← lookup "tensor" kvs
    let t ← mapNum inv tensor
    pure (x0 ++ [("tensor", t)], [])

/-- the dict a rewritten parameter becomes: `type`, `transform`, `x` assigned, then keys deleted -/
def rewrittenAs (kvs : List (String × Json ν)) (transform : String) (x : Json ν) (del : List String) :
    List (String × Json ν) :=
  delKey "tensor" (del.foldl (fun acc k => delKey k acc)
    (setKey "x" x (setKey "transform" (str transform) (setKey "type" (str "TransformedParameter") kvs))))

/-- the `ExpTransform` branch (`@lower` present and not `> 0`) -/
def expCase [CliNum ν] (kvs : List (String × Json ν)) : Option (Unc ν) := do
  let xid ← idPlus kvs ".unres"
  let (x, del) ← childOf CliNum.log kvs xid false
  let i ← lookup "id" kvs
  pure ⟨obj (rewrittenAs kvs "torch.distributions.ExpTransform" (obj x) del), [obj x], [i]⟩

/-- the `SigmoidTransform` branch (`@lower == 0 and @upper == 1`); `del json_object['tensor']`
raises when there is no `tensor` -/
def sigmoidCase [CliNum ν] (kvs : List (String × Json ν)) : Option (Unc ν) := do
  let xid ← idPlus kvs ".unres"
  let (x, del) ← childOf CliNum.logit kvs xid true
  let _ ← lookup "tensor" kvs
  let i ← lookup "id" kvs
  pure ⟨obj (rewrittenAs kvs "torch.distributions.SigmoidTransform" (obj x) del), [obj x], [i]⟩

/-- the `StickBreakingTransform` branch (`@simplex` truthy) -/
def simplexCase [CliNum ν] (kvs : List (String × Json ν)) : Option (Unc ν) := do
  let xid ← idPlus kvs ".unres"
  let j1 := setKey "transform" (str "torch.distributions.StickBreakingTransform") (setKey "type" (str "TransformedParameter") kvs)
  let tensor ← lookup "tensor" kvs
  let vec ←
    if hasKey "full" kvs then
      match lookup "full" kvs, tensor with
      | some (arr [num n]), num v => (CliNum.toNat n).map fun k => List.replicate k v
      | _, _ => none
    else match tensor with
      | arr xs => numList xs
      | _ => none
  let x1 : List (String × Json ν) :=
    [("id", xid), ("type", str "Parameter"), ("tensor", arr ((CliNum.stickInv vec).map num))]
  let j2 := delKey "tensor" (setKey "x" (obj x1) j1)
  let j3 := if hasKey "full" kvs then delKey "full" j2 else j2
  let i ← lookup "id" kvs
  pure ⟨obj j3, [obj x1], [i]⟩

/-- the `AffineTransform` branch (`@lower > 0`): shift, then the shifted parameter (lower bound
`0.0`) goes through `make_unconstrained` again, i.e. through the Exp branch -/
def affineCase [CliNum ν] (kvs : List (String × Json ν)) (lower : ν) : Option (Unc ν) := do
  let xid ← idPlus kvs ".unshifted"
  let j1 := setKey "parameters" (obj [("loc", num lower), ("scale", num CliNum.oneF)])
    (setKey "transform" (str "torch.distributions.AffineTransform") (setKey "type" (str "TransformedParameter") kvs))
  let tensor ← lookup "tensor" kvs
  let t ← mapNum (fun y => CliNum.sub y lower) tensor
  let x : List (String × Json ν) :=
    [("id", xid), ("type", str "Parameter"), ("tensor", t), ("@lower", num CliNum.zeroF)]
  let inner ← expCase x
  let j2 := delKey "tensor" (setKey "x" inner.json j1)
  pure ⟨obj j2, inner.unres, inner.params⟩

/-- one dict with `type == 'Parameter'` -/
def paramCase [CliNum ν] (kvs : List (String × Json ν)) : Option (Unc ν) :=
  match lookup "@lower" kvs, lookup "@upper" kvs with
  | some lo, some up =>
    let lo0 := match lo with | num x => CliNum.isZero x | Json.bool b => !b | _ => false
    let up1 := match up with | num x => CliNum.isOne x | Json.bool b => b | _ => false
    if lo0 && up1 then sigmoidCase kvs
    else
      let same := match lo, up with
        | num a, num b => CliNum.eq a b
        | _, _ => false
      if same then some ⟨obj kvs, [], []⟩     -- fixed: left alone and not listed
      else none                                -- NotImplementedError
  | some lo, none =>
    match lo with
    | num x => if CliNum.pos x then affineCase kvs x else expCase kvs
    | _ => none
  | none, _ =>
    let simplex := match lookup "@simplex" kvs with
      | some v => truthy v
      | none => false
    if simplex then simplexCase kvs
    else match lookup "id" kvs with
      | some i => some ⟨obj kvs, [obj kvs], [i]⟩
      | none => none

mutual
/-- `make_unconstrained(json_object)`: the value left in place, `parameters_unres`, `parameters` -/
def makeUnconstrained [CliNum ν] : Json ν → Option (Unc ν)
  | arr xs => (muList xs).map fun (ys, u, p) => ⟨arr ys, u, p⟩
  | obj kvs =>
    if strIs "Parameter" (lookup "type" kvs) then paramCase kvs
    else (muFields kvs).map fun (ys, u, p) => ⟨obj ys, u, p⟩
  | j => some ⟨j, [], []⟩
def muList [CliNum ν] : List (Json ν) → Option (List (Json ν) × List (Json ν) × List (Json ν))
  | [] => some ([], [], [])
  | x :: xs => match makeUnconstrained x, muList xs with
    | some r, some (ys, u, p) => some (r.json :: ys, r.unres ++ u, r.params ++ p)
    | _, _ => none
def muFields [CliNum ν] :
    List (String × Json ν) → Option (List (String × Json ν) × List (Json ν) × List (Json ν))
  | [] => some ([], [], [])
  | (k, v) :: rest => match makeUnconstrained v, muFields rest with
    | some r, some (ys, u, p) => some ((k, r.json) :: ys, r.unres ++ u, r.params ++ p)
    | _, _ => none
end

/-! ## create_meanfield (default distribution): what it does to the joint -/

/-- `apply_exp_transform` -/
def mfExp [CliNum ν] (kvs : List (String × Json ν)) : Option (List (String × Json ν)) := do
  let xid ← idPlus kvs ".unres"
  let j1 := setKey "transform" (str "torch.distributions.ExpTransform") (setKey "type" (str "TransformedParameter") kvs)
  let tensor ← lookup "tensor" kvs
  let t ← mapNum CliNum.log tensor
  let x0 : List (String × Json ν) := [("id", xid), ("type", str "Parameter"), ("tensor", t)]
  if hasKey "full" kvs then do
    let full ← lookup "full" kvs
    pure (delKey "tensor" (delKey "full" (setKey "x" (obj (x0 ++ [("full", full)])) j1)))
  else if hasKey "full_like" kvs then do
    let fl ← lookup "full_like" kvs
    pure (delKey "tensor" (delKey "full_like" (setKey "x" (obj (x0 ++ [("full_like", fl)])) j1)))
  else pure (delKey "tensor" (setKey "x" (obj x0) j1))

/-- `apply_sigmoid_transformed(json_object)` (value = None) -/
def mfSigmoid [CliNum ν] (kvs : List (String × Json ν)) : Option (List (String × Json ν)) := do
  let xid ← idPlus kvs ".unres"
  let j1 := setKey "transform" (str "torch.distributions.SigmoidTransform") (setKey "type" (str "TransformedParameter") kvs)
  let x0 : List (String × Json ν) := [("id", xid), ("type", str "Parameter")]
  match lookup "tensor" kvs with
  | some (arr xs) =>
    let t ← mapNum CliNum.logit (arr xs)
    pure (delKey "tensor" (setKey "x" (obj (x0 ++ [("tensor", t)])) j1))
  | other =>
    if hasKey "full" kvs then do
      let tensor ← other
      let t ← mapNum CliNum.logit tensor
      let full ← lookup "full" kvs
      pure (delKey "full" (delKey "tensor" (setKey "x" (obj (x0 ++ [("tensor", t), ("full", full)])) j1)))
    else none    -- sys.exit(1)

/-- `apply_simplex_transform` -/
def mfSimplex [CliNum ν] (kvs : List (String × Json ν)) : Option (List (String × Json ν)) := do
  let xid ← idPlus kvs ".unres"
  let j1 := setKey "transform" (str "torch.distributions.StickBreakingTransform") (setKey "type" (str "TransformedParameter") kvs)
  if hasKey "full" kvs then
    match lookup "full" kvs with
    | some (arr (num n :: _)) =>
      let x : List (String × Json ν) :=
        [("id", xid), ("type", str "Parameter"), ("tensor", num CliNum.zeroF), ("full", arr [num (CliNum.pred n)])]
      -- `del json_object['tensor']` raises when absent
      (lookup "tensor" kvs).map fun _ => delKey "tensor" (delKey "full" (setKey "x" (obj x) j1))
    | _ => none
  else
    match lookup "tensor" kvs with
    | some (arr xs) => do
      let vec ← numList xs
      let x : List (String × Json ν) :=
        [("id", xid), ("type", str "Parameter"), ("tensor", arr ((CliNum.stickInv vec).map num))]
      pure (delKey "tensor" (setKey "x" (obj x) j1))
    | _ => none

/-- `apply_affine_transform(json_object, lower, 1.0)` followed by `create_meanfield` on the shifted
parameter (which carries `@lower: 0`, hence `apply_exp_transform`) -/
def mfAffine [CliNum ν] (kvs : List (String × Json ν)) (lower : ν) : Option (List (String × Json ν)) := do
  let xid ← idPlus kvs ".unshifted"
  let j1 := setKey "parameters" (obj [("loc", num lower), ("scale", num CliNum.oneF)])
    (setKey "transform" (str "torch.distributions.AffineTransform") (setKey "type" (str "TransformedParameter") kvs))
  let tensor ← lookup "tensor" kvs
  let t ← mapNum (fun y => CliNum.sub y lower) tensor
  let x : List (String × Json ν) :=
    [("id", xid), ("type", str "Parameter"), ("tensor", t), ("@lower", num CliNum.zeroI)]
  let x' ← mfExp x
  pure (delKey "tensor" (setKey "x" (obj x') j1))

def mfParam [CliNum ν] (kvs : List (String × Json ν)) : Option (Json ν) :=
  match lookup "@lower" kvs, lookup "@upper" kvs with
  | some lo, some up =>
    let same := match lo, up with
      | num a, num b => CliNum.eq a b
      | _, _ => false
    if same then some (obj kvs) else (mfSigmoid kvs).map obj
  | some lo, none =>
    match lo with
    | num x => if CliNum.pos x then (mfAffine kvs x).map obj else (mfExp kvs).map obj
    | _ => none
  | none, _ =>
    let simplex := match lookup "@simplex" kvs with
      | some v => truthy v
      | none => false
    if simplex then (mfSimplex kvs).map obj
    else (lookup "tensor" kvs).map fun _ => obj kvs     -- `torch.tensor(json_object['tensor'])`

mutual
/-- the joint after `create_meanfield(var_id, joint, 'Normal')` -/
def meanfieldRewrite [CliNum ν] : Json ν → Option (Json ν)
  | arr xs => (mfList xs).map arr
  | obj kvs =>
    if strIs "Parameter" (lookup "type" kvs) then mfParam kvs
    else (mfFields kvs).map obj
  | j => some j
def mfList [CliNum ν] : List (Json ν) → Option (List (Json ν))
  | [] => some []
  | x :: xs => match meanfieldRewrite x, mfList xs with
    | some y, some ys => some (y :: ys)
    | _, _ => none
def mfFields [CliNum ν] : List (String × Json ν) → Option (List (String × Json ν))
  | [] => some []
  | (k, v) :: rest => match meanfieldRewrite v, mfFields rest with
    | some y, some ys => some ((k, y) :: ys)
    | _, _ => none
end

end TT.C19
