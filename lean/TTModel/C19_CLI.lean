import TTModel.C13_Json
/-!
# C19 — the logic of `torchtree-cli`: constraint annotations → transformed parameters, and the
collection of Jacobian ids

Modelled as coded, on the C13 `Json` (dicts are insertion-ordered; `d[k] = v` replaces in place or
appends; `del d[k]`):
* `cli/jacobians.py:create_jacobians`            → `createJacobians`
* `cli/utils.py:make_unconstrained`              → `makeUnconstrained`
* `cli/advi.py:create_meanfield` (the rewriting it performs through `apply_*_transform`, for the
  default `--distribution Normal`)                → `meanfieldRewrite`
An exception in the Python code (KeyError, NotImplementedError, `.item()` on a non-scalar …) is
`none`.  The numeric inverse transforms are parameters of the model (`CliNum`): the driver runs
them at `Float`, the theorems hold for any interpretation.  Core Lean only.
-/
namespace TT.C19
open TT.C13 TT.C13.Json

/-- what the rewrites need from the numbers -/
class CliNum (ν : Type) extends JNum ν where
  isZero : ν → Bool          -- `x == 0`
  isOne : ν → Bool           -- `x == 1` (also `== 1.0`)
  pos : ν → Bool             -- `x > 0`
  eq : ν → ν → Bool          -- `x == y`
  zeroF : ν                  -- the literal `0.0`
  oneF : ν                   -- the literal `1.0`
  zeroI : ν                  -- the literal `0`
  pred : ν → ν               -- `n - 1`
  toNat : ν → Option Nat     -- a size
  sub : ν → ν → ν            -- AffineTransform(loc, 1.0).inv : y ↦ (y − loc) / 1.0
  log : ν → ν                -- ExpTransform.inv
  logit : ν → ν              -- SigmoidTransform.inv
  stickInv : List ν → List ν -- StickBreakingTransform.inv on a vector

variable {ν : Type}

def strIs (s : String) : Option (Json ν) → Bool
  | some (str t) => t == s
  | _ => false

/-! ## create_jacobians -/

def isAffine : Json ν → Bool
  | str t => t == "torch.distributions.AffineTransform"
  | _ => false

/-- `dict_def['parameters']['scale'] == 1.0` (`none`: a key is missing) -/
def affineScaleOne [CliNum ν] (kvs : List (String × Json ν)) : Option Bool :=
  match lookup "parameters" kvs with
  | some (obj ps) => match lookup "scale" ps with
    | some (num x) => some (CliNum.isOne x)
    | some (Json.bool b) => some b          -- True == 1.0
    | some _ => some false
    | none => none
  | _ => none

/-- is this TransformedParameter left out (`AffineTransform` with `scale == 1.0`)? -/
def excluded [CliNum ν] (kvs : List (String × Json ν)) (tr : Json ν) : Option Bool :=
  if isAffine tr then affineScaleOne kvs else some false

/-- the contribution of one dict: `[id]` for a TransformedParameter that is not an
`AffineTransform` with `scale == 1.0`, else `[]`; `none` where Python raises (missing key) -/
def tpEntry [CliNum ν] (kvs : List (String × Json ν)) : Option (List (Json ν)) :=
  if strIs "TransformedParameter" (lookup "type" kvs) then
    match lookup "transform" kvs with
    | none => none
    | some tr =>
      match excluded kvs tr with
      | none => none
      | some true => some []
      | some false => match lookup "id" kvs with
        | some i => some [i]
        | none => none
  else some []

mutual
/-- `create_jacobians(dict_def)` -/
def createJacobians [CliNum ν] : Json ν → Option (List (Json ν))
  | arr xs => cjList xs
  | obj kvs => match tpEntry kvs, cjFields kvs with
    | some h, some r => some (h ++ r)
    | _, _ => none
  | _ => some []
def cjList [CliNum ν] : List (Json ν) → Option (List (Json ν))
  | [] => some []
  | x :: xs => match createJacobians x, cjList xs with
    | some h, some r => some (h ++ r)
    | _, _ => none
def cjFields [CliNum ν] : List (String × Json ν) → Option (List (Json ν))
  | [] => some []
  | (_, v) :: rest => match createJacobians v, cjFields rest with
    | some h, some r => some (h ++ r)
    | _, _ => none
end

mutual
/-- every value occurring in `j`, at any depth, in document order (`j` itself first) -/
def subvalues : Json ν → List (Json ν)
  | arr xs => arr xs :: subvaluesList xs
  | obj kvs => obj kvs :: subvaluesFields kvs
  | j => [j]
def subvaluesList : List (Json ν) → List (Json ν)
  | [] => []
  | x :: xs => subvalues x ++ subvaluesList xs
def subvaluesFields : List (String × Json ν) → List (Json ν)
  | [] => []
  | (_, v) :: rest => subvalues v ++ subvaluesFields rest
end

/-- the contribution of one value -/
def entryOf [CliNum ν] : Json ν → Option (List (Json ν))
  | obj kvs => tpEntry kvs
  | _ => some []

/-- `mapM` + flatten in `Option`, written out (the specification side of `jacobians_exactly_once`) -/
def collect [CliNum ν] : List (Json ν) → Option (List (Json ν))
  | [] => some []
  | v :: vs => match entryOf v, collect vs with
    | some h, some r => some (h ++ r)
    | _, _ => none

/-! ## what the builders do with the list (`build_hmc`, `build_mcmc`, `build_advi`) -/

inductive RemoveRule where
  | never          -- `coalescent.theta` is never removed
  | always         -- removed whenever the coalescent is piecewise (the code before F61)
  | centeredOnly   -- removed for a piecewise coalescent unless `--coalescent_non_centered`
  deriving DecidableEq, Repr

/-- the post-processing of a builder, read from its source -/
structure Post where
  appendTree : Bool        -- `if arg.clock is not None and arg.heights == 'ratio': append("tree")`
  remove : RemoveRule
  deriving DecidableEq, Repr

/-- the command-line switches the post-processing looks at -/
structure Flags where
  clock : Bool         -- `arg.clock is not None`
  ratio : Bool         -- `arg.heights == 'ratio'`
  piecewise : Bool     -- `arg.coalescent in COALESCENT_PIECEWISE`
  nonCentered : Bool   -- `arg.coalescent_non_centered`
  deriving DecidableEq, Repr

def isStr (s : String) : Json ν → Bool
  | str t => t == s
  | _ => false

/-- `l.remove(s)`: the first occurrence; `none` (ValueError) when absent -/
def listRemove (s : String) : List (Json ν) → Option (List (Json ν))
  | [] => none
  | x :: xs => if isStr s x then some xs else (listRemove s xs).map (x :: ·)

def Post.removes (p : Post) (f : Flags) : Bool :=
  match p.remove with
  | .never => false
  | .always => f.piecewise
  | .centeredOnly => f.piecewise && !f.nonCentered

/-- the list finally handed to `joint.jacobian` (after `"joint"`) -/
def finalJacobians [CliNum ν] (p : Post) (f : Flags) (j : Json ν) : Option (List (Json ν)) :=
  match createJacobians j with
  | none => none
  | some l =>
    let l1 := if p.appendTree && f.clock && f.ratio then l ++ [str "tree"] else l
    if p.removes f then listRemove "coalescent.theta" l1 else some l1

/-- the `joint.jacobian` object the builders append -/
def jointJacobian (l : List (Json ν)) : Json ν :=
  obj [("id", str "joint.jacobian"), ("type", str "JointDistributionModel"),
       ("distributions", arr (str "joint" :: l))]

/-! ## make_unconstrained -/

/-- apply `f` to every number of a (possibly nested) list / scalar: `T.inv(torch.tensor(v)).tolist()` -/
def mapNum (f : ν → ν) : Json ν → Option (Json ν)
  | num x => some (num (f x))
  | arr xs =>
    let rec go : List (Json ν) → Option (List (Json ν))
      | [] => some []
      | y :: ys => match mapNum f y, go ys with
        | some a, some b => some (a :: b)
        | _, _ => none
    (go xs).map arr
  | _ => none

/-- `.item()`: the result must be a scalar -/
def scalarOnly : Option (Json ν) → Option (Json ν)
  | some (num x) => some (num x)
  | _ => none

def numList : List (Json ν) → Option (List ν)
  | [] => some []
  | num x :: rest => (numList rest).map (x :: ·)
  | _ => none

/-- `id + suffix` -/
def idPlus (kvs : List (String × Json ν)) (suffix : String) : Option (Json ν) :=
  match lookup "id" kvs with
  | some (str i) => some (str (i ++ suffix))
  | _ => none

/-- one row of the constraint-dispatch table: the transform written into the JSON, the suffix of the
child's id, and the torch class whose `.inv` computes the child's initial value -/
structure Row where
  transform : String
  suffix : String
  inverse : String
  deriving DecidableEq, Repr

/-- the constraint-dispatch table of `make_unconstrained` (and of `create_meanfield`'s `apply_*`
helpers): which annotation becomes which transform.  `TTGen/C19_Dispatch.lean` regenerates it from
the source on every run; `Dispatch.reference` is the table the code had when this was written. -/
structure Dispatch where
  unit : Row        -- `@lower == 0 and @upper == 1`
  lower0 : Row      -- `@lower` present, not `> 0`
  lowerPos : Row    -- `@lower > 0` (then the shifted parameter goes through the table again)
  simplex : Row     -- `@simplex` truthy
  deriving DecidableEq, Repr

def sigmoidName := "torch.distributions.SigmoidTransform"
def expName := "torch.distributions.ExpTransform"
def affineName := "torch.distributions.AffineTransform"
def stickName := "torch.distributions.StickBreakingTransform"

def Dispatch.reference : Dispatch :=
  ⟨⟨sigmoidName, ".unres", sigmoidName⟩, ⟨expName, ".unres", expName⟩,
   ⟨affineName, ".unshifted", affineName⟩, ⟨stickName, ".unres", stickName⟩⟩

/-- the element-wise inverse of the named torch transform (`none`: not an element-wise one the model knows) -/
def elemInv [CliNum ν] (name : String) : Option (ν → ν) :=
  if name = sigmoidName then some CliNum.logit
  else if name = expName then some CliNum.log
  else none

/-- result of rewriting one value: the rewritten value, `parameters_unres`, `parameters` -/
structure Unc (ν : Type) where
  json : Json ν
  unres : List (Json ν)
  params : List (Json ν)

/-- the unconstrained child `{id, type, tensor[, full | full_like]}` and the parent's keys to delete -/
def childOf [CliNum ν] (inv : ν → ν) (kvs : List (String × Json ν)) (xid : Json ν)
    (listOnlyFirst : Bool) : Option (List (String × Json ν) × List String) :=
  let x0 : List (String × Json ν) := [("id", xid), ("type", str "Parameter")]
  let tensorIsList : Bool := match lookup "tensor" kvs with | some (arr _) => true | _ => false
  if listOnlyFirst && tensorIsList then do
    let tensor ← lookup "tensor" kvs
    let t ← mapNum inv tensor
    pure (x0 ++ [("tensor", t)], [])
  else if hasKey "full" kvs then do
    let tensor ← lookup "tensor" kvs
    let t ← scalarOnly (mapNum inv tensor)
    let full ← lookup "full" kvs
    pure (x0 ++ [("tensor", t), ("full", full)], ["full"])
  else if hasKey "full_like" kvs then do
    let tensor ← lookup "tensor" kvs
    let t ← scalarOnly (mapNum inv tensor)
    let fl ← lookup "full_like" kvs
    pure (x0 ++ [("tensor", t), ("full_like", fl)], ["full_like"])
  else if listOnlyFirst then pure (x0, [])          -- sigmoid branch: no tensor written
  else do
    let tensor ← lookup "tensor" kvs
    let t ← mapNum inv tensor
    pure (x0 ++ [("tensor", t)], [])

/-- the dict a rewritten parameter becomes: `type`, `transform`, `x` assigned, then keys deleted -/
def rewrittenAs (kvs : List (String × Json ν)) (transform : String) (x : Json ν) (del : List String) :
    List (String × Json ν) :=
  delKey "tensor" (del.foldl (fun acc k => delKey k acc)
    (setKey "x" x (setKey "transform" (str transform) (setKey "type" (str "TransformedParameter") kvs))))

/-- the lower-bound-0 branch (`@lower` present and not `> 0`): ExpTransform in the source table -/
def expCase [CliNum ν] (d : Dispatch) (kvs : List (String × Json ν)) : Option (Unc ν) :=
  match idPlus kvs d.lower0.suffix, elemInv (ν := ν) d.lower0.inverse, lookup "id" kvs with
  | some xid, some inv, some i =>
    match childOf inv kvs xid false with
    | some (x, del) => some ⟨obj (rewrittenAs kvs d.lower0.transform (obj x) del), [obj x], [i]⟩
    | none => none
  | _, _, _ => none

/-- the unit-interval branch (`@lower == 0 and @upper == 1`): SigmoidTransform in the source table;
`del json_object['tensor']` raises when there is no `tensor` -/
def sigmoidCase [CliNum ν] (d : Dispatch) (kvs : List (String × Json ν)) : Option (Unc ν) :=
  match idPlus kvs d.unit.suffix, elemInv (ν := ν) d.unit.inverse, lookup "id" kvs, lookup "tensor" kvs with
  | some xid, some inv, some i, some _ =>
    match childOf inv kvs xid true with
    | some (x, del) => some ⟨obj (rewrittenAs kvs d.unit.transform (obj x) del), [obj x], [i]⟩
    | none => none
  | _, _, _, _ => none

/-- `torch.full(json['full'], json['tensor'])` / `torch.tensor(json['tensor'])` as a vector -/
def simplexVec [CliNum ν] (kvs : List (String × Json ν)) : Option (List ν) :=
  match lookup "tensor" kvs with
  | none => none
  | some tensor =>
    if hasKey "full" kvs then
      match lookup "full" kvs, tensor with
      | some (arr [num n]), num v => (CliNum.toNat n).map fun k => List.replicate k v
      | _, _ => none
    else match tensor with
      | arr xs => numList xs
      | _ => none

/-- the `StickBreakingTransform` branch (`@simplex` truthy) -/
def simplexCase [CliNum ν] (d : Dispatch) (kvs : List (String × Json ν)) : Option (Unc ν) :=
  if d.simplex.inverse ≠ stickName then none else
  match idPlus kvs d.simplex.suffix, simplexVec kvs, lookup "id" kvs with
  | some xid, some vec, some i =>
    let x1 : List (String × Json ν) :=
      [("id", xid), ("type", str "Parameter"), ("tensor", arr ((CliNum.stickInv vec).map num))]
    let j2 := delKey "tensor" (setKey "x" (obj x1)
      (setKey "transform" (str d.simplex.transform) (setKey "type" (str "TransformedParameter") kvs)))
    some ⟨obj (if hasKey "full" kvs then delKey "full" j2 else j2), [obj x1], [i]⟩
  | _, _, _ => none

/-- the `AffineTransform` branch (`@lower > 0`): shift, then the shifted parameter (lower bound
`0.0`) goes through `make_unconstrained` again, i.e. through the lower-bound-0 row -/
def affineCase [CliNum ν] (d : Dispatch) (kvs : List (String × Json ν)) (lower : ν) : Option (Unc ν) :=
  if d.lowerPos.inverse ≠ affineName then none else
  match idPlus kvs d.lowerPos.suffix, (lookup "tensor" kvs).bind (mapNum (fun y => CliNum.sub y lower)) with
  | some xid, some t =>
    let x : List (String × Json ν) :=
      [("id", xid), ("type", str "Parameter"), ("tensor", t), ("@lower", num CliNum.zeroF)]
    match expCase d x with
    | some inner =>
      some ⟨obj (delKey "tensor" (setKey "x" inner.json
          (setKey "parameters" (obj [("loc", num lower), ("scale", num CliNum.oneF)])
            (setKey "transform" (str d.lowerPos.transform) (setKey "type" (str "TransformedParameter") kvs))))),
        inner.unres, inner.params⟩
    | none => none
  | _, _ => none

/-- `json_object['@lower'] == 0` -/
def isLo0 [CliNum ν] : Json ν → Bool
  | num x => CliNum.isZero x
  | Json.bool b => !b
  | _ => false
/-- `json_object['@upper'] == 1` -/
def isUp1 [CliNum ν] : Json ν → Bool
  | num x => CliNum.isOne x
  | Json.bool b => b
  | _ => false
/-- `json_object['@lower'] == json_object['@upper']` (numbers) -/
def sameBound [CliNum ν] : Json ν → Json ν → Bool
  | num a, num b => CliNum.eq a b
  | _, _ => false
/-- `json_object.get('@simplex', False)` as a truth value -/
def simplexFlag [CliNum ν] (kvs : List (String × Json ν)) : Bool :=
  match lookup "@simplex" kvs with
  | some v => truthy v
  | none => false

/-- one dict with `type == 'Parameter'` -/
def paramCase [CliNum ν] (d : Dispatch) (kvs : List (String × Json ν)) : Option (Unc ν) :=
  match lookup "@lower" kvs, lookup "@upper" kvs with
  | some lo, some up =>
    if isLo0 lo && isUp1 up then sigmoidCase d kvs
    else if sameBound lo up then some ⟨obj kvs, [], []⟩     -- fixed: left alone and not listed
    else none                                                -- NotImplementedError
  | some lo, none =>
    match lo with
    | num x => if CliNum.pos x then affineCase d kvs x else expCase d kvs
    | _ => none
  | none, _ =>
    if simplexFlag kvs then simplexCase d kvs
    else match lookup "id" kvs with
      | some i => some ⟨obj kvs, [obj kvs], [i]⟩
      | none => none

mutual
/-- `make_unconstrained(json_object)`: the value left in place, `parameters_unres`, `parameters` -/
def makeUnconstrained [CliNum ν] (d : Dispatch) : Json ν → Option (Unc ν)
  | arr xs => (muList d xs).map fun (ys, u, p) => ⟨arr ys, u, p⟩
  | obj kvs =>
    if strIs "Parameter" (lookup "type" kvs) then paramCase d kvs
    else (muFields d kvs).map fun (ys, u, p) => ⟨obj ys, u, p⟩
  | j => some ⟨j, [], []⟩
def muList [CliNum ν] (d : Dispatch) : List (Json ν) → Option (List (Json ν) × List (Json ν) × List (Json ν))
  | [] => some ([], [], [])
  | x :: xs => match makeUnconstrained d x, muList d xs with
    | some r, some (ys, u, p) => some (r.json :: ys, r.unres ++ u, r.params ++ p)
    | _, _ => none
def muFields [CliNum ν] (d : Dispatch) :
    List (String × Json ν) → Option (List (String × Json ν) × List (Json ν) × List (Json ν))
  | [] => some ([], [], [])
  | (k, v) :: rest => match makeUnconstrained d v, muFields d rest with
    | some r, some (ys, u, p) => some ((k, r.json) :: ys, r.unres ++ u, r.params ++ p)
    | _, _ => none
end

/-! ## create_meanfield (default distribution): what it does to the joint -/

/-- `apply_exp_transform` -/
def mfExp [CliNum ν] (m : Dispatch) (kvs : List (String × Json ν)) : Option (List (String × Json ν)) := do
  let xid ← idPlus kvs m.lower0.suffix
  let j1 := setKey "transform" (str m.lower0.transform) (setKey "type" (str "TransformedParameter") kvs)
  let tensor ← lookup "tensor" kvs
  let inv ← elemInv m.lower0.inverse
  let t ← mapNum inv tensor
  let x0 : List (String × Json ν) := [("id", xid), ("type", str "Parameter"), ("tensor", t)]
  if hasKey "full" kvs then do
    let full ← lookup "full" kvs
    pure (delKey "tensor" (delKey "full" (setKey "x" (obj (x0 ++ [("full", full)])) j1)))
  else if hasKey "full_like" kvs then do
    let fl ← lookup "full_like" kvs
    pure (delKey "tensor" (delKey "full_like" (setKey "x" (obj (x0 ++ [("full_like", fl)])) j1)))
  else pure (delKey "tensor" (setKey "x" (obj x0) j1))

/-- `apply_sigmoid_transformed(json_object)` (value = None) -/
def mfSigmoid [CliNum ν] (m : Dispatch) (kvs : List (String × Json ν)) : Option (List (String × Json ν)) := do
  let xid ← idPlus kvs m.unit.suffix
  let inv ← elemInv (ν := ν) m.unit.inverse
  let j1 := setKey "transform" (str m.unit.transform) (setKey "type" (str "TransformedParameter") kvs)
  let x0 : List (String × Json ν) := [("id", xid), ("type", str "Parameter")]
  match lookup "tensor" kvs with
  | some (arr xs) =>
    let t ← mapNum inv (arr xs)
    pure (delKey "tensor" (setKey "x" (obj (x0 ++ [("tensor", t)])) j1))
  | other =>
    if hasKey "full" kvs then do
      let tensor ← other
      let t ← mapNum inv tensor
      let full ← lookup "full" kvs
      pure (delKey "full" (delKey "tensor" (setKey "x" (obj (x0 ++ [("tensor", t), ("full", full)])) j1)))
    else none    -- sys.exit(1)

/-- `apply_simplex_transform` -/
def mfSimplex [CliNum ν] (m : Dispatch) (kvs : List (String × Json ν)) : Option (List (String × Json ν)) := do
  let xid ← idPlus kvs m.simplex.suffix
  let j1 := setKey "transform" (str m.simplex.transform) (setKey "type" (str "TransformedParameter") kvs)
  if m.simplex.inverse ≠ stickName then none
  if hasKey "full" kvs then
    match lookup "full" kvs with
    | some (arr (num n :: _)) =>
      let x : List (String × Json ν) :=
        [("id", xid), ("type", str "Parameter"), ("tensor", num CliNum.zeroF), ("full", arr [num (CliNum.pred n)])]
      -- `del json_object['tensor']` raises when absent
      (lookup "tensor" kvs).map fun _ => delKey "tensor" (delKey "full" (setKey "x" (obj x) j1))
    | _ => none
  else
    match lookup "tensor" kvs with
    | some (arr xs) => do
      let vec ← numList xs
      let x : List (String × Json ν) :=
        [("id", xid), ("type", str "Parameter"), ("tensor", arr ((CliNum.stickInv vec).map num))]
      pure (delKey "tensor" (setKey "x" (obj x) j1))
    | _ => none

/-- `apply_affine_transform(json_object, lower, 1.0)` followed by `create_meanfield` on the shifted
parameter (which carries `@lower: 0`, hence `apply_exp_transform`) -/
def mfAffine [CliNum ν] (m : Dispatch) (kvs : List (String × Json ν)) (lower : ν) : Option (List (String × Json ν)) := do
  let xid ← idPlus kvs m.lowerPos.suffix
  let j1 := setKey "parameters" (obj [("loc", num lower), ("scale", num CliNum.oneF)])
    (setKey "transform" (str m.lowerPos.transform) (setKey "type" (str "TransformedParameter") kvs))
  if m.lowerPos.inverse ≠ affineName then none
  let tensor ← lookup "tensor" kvs
  let t ← mapNum (fun y => CliNum.sub y lower) tensor
  let x : List (String × Json ν) :=
    [("id", xid), ("type", str "Parameter"), ("tensor", t), ("@lower", num CliNum.zeroI)]
  let x' ← mfExp m x
  pure (delKey "tensor" (setKey "x" (obj x') j1))

def mfParam [CliNum ν] (m : Dispatch) (kvs : List (String × Json ν)) : Option (Json ν) :=
  match lookup "@lower" kvs, lookup "@upper" kvs with
  | some lo, some up =>
    if sameBound lo up then some (obj kvs) else (mfSigmoid m kvs).map obj
  | some lo, none =>
    match lo with
    | num x => if CliNum.pos x then (mfAffine m kvs x).map obj else (mfExp m kvs).map obj
    | _ => none
  | none, _ =>
    if simplexFlag kvs then (mfSimplex m kvs).map obj
    else (lookup "tensor" kvs).map fun _ => obj kvs     -- `torch.tensor(json_object['tensor'])`

mutual
/-- the joint after `create_meanfield(var_id, joint, 'Normal')` -/
def meanfieldRewrite [CliNum ν] (m : Dispatch) : Json ν → Option (Json ν)
  | arr xs => (mfList m xs).map arr
  | obj kvs =>
    if strIs "Parameter" (lookup "type" kvs) then mfParam m kvs
    else (mfFields m kvs).map obj
  | j => some j
def mfList [CliNum ν] (m : Dispatch) : List (Json ν) → Option (List (Json ν))
  | [] => some []
  | x :: xs => match meanfieldRewrite m x, mfList m xs with
    | some y, some ys => some (y :: ys)
    | _, _ => none
def mfFields [CliNum ν] (m : Dispatch) : List (String × Json ν) → Option (List (String × Json ν))
  | [] => some []
  | (k, v) :: rest => match meanfieldRewrite m v, mfFields m rest with
    | some y, some ys => some ((k, y) :: ys)
    | _, _ => none
end

end TT.C19
