import TTModel.C13_Json
/-!
# C13 — the loader: `process_object` / `process_objects` threading the registry

State threaded through every `from_json` call (`dic` in the code):
* `reg`  — the registry `id → address`, an insertion-ordered dict;
* `heap` — the objects constructed so far; an address is an index into it (allocation order),
  which is what Python's object identity is abstracted to.

A class is abstracted to the ordered list of *slots* its `from_json` processes — which child keys
it hands to `process_object(s)`, in which order and in which manner.  The theorems hold for every
class table; `classTable` below lists the generic test classes the harness registers and the real
key orders of Parameter, ViewParameter, CatParameter, TransformedParameter, Distribution,
JointDistributionModel.

`Cfg` records the shape of `process_object`'s dict branch as read from the source by
`harness/translators/tr_loader.py` (is the duplicate check made before construction, and again
before registering?).  Core Lean only.
-/
namespace TT.C13
open Json

abbrev Addr := Nat

/-- how an argument found in a `parameters` sub-dict is treated -/
inductive SubMode where
  | dist       -- Distribution.from_json: str → `dic[s]` directly (KeyError), number/list → anonymous
               -- Parameter, anything else → process_object
  | transform  -- TransformedParameter.from_json: number → raw, list → anonymous Parameter,
               -- anything else → process_object
  deriving DecidableEq, Repr

inductive Slot where
  /-- `process_object(data[k], dic)` -/
  | one (k : String)
  /-- `process_objects(data[k], dic)` / `if isinstance(data[k], list): for … else process_object` -/
  | many (k : String)
  /-- `process_object_with_key(k, data, dic)` -/
  | optOne (k : String)
  /-- `process_objects(data, dic, key=k)` (with or without `force_list`) -/
  | optMany (k : String)
  /-- `for d in data[k]: process_object(d, dic)` (a list is required) -/
  | each (k : String)
  /-- the `if k1 in data … elif k2 in data …` chain of `Parameter.from_json`: the first key present
  decides; `true` = its value is processed as a child, `false` = plain data -/
  | firstOf (alts : List (String × Bool))
  /-- `data[k]` must be present (else KeyError) but is plain data -/
  | need (k : String)
  /-- the `else` branch of `if 'other' in data: … else: process_object(data[k], dic)`
  (ReparameterizedTimeTreeModel: `root_height` / `ratios` unless `shifts` is given) -/
  | oneUnless (k : String) (other : String)
  /-- `if 'k' in data: for arg in <signature of the class named by data[by]>: if arg in data[k]: …` -/
  | sub (k : String) (by_ : String) (mode : SubMode)
  deriving Repr

structure ClassSpec where
  name : String          -- `cls.__name__`, used in error messages
  slots : List Slot
  /-- `some k`: the class's `from_json` constructs the object and REGISTERS IT ITSELF (`dic[id_] = obj`,
  after its own `if id_ in dic: raise`) once the first `k` slots are processed, and processes the remaining
  slots afterwards — they may refer back to the object (FlexibleTimeTreeModel: `k = 1`, after `taxa`) -/
  selfRegAfter : Option Nat := none
  deriving Repr

/-- constructor signatures (after `self`) of the torch classes named in `distribution`/`transform` -/
abbrev SigTable := List (String × List String)

structure ClassTable where
  classes : List (String × ClassSpec)     -- registered name → class
  sigs : SigTable

def ClassTable.find (t : ClassTable) (ty : String) : Option ClassSpec :=
  (t.classes.find? (·.1 = ty)).map (·.2)

def ClassTable.sig (t : ClassTable) (c : String) : Option (List String) :=
  (t.sigs.find? (·.1 = c)).map (·.2)

structure Obj where
  cls : String
  id : String
  kids : List (String × List Addr)     -- per slot (in processing order) the addresses obtained
  deriving Repr, DecidableEq

structure St where
  reg : List (String × Addr)
  heap : List Obj
  deriving Repr

def regLookup (k : String) : List (String × Addr) → Option Addr
  | [] => none
  | (k', a) :: rest => if k' = k then some a else regLookup k rest

/-- `dic[k] = a` -/
def regSet (k : String) (a : Addr) : List (String × Addr) → List (String × Addr)
  | [] => [(k, a)]
  | (k', a') :: rest => if k' = k then (k, a) :: rest else (k', a') :: regSet k a rest

inductive Err where
  | notFound (ref : String)                 -- "Object with ID `…' not found"
  | duplicate (id : String)                 -- "Object with ID `…' already exists"
  | missingId                               -- "Missing `id' key …" / "Missing `id' and `type' keys"
  | noType (id : String)                    -- "Object with ID `…' does not have a type"
  | badClass (id : String)                  -- get_class failed (module / attribute / empty name)
  | notValid                                -- "Object is not valid (should be str or object)"
  | missingKey (cls id key : String)        -- KeyError inside from_json → "Missing key `…' for object …"
  | wrapped (cls id : String) (inner : Err) -- "Calling object of type `…' with ID `…'"
  | keyError (key : String)                 -- a KeyError travelling up to the enclosing from_json_safe
  | crash                                   -- any other exception that is NOT a JSONParseError
  | fuel
  deriving Repr, DecidableEq

/-- a JSONParseError (as opposed to some other exception, which `from_json_safe` lets through) -/
def Err.isParse : Err → Bool
  | .crash | .fuel | .keyError _ => false
  | _ => true

def Err.innermost : Err → Err
  | .wrapped _ _ e => e.innermost
  | e => e

/-- shape of `process_object`'s dict branch, read from the source -/
structure Cfg where
  checkBefore : Bool   -- `if id_ in dic: raise` before `from_json_safe`
  checkAfter : Bool    -- the same test again between `from_json_safe` and `dic[id_] = obj`
  afterIsIdentity : Bool  -- … in the form `id_ in dic and dic[id_] is not obj` (F01b): an object that
                          -- registered itself in its `from_json` is let through
  deriving Repr, DecidableEq

/-- the repaired loader (fixes F01 + F01b) -/
def Cfg.fixed : Cfg := ⟨true, true, true⟩
/-- the loader with F01 only: every self-registering class is rejected (the regression F01b repairs) -/
def Cfg.f01only : Cfg := ⟨true, true, false⟩
/-- the loader as it was before F01 -/
def Cfg.unfixed : Cfg := ⟨true, false, false⟩

section
variable {ν : Type}

/-- `stem{a:b}` split into its parts (`none`: Python raises something that is not a parse error) -/
def parseRangeRef (s : String) : Option (String × Int × Int) :=
  match s.splitOn "{" with
  | [stem, ix] =>
    match (ix.splitOn "}").head!.splitOn ":" with
    | [a, b] =>
      match a.toInt?, b.toInt? with
      | some a, some b => some (stem, a, b)
      | _, _ => none
    | _ => none
  | _ => none

/-- the loop `for i in range(a, b): obj = dic[stem + str(i)]` for a lookup function `g` -/
def rangeFold (g : Nat → Option Addr) (s : String) (l : List Nat) (acc : Except Err (Option Addr)) :
    Except Err (Option Addr) :=
  l.foldl (fun (acc : Except Err (Option Addr)) (i : Nat) => match acc with
    | .error e => .error e
    | .ok _ => match g i with
      | some x => .ok (some x)
      | none => .error (.notFound s)) acc

/-- `stem{a:b}`: looks up `stem+str(i)` for every `i` in `range(a, b)` and keeps the LAST (as
coded); an empty range leaves `obj` unbound (UnboundLocalError) -/
def resolveRange (s : String) (reg : List (String × Addr)) : Except Err Addr :=
  match parseRangeRef s with
  | none => .error .crash
  | some (stem, a, b) =>
    match rangeFold (fun i => regLookup (stem ++ toString (a + (i : Int))) reg) s
        (List.range (b - a).toNat) (.ok none) with
    | .error e => .error e
    | .ok (some x) => .ok x
    | .ok none => .error .crash

/-- the string branch of `process_object`: `dic[data]`, or the range form when `"{" in data` -/
def resolveRef (s : String) (reg : List (String × Addr)) : Except Err Addr :=
  if s.toList.contains '{' then resolveRange s reg
  else match regLookup s reg with
    | some a => .ok a
    | none => .error (.notFound s)

/-- thread `f` through a list (`[process_object(o, dic) for o in data]`) -/
def processList (f : Json ν → St → Except Err (Addr × St)) :
    List (Json ν) → St → Except Err (List Addr × St)
  | [], st => .ok ([], st)
  | x :: xs, st =>
    match f x st with
    | .error e => .error e
    | .ok (a, st1) =>
      match processList f xs st1 with
      | .error e => .error e
      | .ok (as, st2) => .ok (a :: as, st2)

/-- `process_objects(data, dic)` with `data` already selected -/
def processMany (f : Json ν → St → Except Err (Addr × St)) (j : Json ν) (st : St) :
    Except Err (List Addr × St) :=
  match j with
  | arr xs => processList f xs st
  | _ => match f j st with
    | .error e => .error e
    | .ok (a, st1) => .ok ([a], st1)

/-- the arguments of a `parameters` sub-dict, in SIGNATURE order -/
def processSub (f : Json ν → St → Except Err (Addr × St)) (mode : SubMode)
    (cls id : String) (sub : List (String × Json ν)) :
    List String → St → Except Err (List Addr × St)
  | [], st => .ok ([], st)
  | arg :: args, st =>
    match lookup arg sub with
    | none => processSub f mode cls id sub args st
    | some v =>
      let here : Except Err (List Addr × St) :=
        match mode, v with
        | .dist, str s => match regLookup s st.reg with     -- `dic[s]`: KeyError(s)
          | some a => .ok ([a], st)
          | none => .error (.keyError s)
        | _, num _ => .ok ([], st)
        | _, arr _ => .ok ([], st)
        | _, Json.bool _ => .ok ([], st)                    -- bool is a numbers.Number
        | _, _ => match f v st with
          | .error e => .error e
          | .ok (a, st1) => .ok ([a], st1)
      match here with
      | .error e => .error e
      | .ok (as, st1) =>
        match processSub f mode cls id sub args st1 with
        | .error e => .error e
        | .ok (bs, st2) => .ok (as ++ bs, st2)

/-- one slot of a `from_json` -/
def processSlot (tbl : ClassTable) (f : Json ν → St → Except Err (Addr × St))
    (cls id : String) (data : List (String × Json ν)) (slot : Slot) (st : St) :
    Except Err (List Addr × St) :=
  match slot with
  | .one k => match lookup k data with
    | none => .error (.keyError k)
    | some v => match f v st with
      | .error e => .error e
      | .ok (a, st1) => .ok ([a], st1)
  | .many k => match lookup k data with
    | none => .error (.keyError k)
    | some v => processMany f v st
  | .optOne k => match lookup k data with
    | none => .ok ([], st)
    | some v => match f v st with
      | .error e => .error e
      | .ok (a, st1) => .ok ([a], st1)
  | .optMany k => match lookup k data with
    | none => .ok ([], st)
    | some v => processMany f v st
  | .each k => match lookup k data with
    | none => .error (.keyError k)
    | some (arr xs) => processList f xs st
    | some _ => .error .crash
  | .firstOf alts =>
    match alts.find? (fun kb => hasKey kb.1 data) with
    | none => .ok ([], st)
    | some (k, true) => (match lookup k data with
      | none => .ok ([], st)
      | some v => match f v st with
        | .error e => .error e
        | .ok (a, st1) => .ok ([a], st1))
    | some (_, false) => .ok ([], st)
  | .need k => match lookup k data with
    | none => .error (.keyError k)
    | some _ => .ok ([], st)
  | .oneUnless k other =>
    if hasKey other data then .ok ([], st) else
    match lookup k data with
    | none => .error (.keyError k)
    | some v => match f v st with
      | .error e => .error e
      | .ok (a, st1) => .ok ([a], st1)
  | .sub k by_ mode =>
    match lookup k data with
    | none => .ok ([], st)
    | some (obj sub) =>
      (match lookup by_ data with
       | some (str c) => match tbl.sig c with
         | some args => processSub f mode cls id sub args st
         | none => .error .crash
       | _ => .error .crash)
    | some _ => .error .crash

/-- all slots of a `from_json`, in order; result: per slot the addresses obtained -/
def processSlots (tbl : ClassTable) (f : Json ν → St → Except Err (Addr × St))
    (cls id : String) (data : List (String × Json ν)) :
    List Slot → St → Except Err (List (List Addr) × St)
  | [], st => .ok ([], st)
  | s :: ss, st =>
    match processSlot tbl f cls id data s st with
    | .error e => .error e
    | .ok (as, st1) =>
      match processSlots tbl f cls id data ss st1 with
      | .error e => .error e
      | .ok (bs, st2) => .ok (as :: bs, st2)

def slotKey : Slot → String
  | .one k | .many k | .optOne k | .optMany k | .each k | .need k | .oneUnless k _ => k
  | .firstOf _ => "firstOf"
  | .sub k _ _ => k

/-- what `from_json_safe` makes of an exception raised in `from_json` -/
def wrapErr (c : ClassSpec) (id : String) (e : Err) : Err :=
  match e with
  | .keyError k =>                      -- `except KeyError`: converted, not wrapped
    if k = "id" then .missingId else .missingKey c.name id k
  | _ => if e.isParse then .wrapped c.name id e else e

/-- an ordinary class: `klass.from_json_safe(data, dic)`, then the test between construction and
registration, then `dic[id_] = obj` -/
def constructPlain (cfg : Cfg) (tbl : ClassTable) (f : Json ν → St → Except Err (Addr × St))
    (c : ClassSpec) (id : String) (data : List (String × Json ν)) (st : St) : Except Err (Addr × St) :=
  match processSlots tbl f c.name id data c.slots st with
  | .error e => .error (wrapErr c id e)
  | .ok (kids, st1) =>
    -- the object was never put into `dic` by its from_json: `dic[id_] is not obj` is vacuous
    if cfg.checkAfter && (regLookup id st1.reg).isSome then .error (.duplicate id) else
    let a := st1.heap.length
    .ok (a, { reg := regSet id a st1.reg,
              heap := st1.heap ++ [⟨c.name, id, (c.slots.map slotKey).zip kids⟩] })

/-- `id_ in dic [and dic[id_] is not obj]` for the object at address `a` -/
def clash (cfg : Cfg) (a : Addr) : Option Addr → Bool
  | some a' => if cfg.afterIsIdentity then a' != a else true
  | none => false

/-- a class whose `from_json` registers the object itself after its first `k` slots
(FlexibleTimeTreeModel) -/
def constructSelf (cfg : Cfg) (tbl : ClassTable) (f : Json ν → St → Except Err (Addr × St))
    (c : ClassSpec) (k : Nat) (id : String) (data : List (String × Json ν)) (st : St) :
    Except Err (Addr × St) :=
  match processSlots tbl f c.name id data (c.slots.take k) st with
  | .error e => .error (wrapErr c id e)
  | .ok (kids1, st1) =>
    -- its own `if id_ in dic: raise JSONParseError(...)`, wrapped by from_json_safe
    if (regLookup id st1.reg).isSome then .error (.wrapped c.name id (.duplicate id)) else
    let a := st1.heap.length
    let keys := c.slots.map slotKey
    let st1' : St := { reg := regSet id a st1.reg,
                       heap := st1.heap ++ [⟨c.name, id, (keys.take k).zip kids1⟩] }
    match processSlots tbl f c.name id data (c.slots.drop k) st1' with
    | .error e => .error (wrapErr c id e)
    | .ok (kids2, st2) =>
      -- process_object's test between construction and registration
      if cfg.checkAfter && clash cfg a (regLookup id st2.reg) then .error (.duplicate id) else
      -- the object's remaining attributes were assigned (same object, same address)
      .ok (a, { reg := regSet id a st2.reg,
                heap := st2.heap.set a ⟨c.name, id, keys.zip (kids1 ++ kids2)⟩ })

def constructObject (cfg : Cfg) (tbl : ClassTable) (f : Json ν → St → Except Err (Addr × St))
    (c : ClassSpec) (id : String) (data : List (String × Json ν)) (st : St) : Except Err (Addr × St) :=
  match c.selfRegAfter with
  | none => constructPlain cfg tbl f c id data st
  | some k => constructSelf cfg tbl f c k id data st

/-- `process_object(data, dic)`.  Fuel bounds the nesting depth only (one unit per `from_json`
level); `depth j < fuel` never runs out (see `fuel_enough`). -/
def processObject (cfg : Cfg) (tbl : ClassTable) : Nat → Json ν → St → Except Err (Addr × St)
  | 0, _, _ => .error .fuel
  | fuel + 1, j, st =>
    match j with
    | str s => match resolveRef s st.reg with
      | .ok a => .ok (a, st)
      | .error e => .error e
    | obj data =>
      match lookup "id" data with
      | none => .error .missingId
      | some (str id) =>
        if cfg.checkBefore && (regLookup id st.reg).isSome then .error (.duplicate id) else
        match lookup "type" data with
        | none => .error (.noType id)
        | some (str ty) =>
          (match tbl.find ty with
           | none => .error (.badClass id)
           | some c => constructObject cfg tbl (processObject cfg tbl fuel) c id data st)
        | some _ => .error .crash
      | some _ => .error .crash
    | _ => .error .notValid

/-- `process_objects(data, dic)` as `torchtree.py:main` calls it on one top-level element -/
def processObjects (cfg : Cfg) (tbl : ClassTable) (fuel : Nat) (j : Json ν) (st : St) :
    Except Err (List Addr × St) :=
  processMany (processObject cfg tbl fuel) j st

/-- the loop of `main`: `for element in data: process_objects(element, dic)` -/
def loadAll (cfg : Cfg) (tbl : ClassTable) (fuel : Nat) :
    List (Json ν) → St → Except Err (List (List Addr) × St)
  | [], st => .ok ([], st)
  | x :: xs, st =>
    match processObjects cfg tbl fuel x st with
    | .error e => .error e
    | .ok (r, st1) =>
      match loadAll cfg tbl fuel xs st1 with
      | .error e => .error e
      | .ok (rs, st2) => .ok (r :: rs, st2)

mutual
/-- nesting depth (fuel needed) -/
def depth : Json ν → Nat
  | arr xs => depthList xs + 1
  | obj kvs => depthFields kvs + 1
  | _ => 1
def depthList : List (Json ν) → Nat
  | [] => 0
  | x :: xs => max (depth x) (depthList xs)
def depthFields : List (String × Json ν) → Nat
  | [] => 0
  | (_, v) :: rest => max (depth v) (depthFields rest)
end

end

/-! ## the class table used by the driver -/

def paramAlts : List (String × Bool) :=
  [("full_like", true), ("full", false), ("zeros_like", true), ("zeros", false),
   ("ones_like", true), ("ones", false), ("eye", false), ("eye_like", true), ("arange", false)]

def classTable : ClassTable where
  classes :=
    [ -- generic classes the harness registers (harness/c13.py builds them from this very table)
      ("VLeaf",  { name := "VLeaf", slots := [] }),
      ("VOne",   { name := "VOne", slots := [.one "x"] }),
      ("VPair",  { name := "VPair", slots := [.one "a", .one "b"] }),
      ("VRev",   { name := "VRev", slots := [.one "b", .one "a"] }),
      ("VMany",  { name := "VMany", slots := [.many "xs"] }),
      ("VMix",   { name := "VMix", slots := [.optMany "kids", .optOne "p", .one "q", .each "rs"] }),
      ("VOpt",   { name := "VOpt", slots := [.optOne "a", .optMany "bs", .optOne "c"] }),
      ("pkg.mod.VLong", ⟨"VLeaf", [], none⟩),
      -- leaf classes whose instances are FALSY in Python (`__bool__` False / `__len__` 0): an id bound to
      -- such an object is still bound
      ("VFalsy", { name := "VFalsy", slots := [] }),
      ("VEmpty", { name := "VEmpty", slots := [] }),
      ("VSelf",  ⟨"VSelf",  [.optOne "pre", .one "inner", .optMany "rest"], some 1⟩),
      -- real classes (key orders as in their from_json)
      ("Parameter", { name := "Parameter", slots := [.firstOf paramAlts] }),
      ("torchtree.core.parameter.Parameter", { name := "Parameter", slots := [.firstOf paramAlts] }),
      ("ViewParameter", { name := "ViewParameter", slots := [.one "parameter", .need "indices"] }),
      ("CatParameter", { name := "CatParameter", slots := [.many "parameters"] }),
      ("TransformedParameter",
        { name := "TransformedParameter", slots := [.need "transform", .sub "parameters" "transform" .transform, .many "x"] }),
      ("Distribution",
        { name := "Distribution", slots := [.need "distribution", .many "x", .sub "parameters" "distribution" .dist] }),
      ("JointDistributionModel", { name := "JointDistributionModel", slots := [.each "distributions"] }),
      -- taxa and tree models (inline sub-objects: Taxa, Taxon, heights / branch-length parameters)
      ("Taxon", { name := "Taxon", slots := [] }),
      -- full dotted names (what the json_factory helpers write) resolve to the same classes
      ("torchtree.evolution.taxa.Taxon", { name := "Taxon", slots := [] }),
      ("torchtree.evolution.taxa.Taxa", { name := "Taxa", slots := [.many "taxa"] }),
      ("torchtree.Parameter", { name := "Parameter", slots := [.firstOf paramAlts] }),
      ("Taxa", { name := "Taxa", slots := [.many "taxa"] }),
      -- (`datatype: "nucleotide"` builds an anonymous data type unless an object is registered under that id)
      ("Alignment", { name := "Alignment", slots := [.one "taxa", .need "datatype"] }),
      ("UnRootedTreeModel", { name := "UnRootedTreeModel", slots := [.one "taxa", .one "branch_lengths"] }),
      ("TimeTreeModel", { name := "TimeTreeModel", slots := [.one "taxa", .one "internal_heights"] }),
      ("ReparameterizedTimeTreeModel",
        { name := "ReparameterizedTimeTreeModel",
          slots := [.one "taxa", .optOne "shifts", .oneUnless "root_height" "shifts", .oneUnless "ratios" "shifts"] }),
      -- registers itself after `taxa` (its heights may refer back to it)
      ("FlexibleTimeTreeModel",
        { name := "FlexibleTimeTreeModel", slots := [.one "taxa", .one "internal_heights"], selfRegAfter := some 1 }) ]
  sigs :=
    [ ("torch.distributions.Normal", ["loc", "scale", "validate_args"]),
      ("torch.distributions.LogNormal", ["loc", "scale", "validate_args"]),
      ("torch.distributions.Exponential", ["rate", "validate_args"]),
      ("torch.distributions.Gamma", ["concentration", "rate", "validate_args"]),
      ("torch.distributions.ExpTransform", ["cache_size"]),
      ("torch.distributions.SigmoidTransform", ["cache_size"]),
      ("torch.distributions.AffineTransform", ["loc", "scale", "event_dim", "cache_size"]),
      ("torchtree.evolution.tree_height_transform.DifferenceNodeHeightTransform", ["tree_model", "k", "cache_size"]) ]

/-- the two pre-passes of `torchtree.torchtree.main`, IN THIS ORDER: comments (underscore keys, ignored objects) are removed
first, plates are expanded in what is left - an ignored plate is never expanded -/
def preprocess {ν : Type} [JNum ν] (steps fuel : Nat) (j : Json ν) : Except PlateErr (Json ν) :=
  expandPlatesFuel steps fuel (removeComments j)

end TT.C13
