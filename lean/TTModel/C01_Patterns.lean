import TTGen.C01_Alphabet
/-!
# C01 — alignment → site patterns → tip vectors (core Lean only)

Mirrors `alignment.py:Alignment.__init__` (sequences sorted into `Taxa` order),
`site_pattern.py:compress / compress_alignment / compress_alignment_states` and
`datatype.py:NucleotideDataType.encoding / partial`, `AminoAcidDataType.encoding / partial`
(tables come from the GENERATED file `TTGen/C01_Alphabet.lean`).
-/
namespace TT.C01

/-- one symbol of a sequence: one character (nucleotide, amino acid) or `size` of them (codon) -/
abbrev Sym := List Char
/-- one alignment column: one symbol per sequence, in alignment (= `Taxa`) order -/
abbrev Column := List Sym

/-! ### `Counter(zip(*sequences))`, `sorted(keys)`, weights -/

/-- add one occurrence of `c` to a list of (key, count) kept in increasing key order -/
def insertCount {C : Type} [DecidableEq C] [LT C] [DecidableLT C] (c : C) :
    List (C × Nat) → List (C × Nat)
  | [] => [(c, 1)]
  | (p, w) :: rest =>
    if c = p then (p, w + 1) :: rest
    else if c < p then (c, 1) :: (p, w) :: rest
    else (p, w) :: insertCount c rest

/-- `count_dict = Counter(columns); [(p, count_dict[p]) for p in sorted(count_dict)]` -/
def compress {C : Type} [DecidableEq C] [LT C] [DecidableLT C] (cols : List C) : List (C × Nat) :=
  cols.foldl (fun acc c => insertCount c acc) []

/-- `zip(*[s[i::step] for i in range(step)])`: consecutive groups of `step` characters, an
    incomplete last group is dropped (`zip` stops at the shortest) -/
def splitSyms (step : Nat) (s : List Char) : List Sym :=
  if step = 0 then [] else
  (List.range (s.length / step)).map fun g => (List.range step).map fun i => s.getD (g * step + i) ' '

def minLength {β : Type} : List (List β) → Nat
  | [] => 0
  | [s] => s.length
  | s :: rest => min s.length (minLength rest)

/-- `zip(*sequences)`: columns, truncated to the shortest sequence -/
def columns (seqs : List (List Sym)) : List Column :=
  (List.range (minLength seqs)).map fun i => seqs.map fun s => s.getD i []

/-- `Alignment.__init__`: `sequences.sort(key=lambda x: indexing[x.taxon])` (stable insertion) -/
def insertByKey {β : Type} (key : β → Nat) (x : β) : List β → List β
  | [] => [x]
  | y :: ys => if key x < key y then x :: y :: ys else y :: insertByKey key x ys

def sortSeqs (taxa : List String) (seqs : List (String × List Char)) : List (String × List Char) :=
  seqs.foldr (insertByKey fun s => taxa.idxOf s.1) []

/-- `compress(alignment)`: sorted distinct columns with their multiplicities -/
def patterns (size : Nat) (taxa : List String) (seqs : List (String × List Char)) :
    List (Column × Nat) :=
  compress (columns ((sortSeqs taxa seqs).map fun s => splitSyms size s.2))

/-- `patterns[taxon.id]` for pattern column `p`: the dict is keyed by the sorted alignment's
    taxon names, row `r` of the dict holds component `r` of every column -/
def symbolOf (taxa : List String) (seqs : List (String × List Char)) (name : String) (p : Column) : Option Sym :=
  let names := (sortSeqs taxa seqs).map (·.1)
  if name ∈ names then p[names.idxOf name]? else none

/-! ### `NucleotideDataType` (functions of the code point `ord(string)`) -/

/-- `NUCLEOTIDE_STATES[ord(string)]` (`IndexError` beyond the table = `none`) -/
def nucEncodingCode (o : Nat) : Option Nat := TTGen.C01.nucStates[o]?

/-- `NucleotideDataType.partial(string, use_ambiguities)` -/
def nucPartialCode (useAmb : Bool) (o : Nat) : Option (List Nat) :=
  if !useAmb && !(TTGen.C01.nucPlain.contains o) then some (List.replicate 4 1)
  else match nucEncodingCode o with
    | some e => TTGen.C01.nucAmbig[e]?
    | none => none

/-- `clamp(encoding(c), max=state_count)` of `compress_alignment_states` -/
def nucTipStateCode (o : Nat) : Option Nat :=
  (nucEncodingCode o).map fun e => min e TTGen.C01.nucStateChars.length

def nucEncoding (c : Char) : Option Nat := nucEncodingCode c.toNat
def nucPartial (useAmb : Bool) (c : Char) : Option (List Nat) := nucPartialCode useAmb c.toNat
def nucTipState (c : Char) : Option Nat := nucTipStateCode c.toNat

/-! ### `AminoAcidDataType` -/

def aaEncodingCode (o : Nat) : Option Nat := TTGen.C01.aaStates[o]?

def aaPartialCode (useAmb : Bool) (o : Nat) : Option (List Nat) :=
  if !useAmb && !(TTGen.C01.aaPlain.contains o) then TTGen.C01.aaAmbig.getLast?
  else match aaEncodingCode o with
    | some e => TTGen.C01.aaAmbig[e]?
    | none => none

def aaTipStateCode (o : Nat) : Option Nat :=
  (aaEncodingCode o).map fun e => min e TTGen.C01.aaStateChars.length

def aaPartial (useAmb : Bool) (c : Char) : Option (List Nat) := aaPartialCode useAmb c.toNat
def aaTipState (c : Char) : Option Nat := aaTipStateCode c.toNat

/-! ### `CodonDataType` (tables of every shipped genetic code in the generated file) -/

/-- `np.array([int(codon == '*') for codon in self.table]).cumsum()[e]` -/
def stopCount (table : List Nat) (e : Nat) : Nat := ((table.take (e + 1)).filter (· == 42)).length

/-- `n1 * 16 + n2 * 4 + n3` of a triplet of code points, when all three letters are plain (`NUCLEOTIDE_STATES ≤ 3`);
    `none` = `IndexError` (fewer than three letters, or a code point beyond the table) -/
def tripletIndex (sym : List Nat) : Option (Option Nat) :=
  match sym with
  | o1 :: o2 :: o3 :: _ =>
    match nucEncodingCode o1, nucEncodingCode o2, nucEncodingCode o3 with
    | some n1, some n2, some n3 =>
      if n1 ≤ 3 ∧ n2 ≤ 3 ∧ n3 ≤ 3 then some (some (n1 * 16 + n2 * 4 + n3)) else some none
    | _, _, _ => none
  | _ => none

/-- `CodonDataType.encoding`: `65` for a triplet with a non-plain letter, else the triplet index minus the number of
    stop codons up to and including it -/
def codonEncoding (table : List Nat) (sym : List Nat) : Option Nat :=
  match tripletIndex sym with
  | some (some e) => some (e - stopCount table e)
  | some none => some 65
  | none => none

/-- `state_count` as `AbstractDataType.__init__` sets it: the number of triplets `triplets[:64]` whose table entry is
    not `*` (it overrides the `NUMBER_OF_CODONS` entry stored first) -/
def codonStateCount (table : List Nat) : Nat :=
  ((TTGen.C01.codonTriplets.take 64).filter fun t =>
    match tripletIndex t with
    | some (some e) => table.getD e 42 != 42
    | _ => false).length

/-- `CodonDataType.partial` (`use_ambiguities` is ignored by the code); `none` = `IndexError` of `p[encoding] = 1.0` -/
def codonPartial (table : List Nat) (sym : List Nat) : Option (List Nat) :=
  match codonEncoding table sym with
  | some e =>
    let sc := codonStateCount table
    if e = 65 then some (List.replicate sc 1)
    else if e < sc then some ((List.range sc).map fun j => if j = e then 1 else 0)
    else none
  | none => none

def codonTipState (table : List Nat) (sym : List Nat) : Option Nat :=
  (codonEncoding table sym).map fun e => min e (codonStateCount table)

/-! ### `GeneralDataType` (codes and ambiguity map supplied by the user) -/

/-- position of a symbol in a list (`dict` lookup `{code: idx}`) -/
def codeIndex (codes : List Sym) (s : Sym) : Option Nat :=
  if s ∈ codes then some (codes.idxOf s) else none

/-- `self.codes[sym]` after `__init__`: a base code ↦ its index; an ambiguity key ↦ the indices of the codes it
    lists (the ambiguity entry OVERWRITES a base code of the same name); `none` = not a key.
    `some none` = the constructor would have raised (`KeyError`: a listed symbol is not a base code). -/
def generalCodes (codes : List Sym) (ambs : List (Sym × List Sym)) (s : Sym) : Option (Option (List Nat)) :=
  match ambs.find? (fun a => a.1 == s) with
  | some a => some (a.2.mapM (codeIndex codes))
  | none => (codeIndex codes s).map fun i => some [i]

/-- `GeneralDataType.partial`: indicator of the index set of a known symbol, all ones otherwise -/
def generalPartial (codes : List Sym) (ambs : List (Sym × List Sym)) (s : Sym) : Option (List Nat) :=
  match generalCodes codes ambs s with
  | some (some idx) => some ((List.range codes.length).map fun j => if j ∈ idx then 1 else 0)
  | some none => none
  | none => some (List.replicate codes.length 1)

/-- `GeneralDataType.encoding`: `_encoding.get(string, state_count)`; `_encoding` holds the base codes and the
    ALIASES (ambiguity keys listing exactly one code) -/
def generalEncoding (codes : List Sym) (ambs : List (Sym × List Sym)) (s : Sym) : Nat :=
  match ambs.find? (fun a => a.1 == s) with
  | some (_, [t]) => (codeIndex codes t).getD codes.length
  | _ => (codeIndex codes s).getD codes.length

/-! ### `SitePattern.indices`: column selection `sequence[index]`, `index` an `int` or a `slice` -/

inductive Idx where
  | at (i : Int)
  | slice (start stop step : Option Int)
deriving Repr, DecidableEq

/-- `s[i]` for an `int` (negative counts from the end); `none` = `IndexError` -/
def pyIndex (len : Nat) (i : Int) : Option Nat :=
  let j := if i < 0 then i + len else i
  if 0 ≤ j ∧ j < len then some j.toNat else none

/-- positions selected by `s[start:stop:step]` (`slice.indices(len)`); `none` = `ValueError` (step 0) -/
def pySlice (len : Nat) (start stop step : Option Int) : Option (List Nat) :=
  let st := step.getD 1
  if st = 0 then none else
  let n : Int := len
  let lower : Int := if st < 0 then -1 else 0
  let upper : Int := if st < 0 then n - 1 else n
  let clampv (v : Int) : Int := if v < 0 then max (v + n) lower else min v upper
  let a : Int := match start with | none => (if st < 0 then upper else lower) | some v => clampv v
  let b : Int := match stop with | none => (if st < 0 then lower else upper) | some v => clampv v
  let cnt : Nat := if st > 0 then (if a < b then ((b - a - 1) / st + 1).toNat else 0)
                   else (if b < a then ((a - b - 1) / (-st) + 1).toNat else 0)
  some ((List.range cnt).map fun (k : Nat) => (a + (k : Int) * st).toNat)

/-- `sequences_new[idx] += sequence[index]` over all indices -/
def selectCols {β : Type} (idx : List Idx) (s : List β) : Option (List β) :=
  (idx.mapM fun (ix : Idx) => match ix with
    | Idx.at i => (pyIndex s.length i).bind fun j => (s[j]?).map fun x => [x]
    | Idx.slice a b c => (pySlice s.length a b c).map fun (ps : List Nat) => ps.filterMap fun j => s[j]?).map List.flatten

/-- `compress(alignment, indices)` -/
def patternsIdx (size : Nat) (taxa : List String) (seqs : List (String × List Char)) (idx : Option (List Idx)) :
    Option (List (Column × Nat)) :=
  match idx with
  | none => some (patterns size taxa seqs)
  | some ix =>
    ((sortSeqs taxa seqs).mapM fun s => selectCols ix (splitSyms size s.2)).map fun rows => compress (columns rows)

/-- the pattern a site belongs to: position of its column among the pattern keys -/
def patternOf {C : Type} [DecidableEq C] [LT C] [DecidableLT C] (cols : List C) (j : Nat) : Option Nat :=
  (cols[j]?).map fun c => ((compress cols).map (·.1)).idxOf c

/-! ### tip vector / tip state of a symbol, by data type -/

inductive DT where
  | nuc
  | aa
  | codon (table : List Nat)
  | general (codes : List Sym) (ambs : List (Sym × List Sym))

def symPartialDT (dt : DT) (useAmb : Bool) (s : Sym) : Option (List Nat) :=
  match dt, s with
  | .nuc, [c] => nucPartial useAmb c
  | .aa, [c] => aaPartial useAmb c
  | .codon t, s => codonPartial t (s.map Char.toNat)
  | .general cs am, s => generalPartial cs am s
  | _, _ => none

def symTipStateDT (dt : DT) (s : Sym) : Option Nat :=
  match dt, s with
  | .nuc, [c] => nucTipState c
  | .aa, [c] => aaTipState c
  | .codon t, s => codonTipState t (s.map Char.toNat)
  | .general cs am, s => some (min (generalEncoding cs am s) cs.length)
  | _, _ => none

/-- tip vector of a one-character symbol -/
def symPartial (aa : Bool) (useAmb : Bool) : Sym → Option (List Nat) :=
  symPartialDT (if aa then .aa else .nuc) useAmb

def symTipState (aa : Bool) : Sym → Option Nat := symTipStateDT (if aa then .aa else .nuc)

end TT.C01
