import TTGen.C01_Alphabet
/-!
# C01 — alignment → site patterns → tip vectors (core Lean only)

Mirrors `alignment.py:Alignment.__init__` (sequences sorted into `Taxa` order),
`site_pattern.py:compress / compress_alignment / compress_alignment_states` and
`datatype.py:NucleotideDataType.encoding / partial`, `AminoAcidDataType.encoding / partial`
(tables come from the GENERATED file `TTGen/C01_Alphabet.lean`).
-/
namespace TT.C01

/-- one symbol of a sequence: one character (nucleotide, amino acid) or `size` of them (codon) -/
abbrev Sym := List Char
/-- one alignment column: one symbol per sequence, in alignment (= `Taxa`) order -/
abbrev Column := List Sym

/-! ### `Counter(zip(*sequences))`, `sorted(keys)`, weights -/

/-- add one occurrence of `c` to a list of (key, count) kept in increasing key order -/
def insertCount {C : Type} [DecidableEq C] [LT C] [DecidableLT C] (c : C) :
    List (C × Nat) → List (C × Nat)
  | [] => [(c, 1)]
  | (p, w) :: rest =>
    if c = p then (p, w + 1) :: rest
    else if c < p then (c, 1) :: (p, w) :: rest
    else (p, w) :: insertCount c rest

/-- `count_dict = Counter(columns); [(p, count_dict[p]) for p in sorted(count_dict)]` -/
def compress {C : Type} [DecidableEq C] [LT C] [DecidableLT C] (cols : List C) : List (C × Nat) :=
  cols.foldl (fun acc c => insertCount c acc) []

/-- `zip(*[s[i::step] for i in range(step)])`: consecutive groups of `step` characters, an
    incomplete last group is dropped (`zip` stops at the shortest) -/
def splitSyms (step : Nat) (s : List Char) : List Sym :=
  if step = 0 then [] else
  (List.range (s.length / step)).map fun g => (List.range step).map fun i => s.getD (g * step + i) ' '

def minLength {β : Type} : List (List β) → Nat
  | [] => 0
  | [s] => s.length
  | s :: rest => min s.length (minLength rest)

/-- `zip(*sequences)`: columns, truncated to the shortest sequence -/
def columns (seqs : List (List Sym)) : List Column :=
  (List.range (minLength seqs)).map fun i => seqs.map fun s => s.getD i []

/-- `Alignment.__init__`: `sequences.sort(key=lambda x: indexing[x.taxon])` (stable insertion) -/
def insertByKey {β : Type} (key : β → Nat) (x : β) : List β → List β
  | [] => [x]
  | y :: ys => if key x < key y then x :: y :: ys else y :: insertByKey key x ys

def sortSeqs (taxa : List String) (seqs : List (String × List Char)) : List (String × List Char) :=
  seqs.foldr (insertByKey fun s => taxa.idxOf s.1) []

/-- `compress(alignment)`: sorted distinct columns with their multiplicities -/
def patterns (size : Nat) (taxa : List String) (seqs : List (String × List Char)) :
    List (Column × Nat) :=
  compress (columns ((sortSeqs taxa seqs).map fun s => splitSyms size s.2))

/-- `patterns[taxon.id]` for pattern column `p`: the dict is keyed by the sorted alignment's
    taxon names, row `r` of the dict holds component `r` of every column -/
def symbolOf (taxa : List String) (seqs : List (String × List Char)) (name : String) (p : Column) : Option Sym :=
  let names := (sortSeqs taxa seqs).map (·.1)
  if name ∈ names then p[names.idxOf name]? else none

/-! ### `NucleotideDataType` (functions of the code point `ord(string)`) -/

/-- `NUCLEOTIDE_STATES[ord(string)]` (`IndexError` beyond the table = `none`) -/
def nucEncodingCode (o : Nat) : Option Nat := TTGen.C01.nucStates[o]?

/-- `NucleotideDataType.partial(string, use_ambiguities)` -/
def nucPartialCode (useAmb : Bool) (o : Nat) : Option (List Nat) :=
  if !useAmb && !(TTGen.C01.nucPlain.contains o) then some (List.replicate 4 1)
  else match nucEncodingCode o with
    | some e => TTGen.C01.nucAmbig[e]?
    | none => none

/-- `clamp(encoding(c), max=state_count)` of `compress_alignment_states` -/
def nucTipStateCode (o : Nat) : Option Nat :=
  (nucEncodingCode o).map fun e => min e TTGen.C01.nucStateChars.length

def nucEncoding (c : Char) : Option Nat := nucEncodingCode c.toNat
def nucPartial (useAmb : Bool) (c : Char) : Option (List Nat) := nucPartialCode useAmb c.toNat
def nucTipState (c : Char) : Option Nat := nucTipStateCode c.toNat

/-! ### `AminoAcidDataType` -/

def aaEncodingCode (o : Nat) : Option Nat := TTGen.C01.aaStates[o]?

def aaPartialCode (useAmb : Bool) (o : Nat) : Option (List Nat) :=
  if !useAmb && !(TTGen.C01.aaPlain.contains o) then TTGen.C01.aaAmbig.getLast?
  else match aaEncodingCode o with
    | some e => TTGen.C01.aaAmbig[e]?
    | none => none

def aaTipStateCode (o : Nat) : Option Nat :=
  (aaEncodingCode o).map fun e => min e TTGen.C01.aaStateChars.length

def aaPartial (useAmb : Bool) (c : Char) : Option (List Nat) := aaPartialCode useAmb c.toNat
def aaTipState (c : Char) : Option Nat := aaTipStateCode c.toNat

/-- tip vector of a one-character symbol -/
def symPartial (aa : Bool) (useAmb : Bool) : Sym → Option (List Nat)
  | [c] => if aa then aaPartial useAmb c else nucPartial useAmb c
  | _ => none

def symTipState (aa : Bool) : Sym → Option Nat
  | [c] => if aa then aaTipState c else nucTipState c
  | _ => none

end TT.C01
