/-!
# C11 — the change-notification / cache machine of torchtree

Mirrors `core/parametric.py` (listener registration), `core/parameter.py`
(`Parameter`, `ViewParameter`, `CatParameter`, `TransformedParameter`: setters, `fire_parameter_changed`,
handlers), `core/model.py` (`Model.fire_model_changed`, `CallableModel.__call__`) and the
per-class handler overrides (generated: `TTGen/C11_Wiring.lean`).

* A **node** is one torchtree object (a parameter of any kind or a model).  It has a class (index
  into the generated class table), the ordered list of its listeners (as `add_parameter_listener`
  / `add_model_listener` appended them) and, for parameters, a setter.
* A **cell** is one observable quantity of a node (`p.tensor`, `tree.branch_lengths()`, `model()` …)
  with the dirty flag guarding its cache (if any) and the list of cells it reads.
* Values are uninterpreted: `value(cell) = F cell (values of the cells it reads)`.
* `fireL` is the depth-first, ordered, exception-propagating notification walk;
  `evalF` is a getter call (returns the cache when the guard flag is clear, else recomputes through
  the getters of its inputs, stores, clears); `assignF` is a `tensor` setter.

Core Lean only (linked into `drv_c11`).
-/
namespace TT.C11

/-- the two notifications: `handle_parameter_changed` / `handle_model_changed` -/
inductive Kind | param | model
deriving DecidableEq, Repr, Inhabited

/-- how a handler ends: returns, notifies the object's own listeners (`self.fire_<k>_changed`),
or raises (calls a method the class does not have / the handler itself is missing) -/
inductive Tail | none | fire (k : Kind) | raise
deriving DecidableEq, Repr, Inhabited

/-- a handler as read off the AST: the flags it sets to `True`, then how it ends.
`recognised = false`: the translator met a statement shape it does not understand. -/
structure Handler where
  recognised : Bool
  sets : List Nat
  tail : Tail
deriving DecidableEq, Repr, Inhabited

/-- `if self.<flag>: … [self.<flag> = False]` found in function `impl` of the class -/
structure Guard where
  impl : String
  flag : Nat
  clears : Bool
deriving DecidableEq, Repr, Inhabited

/-- one row of the generated table (`TTGen/C11_Wiring.lean`) -/
structure ClassSpec where
  name : String
  /-- notification its own `fire_*` sends: `param` for `AbstractParameter`s, `model` for `Model`s -/
  emits : Kind
  /-- subclass of `Parametric`: assigning a parameter/model attribute registers `self` as listener -/
  parametric : Bool
  /-- `__init__` contains `<x>.add_parameter_listener(self)` -/
  explicitParam : Bool
  /-- `__init__` contains `<x>.add_model_listener(self)` -/
  explicitModel : Bool
  flags : List String
  onParam : Handler
  onModel : Handler
  guards : List Guard
deriving DecidableEq, Repr, Inhabited

def ClassSpec.handler (s : ClassSpec) : Kind → Handler
  | .param => s.onParam
  | .model => s.onModel

/-- how an object holds an input: as an attribute (auto-registered iff the holder is `Parametric`)
or through an explicit `add_*_listener(self)` call in its constructor -/
inductive Origin | attr | explicit
deriving DecidableEq, Repr, Inhabited

def ClassSpec.registers (s : ClassSpec) : Origin → Kind → Bool
  | .attr, _ => s.parametric
  | .explicit, .param => s.explicitParam
  | .explicit, .model => s.explicitModel

/-- can an object of this class end up in somebody's listener list for notification `k` -/
def ClassSpec.canReceive (s : ClassSpec) (k : Kind) : Bool :=
  s.registers .attr k || s.registers .explicit k

/-- template of one observable quantity of a class (hand-written: `TTModel/C11_Reads.lean`) -/
structure CellT where
  getter : String
  /-- function of the class in which the guard test lives (`tensor` → `update` for `CatParameter`) -/
  impl : String
  guard : Option String
  /-- the getter never tests the flag: it recomputes on every call and clears the flag
  (`ConstantSiteModel.rates`) -/
  always : Bool
  /-- notifications the value is sensitive to -/
  kinds : List Kind
  /-- groups of external inputs it reads -/
  ext : List (Origin × Kind)
  /-- own cells it reads: (template index, does that read clear the flag) -/
  own : List (Nat × Bool)
deriving DecidableEq, Repr, Inhabited

inductive SetterKind | none | leaf | view | cat | trans
deriving DecidableEq, Repr, Inhabited

structure ClassReads where
  cls : String
  leaf : Bool
  setter : SetterKind
  cells : List CellT
deriving DecidableEq, Repr, Inhabited

/-! ## class-level well-wiredness (decided on the generated table) -/

def flagIndex (s : ClassSpec) (f : String) : Option Nat :=
  let i := s.flags.idxOf f
  if i < s.flags.length then some i else none

/-- the dirty flag guarding a template cell, identified by its ROLE in the source, not by its spelling (private
attribute names may change): the flag the getter `t.impl` tests and resets (the translator follows private helpers of
the class); for a getter that never tests (`always`), the flag the handlers set.  `t.guard` only says whether the
quantity is cached at all (its string is documentation). -/
def cellGuardIdx (s : ClassSpec) (t : CellT) : Option Nat :=
  match t.guard with
  | none => none
  | some _ =>
    if t.always then (s.onParam.sets ++ s.onModel.sets).head?
    else (s.guards.find? fun g => g.impl == t.impl && g.clears).map (·.flag)

/-- the checks of one template cell against the generated row -/
def cellOK (s : ClassSpec) (r : ClassReads) (i : Nat) (t : CellT) : Bool :=
  -- the handler for every notification the value is sensitive to sets its guard and forwards
  t.kinds.all (fun k =>
    (s.handler k).recognised && (s.handler k).tail == .fire s.emits &&
    (match cellGuardIdx s t with
     | some f => (s.handler k).sets.contains f
     | none => t.guard == none)) &&
  -- every external input it reads is one the class registers on, of a kind the cell declares
  t.ext.all (fun e => s.registers e.1 e.2 && t.kinds.contains e.2) &&
  -- own cells: earlier ones, whose sensitivities it inherits
  t.own.all (fun o => decide (o.1 < i) && ((r.cells.getD o.1 default).kinds.all fun k => t.kinds.contains k)) &&
  -- a cached quantity has a guard flag the AST shows (tested and reset in its getter)
  (match t.guard with
   | none => true
   | some _ => (cellGuardIdx s t).isSome)

def guardsDistinct : List CellT → Bool
  | [] => true
  | t :: ts => (t.guard == none || ts.all (fun u => u.guard != t.guard)) && guardsDistinct ts

def enumFrom {α} : Nat → List α → List (Nat × α)
  | _, [] => []
  | i, x :: xs => (i, x) :: enumFrom (i + 1) xs

/-- **well wired**: see `cellOK`; plus no handler the class can be called on raises or is
unrecognised, and whatever a handler fires is the class's own notification kind -/
def classOK (s : ClassSpec) (r : ClassReads) : Bool :=
  ((enumFrom 0 r.cells).all fun it => cellOK s r it.1 it.2) &&
  guardsDistinct r.cells &&
  [Kind.param, Kind.model].all (fun k =>
    (!s.canReceive k || ((s.handler k).recognised && (s.handler k).tail != .raise)) &&
    (match (s.handler k).tail with | .fire k' => k' == s.emits | _ => true))

/-! ## the machine -/

inductive Setter
  | none
  | leaf (cell : Nat)
  | view (parent : Nat) (pcell : Nat)
  | cat (children : List Nat) (flag : Nat)
  | trans (x : Nat)
deriving DecidableEq, Repr, Inhabited

structure NodeI where
  cls : Nat
  listeners : List Nat
  inputs : List (Nat × Origin)
  setter : Setter
deriving DecidableEq, Repr, Inhabited

structure CellI where
  owner : Nat
  tmpl : Nat
  leaf : Bool
  guard : Option Nat
  always : Bool
  kinds : List Kind
  reads : List (Nat × Bool)
deriving DecidableEq, Repr, Inhabited

structure Machine where
  table : List (ClassSpec × ClassReads)
  nodes : List NodeI
  cells : List CellI
deriving Repr, Inhabited

namespace Machine
variable (m : Machine)
def nodeAt (j : Nat) : NodeI := m.nodes.getD j default
def cellAt (c : Nat) : CellI := m.cells.getD c default
def specOf (j : Nat) : ClassSpec := (m.table.getD (m.nodeAt j).cls default).1
def readsOf (j : Nat) : ClassReads := (m.table.getD (m.nodeAt j).cls default).2
def handlerOf (j : Nat) (k : Kind) : Handler := (m.specOf j).handler k
def emits (j : Nat) : Kind := (m.specOf j).emits
def listeners (j : Nat) : List Nat := (m.nodeAt j).listeners
def nN : Nat := m.nodes.length
def nC : Nat := m.cells.length
end Machine

abbrev Flags := Nat → Nat → Bool

def setFlags (fl : Flags) (j : Nat) (fs : List Nat) : Flags :=
  fun a b => if a = j ∧ b ∈ fs then true else fl a b

def clearFlag (fl : Flags) (j : Nat) (f : Nat) : Flags :=
  fun a b => if a = j ∧ b = f then false else fl a b

/-- Notify the listeners `js` (in order) with notification `k`: each runs its handler (sets its
flags, then returns / fires onward depth-first / raises).  An exception aborts everything that
would have followed (`true` in the second component; flags set so far are kept).  `fuel` bounds the
depth; running out of fuel is reported as a raise so that "never raises" covers it. -/
def fireL (m : Machine) : Nat → Kind → List Nat → Flags → Flags × Bool
  | _, _, [], fl => (fl, false)
  | 0, _, _ :: _, fl => (fl, true)
  | fuel + 1, k, j :: js, fl =>
    let h := m.handlerOf j k
    let fl1 := setFlags fl j h.sets
    match h.tail with
    | .raise => (fl1, true)
    | .none => fireL m (fuel + 1) k js fl1
    | .fire k' =>
      let r := fireL m fuel k' (m.listeners j) fl1
      if r.2 then r else fireL m (fuel + 1) k js r.1
termination_by fuel _ js => (fuel, js.length)

structure State (V : Type) where
  /-- current value of a leaf cell (plain `Parameter._tensor`) -/
  leaf : Nat → V
  /-- stored value of a cached cell (`_tensor`, `lp`, `_branch_lengths` …) -/
  cache : Nat → Option V
  /-- dirty flags by (node, flag index in its class) -/
  flag : Flags

def upd {α} (f : Nat → α) (i : Nat) (v : α) : Nat → α := fun x => if x = i then v else f x

variable {V : Type} [Inhabited V]

/-- the value a freshly built copy holding the same leaf values returns -/
def freshF (m : Machine) (F : Nat → List V → V) (leaf : Nat → V) : Nat → Nat → V
  | 0, _ => default
  | fuel + 1, c =>
    let ci := m.cellAt c
    if ci.leaf then leaf c else F c (ci.reads.map fun r => freshF m F leaf fuel r.1)

def evalReads (ev : Nat → Bool → State V → V × State V) :
    List (Nat × Bool) → State V → List V × State V
  | [], s => ([], s)
  | r :: rs, s =>
    let p := ev r.1 r.2 s
    let q := evalReads ev rs p.2
    (p.1 :: q.1, q.2)

/-- a getter call on cell `c`; `clr`: does this call clear the guard flag after recomputing
(every public getter does; `ReparameterizedTimeTreeModel._call` refreshes the heights without) -/
def evalF (m : Machine) (F : Nat → List V → V) : Nat → Nat → Bool → State V → V × State V
  | 0, _, _, s => (default, s)
  | fuel + 1, c, clr, s =>
    let ci := m.cellAt c
    if ci.leaf then (s.leaf c, s) else
    match ci.guard with
    | some f =>
      if s.flag ci.owner f = false ∧ ci.always = false then ((s.cache c).getD default, s)
      else
        let p := evalReads (evalF m F fuel) ci.reads s
        let v := F c p.1
        (v, { p.2 with cache := upd p.2.cache c (some v),
                       flag := if clr then clearFlag p.2.flag ci.owner f else p.2.flag })
    | none =>
      let p := evalReads (evalF m F fuel) ci.reads s
      (F c p.1, p.2)

/-- `Parameter.tensor = v` (also the in-place step followed by `fire_parameter_changed`): store,
then notify the listeners of node `i` -/
def writeFire (m : Machine) (i c : Nat) (v : V) (s : State V) : State V × Bool :=
  let r := fireL m m.nN (m.emits i) (m.listeners i) s.flag
  ({ s with leaf := upd s.leaf c v, flag := r.1 }, r.2)

def assignList (asg : Nat → State V → State V × Bool) : List Nat → State V → State V × Bool
  | [], s => (s, false)
  | j :: js, s =>
    let r := asg j s
    if r.2 then r else assignList asg js r.1

/-- the `tensor` setter of node `j`; `v` gives the value each leaf cell ends up holding -/
def assignF (m : Machine) (v : Nat → V) : Nat → Nat → State V → State V × Bool
  | 0, _, s => (s, true)
  | fuel + 1, j, s =>
    match (m.nodeAt j).setter with
    | .none => (s, true)
    | .leaf c => writeFire m j c (v c) s
    | .view p pc => writeFire m p pc (v pc) s
    | .trans x => assignF m v fuel x s
    | .cat ch f =>
      let r := assignList (assignF m v fuel) ch s
      if r.2 then r else ({ r.1 with flag := setFlags r.1.flag j [f] }, false)

/-- primitive operations every public update decomposes into -/
inductive Prim (V : Type)
  | assign (node : Nat) (v : Nat → V)
  | eval (cell : Nat)

/-- the public operations of the property -/
inductive Op (V : Type)
  /-- `p.tensor = t` on a parameter of any kind -/
  | assign (node : Nat) (v : Nat → V)
  /-- in-place optimiser step on a plain parameter followed by `p.fire_parameter_changed()` -/
  | inplace (node : Nat) (v : Nat → V)
  /-- call a public getter -/
  | eval (cell : Nat)
  /-- `Distribution.sample/rsample`: read the distribution's parameters, assign the draw to `x` -/
  | draw (paramCells : List Nat) (x : Nat) (v : Nat → V)
  /-- `MCMCOperator.step`: clone every parameter's tensor, read the chosen one, assign the proposal;
  `after`: getters the operator calls once more before returning (`self.parameters[0].device`) -/
  | propose (tensorCells : List Nat) (chosenCell : Nat) (chosen : Nat) (after : List Nat) (v : Nat → V)
  /-- `MCMCOperator.reject`: assign the saved tensors back, in order -/
  | reject (params : List Nat) (v : Nat → V)

def Op.prims : Op V → List (Prim V)
  | .assign j v => [.assign j v]
  | .inplace j v => [.assign j v]
  | .eval c => [.eval c]
  | .draw cs x v => cs.map .eval ++ [.assign x v]
  | .propose cs cc j af v => cs.map .eval ++ [.eval cc, .assign j v] ++ af.map .eval
  | .reject ps v => ps.map (.assign · v)

/-- one observation: (cell, value returned by the getter, value of a fresh rebuild) -/
structure Obs (V : Type) where
  cell : Nat
  got : V
  fresh : V

structure Run (V : Type) where
  st : State V
  raised : Bool
  obs : List (Obs V)

/-- run the primitives of ONE public operation; an exception aborts the rest of that operation
(it is recorded; the objects stay as the aborted operation left them) -/
def runPrims (m : Machine) (F : Nat → List V → V) : List (Prim V) → Run V → Run V
  | [], r => r
  | .assign j v :: ps, r =>
    let a := assignF m v m.nN j r.st
    if a.2 then { r with st := a.1, raised := true }
    else runPrims m F ps { r with st := a.1 }
  | .eval c :: ps, r =>
    let e := evalF m F m.nC c true r.st
    runPrims m F ps { r with st := e.2, obs := r.obs ++ [⟨c, e.1, freshF m F r.st.leaf m.nC c⟩] }

/-- run a history of public operations (the caller catches an exception and goes on) -/
def runOps (m : Machine) (F : Nat → List V → V) : List (Op V) → Run V → Run V
  | [], r => r
  | op :: ops, r => runOps m F ops (runPrims m F op.prims r)

def run (m : Machine) (F : Nat → List V → V) (ops : List (Op V)) (s : State V) : Run V :=
  runOps m F ops ⟨s, false, []⟩

/-- state right after construction: every cache holds the value just computed; flags as the
constructors leave them (any assignment `fl0`) -/
def initState (m : Machine) (F : Nat → List V → V) (leaf : Nat → V) (fl0 : Flags) : State V :=
  { leaf := leaf, cache := fun c => some (freshF m F leaf m.nC c), flag := fl0 }

/-- can node `j` be assigned through the public setter without the setter itself being unsupported -/
def settable (m : Machine) : Nat → Nat → Bool
  | 0, _ => false
  | fuel + 1, j =>
    match (m.nodeAt j).setter with
    | .none => false
    | .leaf _ => true
    | .view _ _ => true
    | .trans x => settable m fuel x
    | .cat ch _ => ch.all fun c => settable m fuel c

/-! ## well-formedness and well-wiredness of a machine (decidable; checked by the driver on every
graph extracted from real objects, hypotheses of `wellwired_no_stale`) -/

structure WF (m : Machine) : Prop where
  reads_lt : ∀ c < m.nC, ∀ r ∈ (m.cellAt c).reads, r.1 < c
  owner_lt : ∀ c < m.nC, (m.cellAt c).owner < m.nN
  lst_gt : ∀ j < m.nN, ∀ l ∈ m.listeners j, j < l ∧ l < m.nN
  guard_inj : ∀ c < m.nC, ∀ c' < m.nC, (m.cellAt c).owner = (m.cellAt c').owner →
    (m.cellAt c).guard = (m.cellAt c').guard → (m.cellAt c).guard ≠ none → c = c'
  leaf_alone : ∀ c < m.nC, (m.cellAt c).leaf = true → ∀ c' < m.nC,
    (m.cellAt c').owner = (m.cellAt c).owner → c' = c
  leaf_plain : ∀ c < m.nC, (m.cellAt c).leaf = true →
    (m.cellAt c).guard = none
  set_leaf : ∀ j < m.nN, ∀ c, (m.nodeAt j).setter = .leaf c →
    c < m.nC ∧ (m.cellAt c).leaf = true ∧ (m.cellAt c).owner = j
  set_view : ∀ j < m.nN, ∀ p pc, (m.nodeAt j).setter = .view p pc →
    p < m.nN ∧ pc < m.nC ∧ (m.cellAt pc).leaf = true ∧ (m.cellAt pc).owner = p
  set_trans : ∀ j < m.nN, ∀ x, (m.nodeAt j).setter = .trans x → x < j
  set_cat : ∀ j < m.nN, ∀ ch f, (m.nodeAt j).setter = .cat ch f → ∀ x ∈ ch, x < j

structure WellWired (m : Machine) : Prop where
  /-- a cell reading another object's cell: its owner listens to that object, and the cell is
  declared sensitive to the notification that object sends -/
  ext : ∀ c < m.nC, ∀ r ∈ (m.cellAt c).reads, (m.cellAt r.1).owner ≠ (m.cellAt c).owner →
    (m.cellAt c).owner ∈ m.listeners (m.cellAt r.1).owner ∧
    m.emits (m.cellAt r.1).owner ∈ (m.cellAt c).kinds
  /-- a cell reading a cell of the same object inherits its sensitivities -/
  own : ∀ c < m.nC, ∀ r ∈ (m.cellAt c).reads, (m.cellAt r.1).owner = (m.cellAt c).owner →
    ∀ k ∈ (m.cellAt r.1).kinds, k ∈ (m.cellAt c).kinds
  /-- for every notification a cell is sensitive to, its owner's handler sets the cell's guard
  flag and forwards the notification to the owner's own listeners -/
  sets : ∀ c < m.nC, ∀ k ∈ (m.cellAt c).kinds,
    (m.handlerOf (m.cellAt c).owner k).tail = .fire (m.emits (m.cellAt c).owner) ∧
    ∀ f, (m.cellAt c).guard = some f → f ∈ (m.handlerOf (m.cellAt c).owner k).sets
  /-- no handler that can be called raises -/
  noraise : ∀ j < m.nN, ∀ l ∈ m.listeners j, (m.handlerOf l (m.emits j)).tail ≠ .raise
  /-- whatever a handler fires is its object's own notification kind -/
  kind : ∀ j < m.nN, ∀ k k', (m.handlerOf j k).tail = .fire k' → k' = m.emits j

/-- cache-coherence invariant: a clean guard flag means the stored value is the fresh value -/
def Inv (m : Machine) (F : Nat → List V → V) (s : State V) : Prop :=
  ∀ c < m.nC, ∀ f, (m.cellAt c).guard = some f → s.flag (m.cellAt c).owner f = false →
    s.cache c = some (freshF m F s.leaf m.nC c)

/-! ## executable versions of the checks (used by the driver; `Props/C11` proves them sound) -/

def allLt (n : Nat) (p : Nat → Bool) : Bool := (List.range n).all p

def wfB (m : Machine) : Bool :=
  allLt m.nC (fun c => (m.cellAt c).reads.all fun r => decide (r.1 < c)) &&
  allLt m.nC (fun c => decide ((m.cellAt c).owner < m.nN)) &&
  allLt m.nN (fun j => (m.listeners j).all fun l => decide (j < l) && decide (l < m.nN)) &&
  allLt m.nC (fun c => allLt m.nC fun c' =>
    !(decide ((m.cellAt c).owner = (m.cellAt c').owner) && decide ((m.cellAt c).guard = (m.cellAt c').guard)
      && decide ((m.cellAt c).guard ≠ none)) || decide (c = c')) &&
  allLt m.nC (fun c => !(m.cellAt c).leaf || allLt m.nC fun c' =>
    !decide ((m.cellAt c').owner = (m.cellAt c).owner) || decide (c' = c)) &&
  allLt m.nC (fun c => !(m.cellAt c).leaf || decide ((m.cellAt c).guard = none)) &&
  allLt m.nN (fun j => match (m.nodeAt j).setter with
    | .none => true
    | .leaf c => decide (c < m.nC) && (m.cellAt c).leaf && decide ((m.cellAt c).owner = j)
    | .view p pc => decide (p < m.nN) && decide (pc < m.nC) && (m.cellAt pc).leaf && decide ((m.cellAt pc).owner = p)
    | .trans x => decide (x < j)
    | .cat ch _ => ch.all fun x => decide (x < j))

def wellWiredB (m : Machine) : Bool :=
  allLt m.nC (fun c => (m.cellAt c).reads.all fun r =>
    if (m.cellAt r.1).owner = (m.cellAt c).owner then
      (m.cellAt r.1).kinds.all fun k => (m.cellAt c).kinds.contains k
    else
      (m.listeners (m.cellAt r.1).owner).contains (m.cellAt c).owner &&
      (m.cellAt c).kinds.contains (m.emits (m.cellAt r.1).owner)) &&
  allLt m.nC (fun c => (m.cellAt c).kinds.all fun k =>
    (m.handlerOf (m.cellAt c).owner k).tail == .fire (m.emits (m.cellAt c).owner) &&
    (match (m.cellAt c).guard with
     | some f => (m.handlerOf (m.cellAt c).owner k).sets.contains f
     | none => true)) &&
  allLt m.nN (fun j => (m.listeners j).all fun l => (m.handlerOf l (m.emits j)).tail != .raise) &&
  allLt m.nN (fun j => [Kind.param, Kind.model].all fun k =>
    match (m.handlerOf j k).tail with | .fire k' => k' == m.emits j | _ => true)

/-- the graph instantiates the class templates: every cell carries its template's guard and
sensitivities, reads own cells as the template says and external cells only through inputs of a
group the template lists; the listener lists are exactly what the registration rule of each
class (`ClassSpec.registers`) produces from the inputs -/
def conformsB (m : Machine) : Bool :=
  allLt m.nC (fun c =>
    let ci := m.cellAt c
    let j := ci.owner
    let s := m.specOf j
    let r := m.readsOf j
    let t := r.cells.getD ci.tmpl default
    decide (ci.tmpl < r.cells.length) &&
    decide (ci.kinds = t.kinds) && decide (ci.guard = cellGuardIdx s t) &&
    (t.guard == none || (cellGuardIdx s t).isSome) &&
    decide (ci.leaf = r.leaf) && decide (ci.always = t.always) &&
    ci.reads.all (fun rd =>
      let d := m.cellAt rd.1
      if d.owner = j then t.own.contains (d.tmpl, rd.2)
      else (m.nodeAt j).inputs.any fun inp =>
        decide (inp.1 = d.owner) && t.ext.contains (inp.2, m.emits d.owner))) &&
  -- registered inputs are listened to …
  allLt m.nN (fun j => (m.nodeAt j).inputs.all fun inp =>
    !(m.specOf j).registers inp.2 (m.emits inp.1) || (m.listeners inp.1).contains j) &&
  -- … and every listener is there because of a registered input
  allLt m.nN (fun u => (m.listeners u).all fun l =>
    (m.nodeAt l).inputs.any fun inp => decide (inp.1 = u) && (m.specOf l).registers inp.2 (m.emits u)) &&
  allLt m.nN (fun j => decide ((m.nodeAt j).cls < m.table.length))

def classesOKB (m : Machine) : Bool :=
  allLt m.nN fun j => classOK (m.specOf j) (m.readsOf j)

end TT.C11
