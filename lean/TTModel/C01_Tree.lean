/-!
# C01 — trees, node indices and traversals (core Lean only)

Mirrors `torchtree/evolution/tree_model.py`:

* `parse_tree` hands a rooted binary dendropy tree whose leaves carry taxon labels
  (`NTree`); `setup_indexes` gives a leaf the position of its label in the taxon namespace
  (`taxa_dict[node.taxon.label]`, here `List.idxOf`) and gives internal nodes the numbers
  `n, n+1, …` in the order `tree.postorder_node_iter()` meets them (`setupIdx`);
* `AbstractTreeModel.update_traversals` lists `(node.index, children[0].index,
  children[1].index)` for the internal nodes in post-order (`postorder`);
* `TimeTreeModel.update_traversals` lists `(parent.index, node.index)` in pre-order for every
  node but the root (`preorder`), `indices_sorted = preorder[argsort(preorder[:,1])].t()` and
  `branch_lengths = heights[indices_sorted[0]] - heights[indices_sorted[1]]`;
* `UnRootedTreeModel.from_json(keep_branch_lengths)` reads the edge lengths by node index,
  adds each root child's length to the other one and drops the last entry; `_call` of the
  likelihood appends a zero for that dropped branch.
-/
namespace TT.C01

/-- rooted binary tree whose leaves carry a taxon *label* (what dendropy returns) -/
inductive NTree where
  | leaf (name : String)
  | node (l r : NTree)
deriving Repr, Inhabited

/-- rooted binary tree whose leaves carry the taxon's position in the `Taxa` list -/
inductive BTree where
  | leaf (taxon : Nat)
  | node (l r : BTree)
deriving Repr, Inhabited, DecidableEq

/-- tree after `setup_indexes`: every node carries its `index` -/
inductive ITree where
  | leaf (idx : Nat)
  | node (idx : Nat) (l r : ITree)
deriving Repr, Inhabited, DecidableEq

def ITree.idx : ITree → Nat
  | .leaf i => i
  | .node i _ _ => i

/-- `taxa_dict[node.taxon.label]`: position of the label in the taxon list -/
def NTree.toBTree (taxa : List String) : NTree → BTree
  | .leaf nm => .leaf (taxa.idxOf nm)
  | .node l r => .node (l.toBTree taxa) (r.toBTree taxa)

def NTree.leaves : NTree → List String
  | .leaf nm => [nm]
  | .node l r => l.leaves ++ r.leaves

def BTree.leaves : BTree → List Nat
  | .leaf i => [i]
  | .node l r => l.leaves ++ r.leaves

def BTree.internalCount : BTree → Nat
  | .leaf _ => 0
  | .node l r => l.internalCount + r.internalCount + 1

def ITree.leaves : ITree → List Nat
  | .leaf i => [i]
  | .node _ l r => l.leaves ++ r.leaves

/-- indices of the internal nodes, in post-order -/
def ITree.internals : ITree → List Nat
  | .leaf _ => []
  | .node i l r => l.internals ++ r.internals ++ [i]

/-- the second loop of `setup_indexes`: post-order walk, internal nodes take `next(indexer)`,
    leaves keep the position of their taxon. Returns the indexed tree and the advanced counter. -/
def setupIdx : BTree → Nat → ITree × Nat
  | .leaf t, k => (.leaf t, k)
  | .node l r, k =>
    let a := setupIdx l k
    let b := setupIdx r a.2
    (.node b.2 a.1 b.1, b.2 + 1)

/-- `setup_indexes(tree)` for a taxon namespace of size `n` (`indexer = iter(range(n, 2n-1))`) -/
def setupIndexes (n : Nat) (t : BTree) : ITree := (setupIdx t n).1

/-- `update_traversals`: `(node, left, right)` for every internal node, in post-order -/
def postorder : ITree → List (Nat × Nat × Nat)
  | .leaf _ => []
  | .node i l r => postorder l ++ postorder r ++ [(i, l.idx, r.idx)]

/-- `(parent.index, node.index)` for every node but the root, in pre-order -/
def preorderFrom (parent : Nat) : ITree → List (Nat × Nat)
  | .leaf i => [(parent, i)]
  | .node i l r => (parent, i) :: (preorderFrom i l ++ preorderFrom i r)

def preorder : ITree → List (Nat × Nat)
  | .leaf _ => []
  | .node i l r => preorderFrom i l ++ preorderFrom i r

/-- insertion into a list sorted by the second component (stable: `torch.argsort` on distinct keys) -/
def insertBySnd (x : Nat × Nat) : List (Nat × Nat) → List (Nat × Nat)
  | [] => [x]
  | y :: ys => if x.2 < y.2 then x :: y :: ys else y :: insertBySnd x ys

/-- `preorder[argsort(preorder[:,1])]` (child indices are pairwise distinct) -/
def indicesSorted (pre : List (Nat × Nat)) : List (Nat × Nat) :=
  pre.foldr insertBySnd []

/-- `TimeTreeModel.branch_lengths`: `heights[parent] - heights[child]`, listed by child index -/
def timeTreeBranchLengths {α} [Sub α] [Inhabited α] (heights : Array α) (t : ITree) : List α :=
  (indicesSorted (preorder t)).map fun pc => heights[pc.1]! - heights[pc.2]!

/-- `UnRootedTreeModel.from_json` with `keep_branch_lengths`: `blens` = edge lengths sorted by
    node index (all nodes but the root); `blens[c1] += len(c2); blens[c2] += len(c1)` (sequentially,
    reading the *edge* lengths, not the updated list); `blens[:-1]`. -/
def unrootedKeptLengths {α} [Add α] [Inhabited α] (edge : Array α) (t : ITree) : List α :=
  match t with
  | .leaf _ => []
  | .node _ l r =>
    let b1 := edge.modify l.idx (· + edge[r.idx]!)
    let b2 := b1.modify r.idx (· + edge[l.idx]!)
    b2.toList.dropLast

/-- `_call`: without a clock model a zero is appended (the collapsed root branch `2n-2`);
    with a clock model `rates * branch_lengths`; then `bls.reshape(-1,1) * rates` -/
def assembleUnrooted {α} [Mul α] [Zero α] (bls : List α) (siteRates : List α) : List (List α) :=
  (bls ++ [0]).map fun b => siteRates.map fun r => b * r

def assembleClock {α} [Mul α] (bls clockRates : List α) (siteRates : List α) : List (List α) :=
  (List.zipWith (fun c b => c * b) clockRates bls).map fun b => siteRates.map fun r => b * r

/-- tokens `(`, `)`, names → `NTree` (the harness sends the shape it parsed from the newick string) -/
def parseTokens : Nat → List String → Option (NTree × List String)
  | 0, _ => none
  | _ + 1, [] => none
  | fuel + 1, "(" :: rest => do
    let (l, r1) ← parseTokens fuel rest
    let (r, r2) ← parseTokens fuel r1
    match r2 with
    | ")" :: r3 => some (.node l r, r3)
    | _ => none
  | _ + 1, ")" :: _ => none
  | _ + 1, nm :: rest => some (.leaf nm, rest)

def parseNTree (toks : List String) : Option NTree :=
  match parseTokens (toks.length + 1) toks with
  | some (t, []) => some t
  | _ => none

end TT.C01
