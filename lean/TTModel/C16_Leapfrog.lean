import TTModel.Scalar
/-!
# C16 — `LeapfrogIntegrator.__call__` and `HMCOperator._step` as written

`torchtree/inference/hmc/integrator.py`:

    dU = -grad(q)                               # grad = gradient of the JOINT (parameter.grad)
    momentum = momentum - step_size / 2.0 * dU
    for _ in range(steps):
        params = params + step_size * inverse_mass_matrix * momentum      # diagonal
        params = params + step_size * (inverse_mass_matrix @ momentum)    # dense
        dU = -grad(params)
        momentum -= step_size * dU
    momentum += step_size / 2 * dU              # half step BACK, with the LAST dU
    return momentum                             # positions are left in the parameters

The gradient is an arbitrary function `g : Vec → Vec` (nothing is assumed about it: it need not
be a gradient of anything).  Vectors are functions `Fin n → α`; several parameters of one
operator are the concatenation the code builds with `torch.cat`.
Operation order is kept as in the source (`(ε * d_i) * p_i` for a diagonal inverse mass matrix,
`ε * Σ_j m_ij p_j` for a dense one) so that the `Float` run rounds like torch does.
-/
namespace TT.C16

abbrev Vec (α : Type) (n : Nat) := Fin n → α

/-- inverse mass matrix as `HMCOperator.inverse_mass_matrix` holds it: 1-D tensor or matrix -/
inductive IMass (α : Type) (n : Nat) where
  | diag (d : Vec α n)
  | dense (m : Fin n → Fin n → α)

section
variable {α : Type} [Add α] [Sub α] [Mul α] [Neg α] [Zero α] {n : Nat}

/-- `inverse_mass_matrix * momentum` resp. `inverse_mass_matrix @ momentum` -/
def IMass.apply : IMass α n → Vec α n → Vec α n
  | .diag d, p => fun i => d i * p i
  | .dense m, p => fun i => sumFin fun j => m i j * p j

/-- position update of the loop body, operation order as in the source -/
def driftQ (eps : α) : IMass α n → Vec α n → Vec α n → Vec α n
  | .diag d, q, p => fun i => q i + (eps * d i) * p i
  | .dense m, q, p => fun i => q i + eps * (sumFin fun j => m i j * p j)

/-- a vector evaluated once and kept as an array.  `ofArr (toArr v) = v` (`force_eq`); the models
write `ofArr (toArr …)` where the code materialises a tensor — a vector left as a closure would be
recomputed at every use (exponential in the number of steps). -/
def toArr {β : Type} (v : Vec β n) : { a : Array β // a.size = n } :=
  ⟨Array.ofFn v, by simp⟩

def ofArr {β : Type} (a : { a : Array β // a.size = n }) : Vec β n :=
  fun i => a.1[i.val]'(by rw [a.2]; exact i.isLt)

theorem force_eq {β : Type} (v : Vec β n) : ofArr (toArr v) = v := by
  funext i; simp [ofArr, toArr]

/-- `dU = -torch.cat([parameter.grad ...])` -/
def negGrad (g : Vec α n → Vec α n) (q : Vec α n) : Vec α n := fun i => -(g q i)

/-- loop state: positions, momentum, last `dU` -/
structure LoopSt (α : Type) (n : Nat) where
  q : Vec α n
  p : Vec α n
  dU : Vec α n

/-- one iteration of `for _ in range(self.steps)` -/
def loopBody (g : Vec α n → Vec α n) (eps : α) (im : IMass α n) (s : LoopSt α n) : LoopSt α n :=
  let q' := ofArr (toArr (driftQ eps im s.q s.p))
  let dU' := ofArr (toArr (negGrad g q'))
  ⟨q', ofArr (toArr fun i => s.p i - eps * dU' i), dU'⟩

/-- the `for` loop -/
def loop (g : Vec α n → Vec α n) (eps : α) (im : IMass α n) : Nat → LoopSt α n → LoopSt α n
  | 0, s => s
  | k + 1, s => loop g eps im k (loopBody g eps im s)

/-- `LeapfrogIntegrator.__call__` with the half step size `h` passed explicitly
(`h = step_size / 2`): returns (positions written into the parameters, returned momentum) -/
def leapfrogWith (g : Vec α n → Vec α n) (h eps : α) (im : IMass α n) (steps : Nat)
    (q p : Vec α n) : Vec α n × Vec α n :=
  let dU := ofArr (toArr (negGrad g q))
  let p1 : Vec α n := ofArr (toArr fun i => p i - h * dU i)
  let s := loop g eps im steps ⟨q, p1, dU⟩
  (s.q, ofArr (toArr fun i => s.p i + h * s.dU i))

/-- every state the integrator passes through after a position update (for the exactness budget
of the correspondence and for the `nan` checks of `HMCOperator._step`) -/
def loopTrace (g : Vec α n → Vec α n) (eps : α) (im : IMass α n) :
    Nat → LoopSt α n → List (LoopSt α n)
  | 0, _ => []
  | k + 1, s => let s' := loopBody g eps im s; s' :: loopTrace g eps im k s'

/-- `Hamiltonian.kinetic_energy`: `torch.dot(momentum, inverse_mass_matrix (*|@) momentum) * 0.5` -/
def kinetic (half : α) (im : IMass α n) (p : Vec α n) : α :=
  (sumFin fun i => p i * im.apply p i) * half

end

section
variable {α : Type} [Add α] [Sub α] [Mul α] [Neg α] [Zero α] [Div α] [OfNat α 2] {n : Nat}

/-- `LeapfrogIntegrator.__call__`: half step `step_size / 2` -/
def leapfrog (g : Vec α n → Vec α n) (eps : α) (im : IMass α n) (steps : Nat)
    (q p : Vec α n) : Vec α n × Vec α n :=
  leapfrogWith g (eps / 2) eps im steps q p

end

/-! ## `HMCOperator._step`

    trial = 0
    while trial < 10:
        momentum = sample_momentum()
        try:    K0 = kinetic(momentum); ...; momentum = integrator(...); K1 = kinetic(momentum)
        except ValueError: restore saved tensors
        else: break
        trial += 1
    if trial == 10: return inf
    return K0 - K1

`ValueError` is raised when the potential or its gradient is `nan` at a visited position: the
model takes that as a predicate `bad` on positions (never true in an exact run). -/

/-- result of `_step`: new positions and the returned Hastings term, or `inf` with positions
restored -/
inductive StepResult (α : Type) (n : Nat) where
  | ok (q : Vec α n) (hastings : α)
  | inf (q : Vec α n)

section
variable {α : Type} [Add α] [Sub α] [Mul α] [Neg α] [Zero α] {n : Nat}

/-- does a trial raise? (initial position, then every position of the loop) -/
def trialRaises (bad : Vec α n → Bool) (g : Vec α n → Vec α n) (h eps : α) (im : IMass α n)
    (steps : Nat) (q p : Vec α n) : Bool :=
  let dU := ofArr (toArr (negGrad g q))
  let p1 : Vec α n := ofArr (toArr fun i => p i - h * dU i)
  bad q || (loopTrace g eps im steps ⟨q, p1, dU⟩).any fun s => bad s.q

/-- one successful trial: `kinetic_energy0 - kinetic_energy` -/
def hastingsOf (g : Vec α n → Vec α n) (h eps half : α) (im : IMass α n) (steps : Nat)
    (q p : Vec α n) : α :=
  kinetic half im p - kinetic half im (leapfrogWith g h eps im steps q p).2

/-- `HMCOperator._step` consuming the momentum draws of its (at most `max_trials`) trials.
`momenta` are the draws `sample_momentum` returns, in order. -/
def hmcStep (bad : Vec α n → Bool) (g : Vec α n → Vec α n) (h eps half : α) (im : IMass α n)
    (steps : Nat) (q : Vec α n) : Nat → List (Vec α n) → StepResult α n
  | 0, _ => .inf q
  | _ + 1, [] => .inf q
  | t + 1, p :: ps =>
    if trialRaises bad g h eps im steps q p then hmcStep bad g h eps half im steps q t ps
    else .ok (leapfrogWith g h eps im steps q p).1 (hastingsOf g h eps half im steps q p)

end

/-! ## the integrator as a composition of shears (used by the theorems; executable too) -/
section
variable {α : Type} [Add α] [Sub α] [Mul α] [Neg α] [Zero α] {n : Nat}

/-- momentum shear `(q,p) ↦ (q, p - a * dU(q))` -/
def kick (g : Vec α n → Vec α n) (a : α) (z : Vec α n × Vec α n) : Vec α n × Vec α n :=
  (z.1, fun i => z.2 i - a * negGrad g z.1 i)

/-- position shear `(q,p) ↦ (q + ε M⁻¹ p, p)` -/
def drift (eps : α) (im : IMass α n) (z : Vec α n × Vec α n) : Vec α n × Vec α n :=
  (driftQ eps im z.1 z.2, z.2)

/-- momentum flip -/
def flip (z : Vec α n × Vec α n) : Vec α n × Vec α n := (z.1, fun i => -(z.2 i))

end
end TT.C16
